(* Theorem (A): the API model (Model/Api.v) refines the ideal ordered map of
   Spec/Ideal.v on every history satisfying history_ok.  Assembly of the layer
   theorems: insert_spec, delete_spec, search_spec, the iterator theorems,
   run_range_any and lcparent_spec. *)
From GoArt Require Import Base.Bytes Model.Node4 Model.Node16 Model.Node Model.Tree Model.Iter Model.Api
  Spec.NodeSpec Spec.TreeSpec Spec.IterSpec Spec.Ideal
  Proofs.BytesFacts Proofs.NodeFacts Proofs.TreeBasics
  Proofs.InsertFacts Proofs.DeleteFacts Proofs.SearchFacts Proofs.IterFacts Proofs.RangeFacts.
From Coq Require Import ZifyN ZifyNat ZifyBool Sorted.
Ltac Zify.zify_post_hook ::= Z.div_mod_to_equations.
Open Scope N_scope.

(* ================================================================== *)
(* boolean history predicates, reflected                               *)
(* ================================================================== *)
Lemma pair_compat_spec : forall p q : kpair, pair_compat p q = true ->
  (fst p = fst q <-> snd p = snd q).
Proof.
  intros p q H. unfold pair_compat in H. apply Bool.eqb_prop in H.
  rewrite <- !beq_eq. rewrite H. tauto.
Qed.

Lemma pair_pfree_spec : forall p q : kpair, pair_pfree p q = true ->
  is_prefix (snd p) (snd q) -> snd p = snd q.
Proof.
  intros p q H Hp. unfold pair_pfree in H. apply orb_true_iff in H. destruct H as [H|H].
  - apply negb_true_iff in H. apply has_prefix_spec in Hp. congruence.
  - apply beq_eq. exact H.
Qed.

Lemma ins_ok_spec : forall P p q, ins_ok P = true -> In p P -> In q P ->
  isbytes (snd p) = true /\ (fst p = fst q <-> snd p = snd q) /\
  (is_prefix (snd p) (snd q) -> snd p = snd q).
Proof.
  intros P p q H Hp Hq. unfold ins_ok in H. rewrite forallb_forall in H. specialize (H p Hp).
  apply andb_true_iff in H. destruct H as [Hb H]. rewrite forallb_forall in H. specialize (H q Hq).
  apply andb_true_iff in H. destruct H as [Hc Hf].
  split; [exact Hb|]. split; [apply pair_compat_spec; exact Hc|apply pair_pfree_spec; exact Hf].
Qed.

Lemma probe_ok_spec : forall P p, probe_ok P p = true ->
  isbytes (snd p) = true /\ forall q, In q P -> fst q = fst p -> snd q = snd p.
Proof.
  intros P p H. unfold probe_ok in H. apply andb_true_iff in H. destruct H as [Hb H].
  split; [exact Hb|]. intros q Hq E. rewrite forallb_forall in H. specialize (H q Hq).
  apply beq_eq in E. rewrite E in H. cbn [implb] in H. apply beq_eq. exact H.
Qed.

(* everything stored comes from the pair list P *)
Definition inP (P : list kpair) (cs : list lrec) : Prop :=
  Forall (fun l => In (lgk l, ltk l) P) cs.

Lemma ins_compat : forall P cs gk tk, ins_ok P = true -> inP P cs -> In (gk, tk) P -> compat gk tk cs.
Proof.
  intros P cs gk tk H HP Hin l Hl. unfold inP in HP. rewrite Forall_forall in HP. specialize (HP l Hl).
  destruct (ins_ok_spec P (lgk l, ltk l) (gk, tk) H HP Hin) as (_ & Hc & _). exact Hc.
Qed.

Lemma ins_pfree : forall P cs gk tk, ins_ok P = true -> inP P cs -> In (gk, tk) P -> pfree tk cs.
Proof.
  intros P cs gk tk H HP Hin l Hl Hne. unfold inP in HP. rewrite Forall_forall in HP. specialize (HP l Hl).
  split; intros Hp.
  - destruct (ins_ok_spec P (gk, tk) (lgk l, ltk l) H Hin HP) as (_ & _ & Hf). cbn [snd] in Hf.
    apply Hne. symmetry. apply Hf. exact Hp.
  - destruct (ins_ok_spec P (lgk l, ltk l) (gk, tk) H HP Hin) as (_ & _ & Hf). cbn [snd] in Hf.
    apply Hne. apply Hf. exact Hp.
Qed.

Lemma ins_isbytes : forall P gk tk, ins_ok P = true -> In (gk, tk) P -> isbytes tk = true.
Proof.
  intros P gk tk H Hin. destruct (ins_ok_spec P (gk, tk) (gk, tk) H Hin Hin) as (Hb & _). exact Hb.
Qed.

Lemma probe_cons : forall P cs gk tk, probe_ok P (gk, tk) = true -> inP P cs ->
  isbytes tk = true /\ forall l, In l cs -> lgk l = gk -> ltk l = tk.
Proof.
  intros P cs gk tk H HP. destruct (probe_ok_spec _ _ H) as [Hb Hq]. split; [exact Hb|].
  intros l Hl E. unfold inP in HP. rewrite Forall_forall in HP. specialize (HP l Hl).
  apply (Hq (lgk l, ltk l) HP). exact E.
Qed.

(* ================================================================== *)
(* list facts about the ideal map                                      *)
(* ================================================================== *)
Lemma api_in_ins_tk : forall x y cs, In x (ins_tk y cs) -> x = y \/ In x cs.
Proof.
  intros x y cs. induction cs as [|c cs IH]; cbn [ins_tk]; intros H.
  - destruct H as [H|[]]. left. auto.
  - destruct (lex_ltb (ltk y) (ltk c)).
    + destruct H as [H|H]; [left; auto|right; exact H].
    + destruct H as [H|H]; [right; left; exact H|]. destruct (IH H) as [E|E]; [left; exact E|right; right; exact E].
Qed.

Lemma api_length_ins_tk : forall y cs, length (ins_tk y cs) = S (length cs).
Proof.
  intros y cs. induction cs as [|c cs IH]; cbn [ins_tk]; [reflexivity|].
  destruct (lex_ltb (ltk y) (ltk c)); cbn [length]; [reflexivity|]. rewrite IH. reflexivity.
Qed.

Lemma api_length_upsert : forall gk tk v cs,
  length (upsert gk tk v cs) = if mem_gk gk cs then length cs else S (length cs).
Proof.
  intros gk tk v cs. unfold upsert. destruct (mem_gk gk cs).
  - unfold set_v. apply map_length.
  - apply api_length_ins_tk.
Qed.

Lemma upsert_inP : forall P gk tk v cs, In (gk, tk) P -> inP P cs -> inP P (upsert gk tk v cs).
Proof.
  intros P gk tk v cs Hin HP. unfold inP in *. rewrite Forall_forall in *. intros l Hl.
  unfold upsert in Hl. destruct (mem_gk gk cs).
  - unfold set_v in Hl. apply in_map_iff in Hl. destruct Hl as (l0 & E & Hl0). specialize (HP l0 Hl0).
    destruct (beq (lgk l0) gk); subst l; [|exact HP]. exact HP.
  - apply api_in_ins_tk in Hl. destruct Hl as [E|Hl]; [subst l; exact Hin|apply HP; exact Hl].
Qed.

Lemma remove_gk_inP : forall P gk cs, inP P cs -> inP P (remove_gk gk cs).
Proof.
  intros P gk cs HP. unfold inP in *. rewrite Forall_forall in *. intros l Hl.
  unfold remove_gk in Hl. apply filter_In in Hl. apply HP. tauto.
Qed.

Lemma api_mem_gk_false : forall gk cs, mem_gk gk cs = false -> forall l, In l cs -> lgk l <> gk.
Proof.
  intros gk cs H l Hl E. assert (T : mem_gk gk cs = true).
  { unfold mem_gk. apply existsb_exists. exists l. split; [exact Hl|]. apply beq_eq. exact E. }
  congruence.
Qed.

Lemma api_remove_absent : forall gk cs, mem_gk gk cs = false -> remove_gk gk cs = cs.
Proof.
  intros gk cs H. pose proof (api_mem_gk_false gk cs H) as Hn. clear H.
  induction cs as [|c cs IH]; [reflexivity|]. unfold remove_gk in *. cbn [filter].
  destruct (beq (lgk c) gk) eqn:E.
  - exfalso. apply (Hn c); [left; reflexivity|]. apply beq_eq. exact E.
  - cbn [negb]. f_equal. apply IH. intros l Hl. apply Hn. right. exact Hl.
Qed.

(* a key that occurs, occurs once: removing it shortens the list by one *)
Lemma api_length_remove : forall gk tk cs,
  StronglySorted lex_lt (map ltk cs) ->
  (forall l, In l cs -> lgk l = gk -> ltk l = tk) ->
  mem_gk gk cs = true ->
  (length (remove_gk gk cs) + 1 = length cs)%nat.
Proof.
  intros gk tk cs. induction cs as [|c cs IH]; intros Hs Hc Hm; [discriminate|].
  cbn [map] in Hs. inversion Hs as [|x xs Hs' Hall]; subst x xs.
  unfold remove_gk. cbn [filter]. unfold mem_gk in Hm. cbn [existsb] in Hm.
  destruct (beq (lgk c) gk) eqn:E; cbn [negb].
  - apply beq_eq in E. assert (Ec : ltk c = tk) by (apply Hc; [left; reflexivity|exact E]).
    assert (Hr : remove_gk gk cs = cs).
    { apply api_remove_absent. destruct (mem_gk gk cs) eqn:Em; [|reflexivity]. exfalso.
      unfold mem_gk in Em. apply existsb_exists in Em. destruct Em as (l & Hl & El). apply beq_eq in El.
      assert (Etl : ltk l = tk) by (apply Hc; [right; exact Hl|exact El]).
      rewrite Forall_forall in Hall. specialize (Hall (ltk l) (in_map ltk _ _ Hl)).
      rewrite Ec, Etl in Hall. exact (lex_lt_irrefl _ Hall). }
    fold (remove_gk gk cs). rewrite Hr. cbn [length]. lia.
  - cbn [orb] in Hm. fold (remove_gk gk cs). cbn [length].
    assert (IH' : (length (remove_gk gk cs) + 1 = length cs)%nat).
    { apply IH; [exact Hs'| |exact Hm]. intros l Hl. apply Hc. right. exact Hl. }
    lia.
Qed.

(* ================================================================== *)
(* the representation invariant, by cases                              *)
(* ================================================================== *)
Lemma rep_cases : forall st cs, rep st cs ->
  ((root st = None /\ cs = []) \/ (exists t, root st = Some t /\ WF 0 t /\ leaves t = cs)) /\
  size st = Z.of_nat (length cs).
Proof.
  intros st cs [H Hs]. split; [|exact Hs].
  destruct (root st) as [t|]; [right; exists t; tauto|left; tauto].
Qed.

(* ================================================================== *)
(* the three updates                                                   *)
(* ================================================================== *)
Lemma insert_refines : forall P st cs gk tk v,
  ins_ok P = true -> rep st cs -> inP P cs -> In (gk, tk) P ->
  snd (do_insert st gk tk v) = OUnit /\
  rep (fst (do_insert st gk tk v)) (upsert gk tk v cs) /\
  inP P (upsert gk tk v cs).
Proof.
  intros P st cs gk tk v Hok Hrep HP Hin.
  pose proof (ins_isbytes _ _ _ Hok Hin) as Hb.
  destruct (rep_cases _ _ Hrep) as [[[Er Ec]|(t & Er & Hwf & Hl)] Hs].
  - subst cs. unfold do_insert. rewrite Er. cbn [fst snd].
    split; [reflexivity|]. split.
    + unfold rep. cbn [root size]. unfold upsert. cbn [mem_gk existsb ins_tk]. split.
      * split; [apply WF_leaf; exact Hb|apply leaves_leaf].
      * cbn [length] in *. lia.
    + apply upsert_inP; assumption.
  - assert (Hc : compat gk tk (leaves t)) by (rewrite Hl; eapply ins_compat; eauto).
    assert (Hp : pfree tk (leaves t)) by (rewrite Hl; eapply ins_pfree; eauto).
    destruct (insert_spec t gk tk v Hwf Hb Hc Hp) as (t' & Ei & Hwf' & Hl').
    unfold do_insert. rewrite Er. unfold key_fuel. rewrite Ei. cbn [fst snd].
    split; [reflexivity|]. split.
    + unfold rep. cbn [root size]. rewrite Hl in *. split; [split; [exact Hwf'|exact Hl']|].
      rewrite api_length_upsert. destruct (mem_gk gk cs); cbn [negb]; lia.
    + apply upsert_inP; assumption.
Qed.

Lemma search_refines : forall st cs gk tk,
  rep st cs -> isbytes tk = true -> (forall l, In l cs -> lgk l = gk -> ltk l = tk) ->
  do_search st gk tk = match find_gk gk cs with Some l => OFound (lv l) | None => OAbsent end.
Proof.
  intros st cs gk tk Hrep Hb Hc.
  destruct (rep_cases _ _ Hrep) as [[[Er Ec]|(t & Er & Hwf & Hl)] Hs].
  - subst cs. unfold do_search. rewrite Er. reflexivity.
  - unfold do_search. rewrite Er. unfold key_fuel. rewrite <- Hl in *.
    rewrite (search_spec t gk tk Hwf Hb Hc). destruct (find_gk gk (leaves t)); reflexivity.
Qed.

Lemma delete_refines : forall st cs gk tk,
  rep st cs -> isbytes tk = true -> (forall l, In l cs -> lgk l = gk -> ltk l = tk) ->
  snd (do_delete st gk tk) = OBool (mem_gk gk cs) /\
  rep (fst (do_delete st gk tk)) (remove_gk gk cs).
Proof.
  intros st cs gk tk Hrep Hb Hc.
  destruct (rep_cases _ _ Hrep) as [[[Er Ec]|(t & Er & Hwf & Hl)] Hs].
  - subst cs. unfold do_delete. rewrite Er. cbn [fst snd]. split; [reflexivity|]. exact Hrep.
  - destruct t as [g t0 v|n].
    + rewrite leaves_leaf in Hl. subst cs. unfold do_delete. rewrite Er.
      unfold mem_gk, remove_gk. cbn [existsb filter lgk fst].
      destruct (beq g gk) eqn:E; cbn [fst snd negb orb].
      * split; [reflexivity|]. unfold rep. cbn [root size length] in *. split; [reflexivity|lia].
      * split; [reflexivity|]. exact Hrep.
    + rewrite <- Hl in *. pose proof (delete_spec n gk tk Hwf Hb Hc) as HD.
      unfold do_delete. rewrite Er. unfold key_fuel.
      destruct (delete_in (S (S (length tk))) (Inner n) gk tk 0) as [t'| |].
      * destruct HD as (Hm & Hwf' & Hl'). cbn [fst snd]. rewrite Hm. split; [reflexivity|].
        unfold rep. cbn [root size]. split; [split; [exact Hwf'|exact Hl']|].
        pose proof (api_length_remove gk tk (leaves (Inner n)) (content_sorted _ _ Hwf) Hc Hm). lia.
      * cbn [fst snd]. rewrite HD. split; [reflexivity|]. rewrite (api_remove_absent _ _ HD). exact Hrep.
      * contradiction.
Qed.

(* ================================================================== *)
(* minimum / maximum                                                   *)
(* ================================================================== *)
Lemma min_refines : forall k st cs, rep st cs ->
  match opt_min st with Some l => OKV (restore k l) (leaf_v l) | None => ONone end =
  ideal_kv k (hd_error cs).
Proof.
  intros k st cs Hrep.
  destruct (rep_cases _ _ Hrep) as [[[Er Ec]|(t & Er & Hwf & Hl)] Hs]; unfold opt_min; rewrite Er.
  - subst cs. reflexivity.
  - rewrite (minimum_spec 0 t Hwf), Hl. destruct (hd_error cs) as [l|]; reflexivity.
Qed.

Lemma max_refines : forall k st cs, rep st cs ->
  match opt_max st with Some l => OKV (restore k l) (leaf_v l) | None => ONone end =
  ideal_kv k (hd_error (rev cs)).
Proof.
  intros k st cs Hrep.
  destruct (rep_cases _ _ Hrep) as [[[Er Ec]|(t & Er & Hwf & Hl)] Hs]; unfold opt_max; rewrite Er.
  - subst cs. reflexivity.
  - rewrite (maximum_spec 0 t Hwf), Hl. destruct (hd_error (rev cs)) as [l|]; reflexivity.
Qed.

(* ================================================================== *)
(* sequences                                                           *)
(* ================================================================== *)
Lemma seq_bridge : forall k r ans ls, walk_is r ans ls -> seq_out k r = ideal_seq k ls ans.
Proof.
  intros k r ans ls (Hd & Hc & Hs). unfold seq_out, ideal_seq. cbv zeta. rewrite Hd, Hc, map_map.
  destruct (status r); try reflexivity. congruence.
Qed.

Lemma walk_is_none : forall ans, walk_is (mkWres [] 0 WDone) ans [].
Proof. intros ans. unfold walk_is. cbn. repeat split; discriminate. Qed.

Lemma all_walk : forall st cs ans, rep st cs -> walk_is (run_all (root st) ans) ans cs.
Proof.
  intros st cs ans Hrep.
  destruct (rep_cases _ _ Hrep) as [[[Er Ec]|(t & Er & Hwf & Hl)] Hs]; rewrite Er.
  - subst cs. apply walk_is_none.
  - rewrite <- Hl. apply (run_all_spec 0). exact Hwf.
Qed.

Lemma backward_walk : forall st cs ans, rep st cs -> walk_is (run_backward (root st) ans) ans (rev cs).
Proof.
  intros st cs ans Hrep.
  destruct (rep_cases _ _ Hrep) as [[[Er Ec]|(t & Er & Hwf & Hl)] Hs]; rewrite Er.
  - subst cs. apply walk_is_none.
  - rewrite <- Hl. apply (run_backward_spec 0). exact Hwf.
Qed.

Lemma filter_walk : forall st cs pred ans, rep st cs ->
  walk_is (run_filter (root st) pred ans) ans (filter (fun l => pred (to_leaf l)) cs).
Proof.
  intros st cs pred ans Hrep.
  destruct (rep_cases _ _ Hrep) as [[[Er Ec]|(t & Er & Hwf & Hl)] Hs]; rewrite Er.
  - subst cs. apply walk_is_none.
  - rewrite <- Hl. apply (run_filter_spec 0). exact Hwf.
Qed.

Lemma range_walk_api : forall st cs gs ge ans, rep st cs ->
  (forall l, In l cs -> lgk l = ltk l) ->
  walk_is (run_range (root st) gs ge gs ge ans) ans (filter (in_range gs ge) cs).
Proof.
  intros st cs gs ge ans Hrep Hgk.
  destruct (rep_cases _ _ Hrep) as [[[Er Ec]|(t & Er & Hwf & Hl)] Hs]; rewrite Er.
  - subst cs. apply walk_is_none.
  - rewrite <- Hl in *. apply run_range_any; assumption.
Qed.

(* ================================================================== *)
(* stored keys of the generated kinds have equal forms                 *)
(* ================================================================== *)
Lemma transform_same : forall k a, k <> KCollation -> fst (transform k a) = snd (transform k a).
Proof. intros k a Hk. destruct k; destruct a; try reflexivity. contradiction. Qed.

Lemma stored_same : forall k P cs, k <> KCollation ->
  (forall p, In p P -> exists a, p = transform k a) -> inP P cs ->
  forall l, In l cs -> lgk l = ltk l.
Proof.
  intros k P cs Hk HT HP l Hl. unfold inP in HP. rewrite Forall_forall in HP. specialize (HP l Hl).
  destruct (HT _ HP) as (a & E). pose proof (transform_same k a Hk) as Hs. rewrite <- E in Hs. exact Hs.
Qed.

(* ================================================================== *)
(* Range, per kind                                                     *)
(* ================================================================== *)
Lemma range_alpha : forall st cs a b ans, rep st cs -> (forall l, In l cs -> lgk l = ltk l) ->
  do_range KAlpha st a b ans = ideal_range KAlpha cs a b ans.
Proof.
  intros st cs a b ans Hrep Hgk.
  pose proof (fun gs ge => range_walk_api st cs gs ge ans Hrep Hgk) as HW.
  destruct (rep_cases _ _ Hrep) as [[[Er Ec]|(t & Er & Hwf & Hl)] Hs].
  - subst cs. unfold do_range, ideal_range. rewrite Er. reflexivity.
  - unfold do_range, ideal_range. rewrite Er in *.
    destruct cs as [|c0 cs0]; [exfalso; exact (WF_nonempty _ _ Hwf Hl)|].
    cbv zeta. rewrite (maximum_spec 0 t Hwf), Hl.
    remember (c0 :: cs0) as cs eqn:Ecs. clear Ecs.
    assert (Ee : match option_map to_leaf (hd_error (rev cs)) with
                 | Some l => akey_bytes (restore KAlpha l) | None => [] end =
                 match hd_error (rev cs) with Some l => removelast (lgk l) | None => [] end).
    { destruct (hd_error (rev cs)) as [l|]; reflexivity. }
    rewrite Ee.
    set (e := if (length (akey_bytes b) =? 0)%nat
              then match hd_error (rev cs) with Some l => removelast (lgk l) | None => [] end
              else akey_bytes b).
    destruct (lex_cmp (akey_bytes a) e); apply seq_bridge; apply HW.
Qed.

Lemma range_compound : forall s st cs a b ans, rep st cs -> (forall l, In l cs -> lgk l = ltk l) ->
  do_range (KCompound s) st a b ans = ideal_range (KCompound s) cs a b ans.
Proof.
  intros s st cs a b ans Hrep Hgk.
  pose proof (fun gs ge => range_walk_api st cs gs ge ans Hrep Hgk) as HW.
  destruct (rep_cases _ _ Hrep) as [[[Er Ec]|(t & Er & Hwf & Hl)] Hs].
  - subst cs. unfold do_range, ideal_range. rewrite Er. reflexivity.
  - unfold do_range, ideal_range. rewrite Er in *.
    destruct cs as [|c0 cs0]; [exfalso; exact (WF_nonempty _ _ Hwf Hl)|].
    cbv zeta. rewrite (maximum_spec 0 t Hwf), Hl.
    remember (c0 :: cs0) as cs eqn:Ecs. clear Ecs.
    assert (Ee : match option_map to_leaf (hd_error (rev cs)) with
                 | Some l => fst (transform (KCompound s) (restore (KCompound s) l)) | None => [] end =
                 match hd_error (rev cs) with
                 | Some l => fst (transform (KCompound s) (restore (KCompound s) (to_leaf l)))
                 | None => [] end).
    { destruct (hd_error (rev cs)) as [l|]; reflexivity. }
    rewrite Ee.
    set (e := if (length (fst (transform (KCompound s) b)) =? 0)%nat
              then match hd_error (rev cs) with
                   | Some l => fst (transform (KCompound s) (restore (KCompound s) (to_leaf l)))
                   | None => [] end
              else fst (transform (KCompound s) b)).
    destruct (lex_cmp (fst (transform (KCompound s) a)) e); apply seq_bridge; apply HW.
Qed.

Lemma range_codec : forall enc dec st cs a b ans, rep st cs -> (forall l, In l cs -> lgk l = ltk l) ->
  do_range (KCodec enc dec) st a b ans = ideal_range (KCodec enc dec) cs a b ans.
Proof.
  intros enc dec st cs a b ans Hrep Hgk.
  pose proof (fun gs ge => range_walk_api st cs gs ge ans Hrep Hgk) as HW.
  destruct (rep_cases _ _ Hrep) as [[[Er Ec]|(t & Er & Hwf & Hl)] Hs].
  - subst cs. unfold do_range, ideal_range. rewrite Er. reflexivity.
  - unfold do_range, ideal_range. rewrite Er in *.
    destruct cs as [|c0 cs0]; [exfalso; exact (WF_nonempty _ _ Hwf Hl)|].
    cbv zeta. rewrite (maximum_spec 0 t Hwf), Hl.
    remember (c0 :: cs0) as cs eqn:Ecs. clear Ecs.
    assert (Ee : match option_map to_leaf (hd_error (rev cs)) with
                 | Some l => fst (transform (KCodec enc dec) (restore (KCodec enc dec) l)) | None => [] end =
                 match hd_error (rev cs) with
                 | Some l => fst (transform (KCodec enc dec) (restore (KCodec enc dec) (to_leaf l)))
                 | None => [] end).
    { destruct (hd_error (rev cs)) as [l|]; reflexivity. }
    rewrite Ee.
    set (e := if (length (fst (transform (KCodec enc dec) b)) =? 0)%nat
              then match hd_error (rev cs) with
                   | Some l => fst (transform (KCodec enc dec) (restore (KCodec enc dec) (to_leaf l)))
                   | None => [] end
              else fst (transform (KCodec enc dec) b)).
    destruct (lex_cmp (fst (transform (KCodec enc dec) a)) e); apply seq_bridge; apply HW.
Qed.

Definition is_num (k : kind) : bool :=
  match k with KUnsigned _ | KSigned _ | KFloat _ => true | _ => false end.

Lemma range_num : forall k P st cs a b ans, is_num k = true ->
  rep st cs -> inP P cs -> (forall l, In l cs -> lgk l = ltk l) ->
  probe_ok P (transform k a) = true ->
  do_range k st a b ans = ideal_range k cs a b ans.
Proof.
  intros k P st cs a b ans Hk Hrep HP Hgk Hpr.
  pose proof (fun gs ge => range_walk_api st cs gs ge ans Hrep Hgk) as HW.
  destruct k; try discriminate; unfold do_range, ideal_range.
  all: destruct (lex_cmp (fst (transform _ a)) (fst (transform _ b)));
    [ destruct (transform _ a) as [gk tk] eqn:Et; cbn [fst snd];
      destruct (probe_cons _ _ _ _ Hpr HP) as [Hb Hc];
      rewrite (search_refines st cs gk tk Hrep Hb Hc);
      destruct (find_gk gk cs); reflexivity
    | apply seq_bridge; apply HW
    | apply seq_bridge; apply HW ].
Qed.

(* ================================================================== *)
(* Prefix                                                              *)
(* ================================================================== *)
Lemma lcparent_sub : forall p fuel t d sub, WF d t -> lcparent fuel t p d = Some sub ->
  forall l, In l (leaves sub) -> In l (leaves t).
Proof.
  intros p. induction fuel as [|f IH]; intros t d sub Hwf H l Hl; [discriminate|].
  destruct t as [gk tk v|n]; cbn [lcparent] in H.
  - inversion H; subst sub. exact Hl.
  - destruct (negb (prefixLen (nhdr n) =? 0)%nat && (prefixMismatch n p d <? prefixLen (nhdr n))%nat).
    { inversion H; subst sub. exact Hl. }
    destruct (nth_error p (d + prefixLen (nhdr n))) as [b|]; [|inversion H; subst sub; exact Hl].
    destruct (nfind n b) as [c|] eqn:Ef; [|inversion H; subst sub; exact Hl].
    pose proof (WF_inner_inv _ _ Hwf) as (Hn & _).
    destruct (nfind_child n b c Hn Ef) as (b' & Hin).
    destruct (WF_child _ _ _ _ Hwf Hin) as [Hwfc _].
    apply in_leaves_inner. exists b', c. split; [exact Hin|].
    eapply IH; [exact Hwfc| |exact Hl].
    replace (d + prefixLen (nhdr n) + 1)%nat with (S (d + prefixLen (nhdr n))) by lia. exact H.
Qed.

Lemma alpha_pred_prefix : forall P cs pb, (0 < length pb)%nat ->
  (forall p, In p P -> exists a, p = transform KAlpha a) -> inP P cs ->
  forall l, In l cs -> has_prefix (removelast (lgk l)) pb = true -> is_prefix pb (ltk l).
Proof.
  intros P cs pb Hpb HT HP l Hl H. unfold inP in HP. rewrite Forall_forall in HP. specialize (HP l Hl).
  destruct (HT _ HP) as (a & E).
  assert (Ecase : (exists x, lgk l = x ++ [0] /\ ltk l = x ++ [0]) \/ (lgk l = [] /\ ltk l = [])).
  { pose proof (f_equal fst E) as E1. pose proof (f_equal snd E) as E2. clear E.
    destruct a; cbn [transform fst snd] in E1, E2; eauto. }
  destruct Ecase as [(x & Eg & Et)|[Eg Et]].
  - rewrite Eg, removelast_last in H. apply has_prefix_spec in H. rewrite Et.
    eapply is_prefix_trans; [exact H|apply is_prefix_app].
  - rewrite Eg in H. cbn [removelast] in H. destruct pb as [|y pb]; [cbn [length] in Hpb; lia|].
    cbn [has_prefix] in H. discriminate.
Qed.

Lemma prefix_alpha : forall P st cs p ans, rep st cs ->
  (forall q, In q P -> exists a, q = transform KAlpha a) -> inP P cs ->
  do_prefix KAlpha st p ans = ideal_prefix KAlpha cs p ans.
Proof.
  intros P st cs p ans Hrep HT HP. unfold do_prefix, ideal_prefix. cbv zeta.
  destruct (length (akey_bytes p) =? 0)%nat eqn:El.
  - apply seq_bridge. apply all_walk. exact Hrep.
  - apply Nat.eqb_neq in El. set (pb := akey_bytes p) in *.
    destruct (rep_cases _ _ Hrep) as [[[Er Ec]|(t & Er & Hwf & Hl)] Hs]; rewrite Er.
    + subst cs. apply seq_bridge. apply walk_is_none.
    + destruct (lcparent_spec t pb (S (S (length pb))) Hwf) as (sub & d' & Elc & Hwfs & Hfil); [lia|].
      rewrite Elc. apply seq_bridge.
      set (pr := fun l : lrec => has_prefix (removelast (lgk l)) pb).
      set (pr2 := fun l : lrec => pr l && has_prefix (ltk l) pb).
      assert (Hpre : forall l, In l cs -> pr l = true -> is_prefix pb (ltk l)).
      { intros l Hin Hpr. eapply (alpha_pred_prefix P cs pb); eauto. lia. }
      assert (E1 : filter pr (leaves sub) = filter pr2 (leaves sub)).
      { apply filter_ext_in. intros l Hin. unfold pr2. destruct (pr l) eqn:Epr; [|reflexivity].
        symmetry. cbn [andb]. apply has_prefix_spec. apply Hpre; [|exact Epr].
        rewrite <- Hl. eapply lcparent_sub; eauto. }
      assert (E2 : filter pr2 (leaves t) = filter pr cs).
      { rewrite Hl. apply filter_ext_in. intros l Hin. unfold pr2. destruct (pr l) eqn:Epr; [|reflexivity].
        cbn [andb]. apply has_prefix_spec. apply Hpre; assumption. }
      assert (E3 : filter pr2 (leaves sub) = filter pr2 (leaves t)).
      { apply Hfil. intros l Hpr. unfold pr2 in Hpr. apply andb_true_iff in Hpr. destruct Hpr as [_ Hpr].
        apply has_prefix_spec. exact Hpr. }
      fold pr. rewrite <- E2, <- E3, <- E1.
      apply (run_filter_spec d' sub (fun l => has_prefix (akey_bytes (restore KAlpha l)) pb) ans Hwfs).
Qed.

Lemma prefix_collation : forall st cs p ans, rep st cs ->
  do_prefix KCollation st p ans = ideal_prefix KCollation cs p ans.
Proof.
  intros st cs p ans Hrep. unfold do_prefix, ideal_prefix. cbv zeta.
  destruct (length (akey_bytes p) =? 0)%nat; apply seq_bridge.
  - apply all_walk. exact Hrep.
  - apply (filter_walk st cs (fun l => has_prefix (leaf_gk l) (akey_bytes p)) ans Hrep).
Qed.

(* ================================================================== *)
(* one step                                                            *)
(* ================================================================== *)
Section Step.
Variable k : kind.
Variable P : list kpair.
Hypothesis Hok : ins_ok P = true.
Hypothesis HT : forall p, In p P -> exists a, p = transform k a.

Lemma step_refines_proj : forall st cs o,
  rep st cs -> inP P cs ->
  Forall (fun a => In (transform k a) P) (ins_keys o) ->
  forallb (probe_ok P) (map (transform k) (probe_keys k o)) = true ->
  op_ok k o = true ->
  snd (step k st o) = snd (ideal_step k cs o) /\
  rep (fst (step k st o)) (fst (ideal_step k cs o)) /\
  inP P (fst (ideal_step k cs o)).
Proof.
  intros st cs o Hrep HP Hins Hprobe Hop.
  destruct o as [a v|a|a| | | |stop|stop|n stop|n stop|a b stop|p stop]; cbn [step ideal_step].
  - (* Insert *)
    cbn [ins_keys] in Hins. inversion Hins as [|x xs Hin _]; subst x xs.
    destruct (transform k a) as [gk tk].
    destruct (insert_refines P st cs gk tk v Hok Hrep HP Hin) as (H1 & H2 & H3).
    cbn [fst snd]. auto.
  - (* Search *)
    cbn [probe_keys map forallb] in Hprobe. apply andb_true_iff in Hprobe. destruct Hprobe as [Hpr _].
    destruct (transform k a) as [gk tk]. destruct (probe_cons _ _ _ _ Hpr HP) as [Hb Hc].
    cbn [fst snd]. rewrite (search_refines st cs gk tk Hrep Hb Hc). auto.
  - (* Delete *)
    cbn [probe_keys map forallb] in Hprobe. apply andb_true_iff in Hprobe. destruct Hprobe as [Hpr _].
    destruct (transform k a) as [gk tk]. destruct (probe_cons _ _ _ _ Hpr HP) as [Hb Hc].
    destruct (delete_refines st cs gk tk Hrep Hb Hc) as [H1 H2].
    cbn [fst snd]. split; [exact H1|]. split; [exact H2|]. apply remove_gk_inP. exact HP.
  - (* Minimum *) cbn [fst snd]. rewrite (min_refines k st cs Hrep). auto.
  - (* Maximum *) cbn [fst snd]. rewrite (max_refines k st cs Hrep). auto.
  - (* Size *) cbn [fst snd]. destruct Hrep as [Hr Hs]. rewrite Hs. split; [reflexivity|]. split; [split; assumption|exact HP].
  - (* All *) cbn [fst snd]. split; [|auto]. apply seq_bridge. apply all_walk. exact Hrep.
  - (* Backward *) cbn [fst snd]. split; [|auto]. apply seq_bridge. apply backward_walk. exact Hrep.
  - (* TopK *) cbn [fst snd]. split; [|auto]. apply seq_bridge. apply run_bounded_spec.
    intros a. apply backward_walk. exact Hrep.
  - (* BottomK *) cbn [fst snd]. split; [|auto]. apply seq_bridge. apply run_bounded_spec.
    intros a. apply all_walk. exact Hrep.
  - (* Range *)
    cbn [fst snd]. split; [|auto].
    assert (Hgk : k <> KCollation -> forall l, In l cs -> lgk l = ltk l).
    { intros Hk. eapply stored_same; eauto. }
    destruct k as [|w|w|w| |s|enc dec] eqn:Ek.
    + apply range_alpha; [exact Hrep|apply Hgk; discriminate].
    + cbn [probe_keys map forallb] in Hprobe. apply andb_true_iff in Hprobe. destruct Hprobe as [Hpr _].
      eapply range_num; eauto. apply Hgk; discriminate.
    + cbn [probe_keys map forallb] in Hprobe. apply andb_true_iff in Hprobe. destruct Hprobe as [Hpr _].
      eapply range_num; eauto. apply Hgk; discriminate.
    + cbn [probe_keys map forallb] in Hprobe. apply andb_true_iff in Hprobe. destruct Hprobe as [Hpr _].
      eapply range_num; eauto. apply Hgk; discriminate.
    + cbn [op_ok] in Hop. discriminate.
    + apply range_compound; [exact Hrep|apply Hgk; discriminate].
    + apply range_codec; [exact Hrep|apply Hgk; discriminate].
  - (* Prefix *)
    cbn [fst snd]. split; [|auto].
    destruct k as [|w|w|w| |s|enc dec] eqn:Ek; try reflexivity.
    + eapply prefix_alpha; eauto.
    + apply prefix_collation. exact Hrep.
Qed.

(* the statement of the brief *)
Theorem step_refines : forall st cs o,
  rep st cs ->
  Forall (fun l => In (lgk l, ltk l) P) cs ->
  Forall (fun a => In (transform k a) P) (ins_keys o) ->
  forallb (probe_ok P) (map (transform k) (probe_keys k o)) = true ->
  op_ok k o = true ->
  let '(st', x) := step k st o in
  let '(cs', x') := ideal_step k cs o in
  x = x' /\ rep st' cs' /\ Forall (fun l => In (lgk l, ltk l) P) cs'.
Proof.
  intros st cs o Hrep HP Hins Hprobe Hop.
  pose proof (step_refines_proj st cs o Hrep HP Hins Hprobe Hop) as H.
  destruct (step k st o) as [st' x]. destruct (ideal_step k cs o) as [cs' x']. exact H.
Qed.

(* any reachable start, any suffix of the history whose inserted pairs are in P *)
Lemma run_refines_gen : forall ops st cs,
  rep st cs -> inP P cs ->
  Forall (fun a => In (transform k a) P) (flat_map ins_keys ops) ->
  forallb (probe_ok P) (map (transform k) (flat_map (probe_keys k) ops)) = true ->
  forallb (op_ok k) ops = true ->
  snd (run k st ops) = snd (ideal_run k cs ops) /\
  rep (fst (run k st ops)) (fst (ideal_run k cs ops)).
Proof.
  induction ops as [|o ops IH]; intros st cs Hrep HP Hins Hprobe Hop.
  - cbn [run ideal_run fst snd]. auto.
  - cbn [flat_map] in Hins, Hprobe. apply Forall_app in Hins. destruct Hins as [Hi1 Hi2].
    rewrite map_app, forallb_app in Hprobe. apply andb_true_iff in Hprobe. destruct Hprobe as [Hp1 Hp2].
    cbn [forallb] in Hop. apply andb_true_iff in Hop. destruct Hop as [Ho1 Ho2].
    pose proof (step_refines_proj st cs o Hrep HP Hi1 Hp1 Ho1) as (H1 & H2 & H3).
    cbn [run ideal_run].
    destruct (step k st o) as [st' x]. destruct (ideal_step k cs o) as [cs' x']. cbn [fst snd] in H1, H2, H3.
    specialize (IH st' cs' H2 H3 Hi2 Hp2 Ho2).
    destruct (run k st' ops) as [st'' xs]. destruct (ideal_run k cs' ops) as [cs'' xs'].
    cbn [fst snd] in *. destruct IH as [IH1 IH2]. split; [congruence|exact IH2].
Qed.
End Step.

(* ================================================================== *)
(* the whole history                                                   *)
(* ================================================================== *)
Theorem run_refines : forall k ops, history_ok k ops = true ->
  snd (run k init ops) = snd (ideal_run k [] ops) /\
  rep (fst (run k init ops)) (fst (ideal_run k [] ops)).
Proof.
  intros k ops H. unfold history_ok in H.
  apply andb_true_iff in H. destruct H as [H Hop]. apply andb_true_iff in H. destruct H as [Hok Hpr].
  apply (run_refines_gen k (ins_pairs k ops) Hok).
  - intros p Hp. unfold ins_pairs in Hp. apply in_map_iff in Hp. destruct Hp as (a & E & _). exists a. auto.
  - unfold rep, init. cbn [root size length]. auto.
  - constructor.
  - apply Forall_forall. intros a Ha. unfold ins_pairs. apply in_map. exact Ha.
  - exact Hpr.
  - exact Hop.
Qed.
