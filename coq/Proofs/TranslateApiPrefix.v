(* Proofs/TranslateApiFacts.v, part 3 of 5: the Prefix methods of the six trees *)
From GoArt Require Import Base.Bytes Model.Node4 Model.Node16 Model.Node Model.Tree Model.Iter Model.Api
  Spec.NodeSpec Spec.TreeSpec Spec.IterSpec Proofs.BytesFacts Proofs.Node4Facts Proofs.NodeFacts Proofs.TreeBasics Proofs.NodeAux48
  Proofs.NodeAuxAssoc Proofs.NodeAuxArr Proofs.InsertFacts Proofs.IterFacts Spec.Ideal Proofs.PropFacts Proofs.TranslateFacts.
From GoArt Require Import Proofs.RangeFacts Proofs.ApiFacts Model.Pool Proofs.PoolFacts Model.PoolTree Proofs.PoolTreeFacts.
From GoArt Require Import Model.GoArith Model.GoTree Gen.Node4Gen Gen.Node16Gen Gen.TreeGen Proofs.TranslateTreeFacts
  Gen.IterGen Proofs.TranslateIterFacts Gen.ApiGen.
From GoArt Require Import Proofs.TranslateApiBase.
From Coq Require Import ZifyN ZifyNat ZifyBool.
Ltac Zify.zify_post_hook ::= Z.div_mod_to_equations.
Open Scope N_scope.

(* ================= 6. Prefix ================= *)
(* TranslateIterFacts.gen_lowestCommonParent_eq, with one more conclusion: the node returned is a well-formed raw
   tree again (it is a subtree), so that the filter scan can be started on it.  Same proof. *)
Lemma lcp_loop_xtwf : forall fuel t p d dd, xtwf t -> WF dd (tabs t) -> isbytes p = true ->
  (theight (tabs t) < fuel)%nat ->
  exists r dep, g_lowestCommonParent_loop1 fuel p (Some t) (Z.of_nat d) = LDone (Some r, dep) /\
    lcparent fuel (tabs t) p d = Some (tabs r) /\ xtwf r.
Proof.
  induction fuel as [|fuel IH]; intros t p d dd Hxt Hwf Hp Hh; [lia|].
  destruct t as [gk tk v|n].
  { exists (XLeaf gk tk v), (Z.of_nat d). split; [reflexivity|]. split; [reflexivity|exact Hxt]. }
  destruct (xtwf_inv _ Hxt) as [Hx Hch]. rewrite tabs_inner in *.
  cbn [g_lowestCommonParent_loop1 ref_is_nil ref_pointer negb ref_node lcparent].
  rewrite ref_tag_inner, ikind_not_leaf. cbn [negb].
  cbv zeta. rewrite nhdr_nabs. cbn [xabs_hdr prefixLen].
  (* the continuation after the compressed-path test, at depth d1 *)
  assert (Hk : forall d1,
    exists r dep,
      (if (Z.of_nat (length p) <=? Z.of_nat d1)%Z then LDone (Some (XInner n), Z.of_nat d1)
       else match idx_bytes p (Z.of_nat d1) with
            | None => LPanic
            | Some v_2 =>
              match g_findChild (Some (XInner n)) v_2 with
              | GRet r_2 =>
                if ptr_is_nil r_2 then LDone (Some (XInner n), Z.of_nat d1)
                else match r_2 with
                     | None => LPanic
                     | Some v_3 => g_lowestCommonParent_loop1 fuel p v_3 (Z.of_nat d1 + 1)
                     end
              | GPanic => LPanic
              | GFuel => LFuel
              end
            end) = LDone (Some r, dep) /\
      match nth_error p d1 with
      | None => Some (Inner (nabs n))
      | Some b => match nfind (nabs n) b with None => Some (Inner (nabs n)) | Some c => lcparent fuel c p (S d1) end
      end = Some (tabs r) /\ xtwf r).
  { intros d1. destruct (nth_error p d1) as [b|] eqn:Eb.
    - assert (Hd1 : (d1 < length p)%nat) by (apply nth_error_Some; rewrite Eb; discriminate).
      replace (Z.of_nat (length p) <=? Z.of_nat d1)%Z with false by (symmetry; apply Z.leb_gt; lia).
      rewrite idx_bytes_nat, Eb. pose proof (nth_byte _ _ _ Hp Eb) as Hb.
      rewrite (gen_findChild_eq n b Hx Hb), (nfind_nabs n b Hx).
      destruct (xfind n b) as [c|] eqn:Ef; cbn [option_map omap ptr_is_nil].
      + destruct (xfind_child n b c Hx Ef) as [b' Hin].
        destruct (WF_child _ _ _ _ Hwf (in_nenum_nabs _ _ _ Hin)) as [Hc _].
        pose proof (theight_child _ _ _ (in_nenum_nabs _ _ _ Hin)) as Hhc.
        replace (Z.of_nat d1 + 1)%Z with (Z.of_nat (S d1)) by lia.
        apply (IH c p (S d1) _ (Hch b' c Hin) Hc Hp). lia.
      + exists (XInner n), (Z.of_nat d1). split; [reflexivity|]. split; [rewrite tabs_inner; reflexivity|exact Hxt].
    - apply nth_error_None in Eb.
      replace (Z.of_nat (length p) <=? Z.of_nat d1)%Z with true by (symmetry; apply Z.leb_le; lia).
      exists (XInner n), (Z.of_nat d1). split; [reflexivity|]. split; [rewrite tabs_inner; reflexivity|exact Hxt]. }
  destruct (Nat.eqb_spec (xplen (xh n)) 0) as [Ep|Ep].
  - replace (hdr_prefixLen (xh n) =? 0) with true by (symmetry; apply N.eqb_eq; unfold hdr_prefixLen; lia).
    cbn [negb andb]. rewrite Ep, Nat.add_0_r. apply Hk.
  - replace (hdr_prefixLen (xh n) =? 0) with false by (symmetry; apply N.eqb_neq; unfold hdr_prefixLen; lia).
    cbn [negb andb].
    rewrite (gen_prefixMismatch_eq fuel n p d dd Hxt Hwf ltac:(lia)).
    replace (Z.of_nat (prefixMismatch (nabs n) p d) <? Z.of_N (hdr_prefixLen (xh n)))%Z
      with (prefixMismatch (nabs n) p d <? xplen (xh n))%nat
      by (unfold hdr_prefixLen; destruct (Nat.ltb_spec (prefixMismatch (nabs n) p d) (xplen (xh n)));
          destruct (Z.ltb_spec (Z.of_nat (prefixMismatch (nabs n) p d)) (Z.of_N (N.of_nat (xplen (xh n))))); try reflexivity; lia).
    destruct (prefixMismatch (nabs n) p d <? xplen (xh n))%nat.
    + exists (XInner n), (Z.of_nat d). split; [reflexivity|]. split; [rewrite tabs_inner; reflexivity|exact Hxt].
    + replace (Z.of_nat d + Z.of_N (hdr_prefixLen (xh n)))%Z with (Z.of_nat (d + xplen (xh n))) by (unfold hdr_prefixLen; lia).
      apply Hk.
Qed.

(* lowestCommonParent(root, prefix) on a non-nil root: the node the model's descent stops at; no panic, and the
   budget is enough as soon as it exceeds the height (minimum() inside prefixMismatch is given the same budget) *)
Lemma lcp_xtwf : forall fuel t p dd, xtwf t -> WF dd (tabs t) -> isbytes p = true ->
  (theight (tabs t) < fuel)%nat ->
  exists r, g_lowestCommonParent fuel (Some t) p = GRet (Some r) /\ lcparent fuel (tabs t) p 0 = Some (tabs r) /\ xtwf r.
Proof.
  intros fuel t p dd Hxt Hwf Hp Hh.
  destruct (lcp_loop_xtwf fuel t p 0 dd Hxt Hwf Hp Hh) as (r & dep & Hl & Hm & Hxr).
  exists r. split; [|split; [exact Hm|exact Hxr]]. unfold g_lowestCommonParent. cbv zeta. cbn [Z.of_nat] in Hl. rewrite Hl. reflexivity.
Qed.

Lemma lcparent_mono : forall p f t d s, lcparent f t p d = Some s -> lcparent (S f) t p d = Some s.
Proof.
  intros p. induction f as [|f IH]; intros t d s H; [discriminate|].
  destruct t as [gk tk v|n]; [exact H|]. cbn [lcparent] in H. cbn [lcparent].
  destruct (negb (prefixLen (nhdr n) =? 0)%nat && (prefixMismatch n p d <? prefixLen (nhdr n))%nat); [exact H|].
  destruct (nth_error p (d + prefixLen (nhdr n))) as [b|]; [|exact H].
  destruct (nfind n b) as [c|]; [|exact H]. apply IH. exact H.
Qed.
Lemma lcparent_mono_le : forall p f f' t d s, (f <= f')%nat -> lcparent f t p d = Some s -> lcparent f' t p d = Some s.
Proof. intros p f f' t d s Hle. induction Hle as [|f' Hle IH]; intros H; [exact H|]. apply lcparent_mono. apply IH. exact H. Qed.

Lemma in_list_sum : forall x l, In x l -> (x <= list_sum l)%nat.
Proof.
  intros x l. induction l as [|y l IH]; intros H; [contradiction|]. cbn [list_sum fold_right]. destruct H as [->|H]; [lia|].
  specialize (IH H). unfold list_sum in IH. lia.
Qed.
Lemma lcparent_tsize : forall p f t d dd s, WF dd t -> lcparent f t p d = Some s -> (tsize s <= tsize t)%nat.
Proof.
  intros p. induction f as [|f IH]; intros t d dd s Hw H; [discriminate|].
  destruct t as [gk tk v|n]; [injection H as <-; lia|]. cbn [lcparent] in H.
  destruct (negb (prefixLen (nhdr n) =? 0)%nat && (prefixMismatch n p d <? prefixLen (nhdr n))%nat); [injection H as <-; lia|].
  destruct (nth_error p (d + prefixLen (nhdr n))) as [b|]; [|injection H as <-; lia].
  destruct (nfind n b) as [c|] eqn:Ef; [|injection H as <-; lia].
  pose proof (WF_inner_inv _ _ Hw) as (Hn & _).
  destruct (RangeFacts.nfind_child n b c Hn Ef) as (b' & Hin).
  destruct (WF_child _ _ _ _ Hw Hin) as [Hwc _].
  pose proof (IH c _ _ s Hwc H) as Hle.
  pose proof (size_children n Hn) as Hsz.
  assert (Hc : (tsize c <= list_sum (map tsize (nchildren n)))%nat).
  { apply in_list_sum. apply in_map. unfold nchildren. change c with (snd (b', c)). apply in_map. exact Hin. }
  lia.
Qed.

(* the filter scan does not depend on its budget once that exceeds the size of the tree *)
Lemma filter_walk_fuel : forall (pred : tree -> bool) d t ans f1 f2, WF d t -> (tsize t < f1)%nat -> (tsize t < f2)%nat ->
  walk (fun l => if pred l then Deliver else Skip) expand_fwd f1 [(t, 0%nat)] ans 0 [] =
  walk (fun l => if pred l then Deliver else Skip) expand_fwd f2 [(t, 0%nat)] ans 0 [].
Proof.
  intros pred d t ans f1 f2 Hw H1 H2.
  rewrite !(walk_gen pred expand_fwd leaves leaves_leaf exp_fwd_ok); try reflexivity;
    try (constructor; [exists d; exact Hw|constructor]);
    unfold stack_size; cbn [map fst list_sum fold_right]; lia.
Qed.

(* the predicate of the alpha tree on the restored pair, against the model's predicate on the leaf; both are false
   on an empty key and on an inner node (the prefix is not empty) *)
Lemma alpha_pred_eq : forall tr p, p <> [] -> forall l,
  pred_restore (g_alpha_restoreKey tr alpha_rs) (fun (k : list N) (_ : Z) => bytes_has_prefix k p) l =
  has_prefix (akey_bytes (restore KAlpha (tabs l))) p.
Proof.
  intros tr p Hp l. unfold pred_restore, bytes_has_prefix. destruct l as [gk tk v|n].
  - cbn [tabs restore leaf_gk akey_bytes]. destruct gk as [|x gk].
    + rewrite gen_alpha_restoreKey_empty. cbn [removelast]. destruct p; [congruence|reflexivity].
    + rewrite gen_alpha_restoreKey_eq by discriminate. reflexivity.
  - rewrite tabs_inner. cbn [restore leaf_gk akey_bytes removelast g_alpha_restoreKey cast_leaf]. destruct p; [congruence|reflexivity].
Qed.

Theorem gen_alpha_prefix_eq : forall tr st p ans fa ff fl, sinv st -> root_wf (sabs st) -> keys_ok nonempty_key st ->
  isbytes p = true ->
  (forall t, xroot st = Some t -> fa = walk_fuel (tabs t) /\ (tsize (tabs t) < ff)%nat /\
                                   (theight (tabs t) < fl)%nat /\ (length p + 2 <= fl)%nat) ->
  kres_out AB (g_alpha_Prefix tr alpha_rs fa ff fl (xroot st) p ans) = do_prefix KAlpha (sabs st) (AB p) ans.
Proof.
  intros tr st p ans fa ff fl Hs Hw Hk Hp Hf. unfold g_alpha_Prefix, do_prefix. cbn [akey_bytes]. rewrite len0.
  destruct (length p =? 0)%nat eqn:El.
  - unfold g_alpha_All. rewrite (all_out AB idk KAlpha _ nonempty_key (alpha_restoreKey_ok tr) st fa ans Hs Hk); [apply out_keymap_id|].
    intros t Ht. apply (Hf t Ht).
  - assert (Hpne : p <> []) by (destruct p; [discriminate|discriminate]).
    unfold sinv, root_wf, keys_ok in *. rewrite sabs_root in *. destruct (xroot st) as [t|].
    + destruct (Hf t eq_refl) as (_ & Hff & Hfl & Hfp). cbn [ref_is_nil ref_pointer negb]. cbv beta iota zeta.
      destruct (lcp_xtwf fl t p 0%nat Hs Hw Hp Hfl) as (r & Hg & Hl & Hxr). rewrite Hg.
      destruct (lcparent_spec (tabs t) p (S (S (length p))) Hw ltac:(lia)) as (sub & d' & Esub & Hwsub & _).
      pose proof (lcparent_mono_le p (S (S (length p))) fl (tabs t) 0%nat sub ltac:(lia) Esub) as Esub'. rewrite Hl in Esub'. injection Esub' as <-.
      rewrite Esub.
      assert (HkR : Forall nonempty_key (leaves (tabs r))).
      { apply Forall_forall. intros l Hin. rewrite Forall_forall in Hk. apply Hk. eapply lcparent_sub; eassumption. }
      rewrite (filter_out AB idk KAlpha _ nonempty_key (alpha_restoreKey_ok tr) r ff _
                 (fun l => has_prefix (akey_bytes (restore KAlpha l)) p) ans Hxr HkR (alpha_pred_eq tr p Hpne)).
      rewrite out_keymap_id. unfold run_filter, walk_fuel. f_equal.
      pose proof (lcparent_tsize p _ _ _ _ _ Hw Esub) as Hsz.
      apply (filter_walk_fuel _ d'); [exact Hwsub|lia|lia].
    + reflexivity.
Qed.

(* collation: no subtree is selected; the filter runs over the whole tree on the original bytes *)
Lemma collation_pred_eq : forall tr rs p, p <> [] -> forall l,
  pred_restore (g_collation_restoreKey tr rs) (fun (k : list N) (_ : Z) => let leafKeyS := k in bytes_has_prefix leafKeyS p) l =
  has_prefix (leaf_gk (tabs l)) p.
Proof.
  intros tr rs p Hp l. unfold pred_restore, bytes_has_prefix. destruct l as [gk tk v|n].
  - reflexivity.
  - rewrite tabs_inner. cbn [leaf_gk g_collation_restoreKey cast_leaf]. destruct p; [congruence|reflexivity].
Qed.
Theorem gen_collation_prefix_eq : forall col rs st p ans fa ff, sinv st ->
  (forall t, xroot st = Some t -> fa = walk_fuel (tabs t) /\ ff = walk_fuel (tabs t)) ->
  kres_out AB (g_collation_Prefix (col_tr col) rs fa ff (xroot st) p ans) =
  out_keymap forget_col (do_prefix KCollation (sabs st) (AC p (col p)) ans).
Proof.
  intros col rs st p ans fa ff Hs Hf. unfold g_collation_Prefix, do_prefix. cbn [akey_bytes]. rewrite len0.
  destruct (length p =? 0)%nat eqn:El.
  - unfold g_collation_All. apply (all_out AB forget_col KCollation _ any_key (collation_restoreKey_ok _ rs) st fa ans Hs (keys_ok_any st)).
    intros t Ht. apply (Hf t Ht).
  - assert (Hpne : p <> []) by (destruct p; [discriminate|discriminate]).
    unfold sinv in *. rewrite sabs_root. cbv beta iota zeta. unfold col_tr at 1. cbn [fst].
    destruct (xroot st) as [t|]; [|reflexivity].
    destruct (Hf t eq_refl) as (_ & ->).
    apply (filter_out AB forget_col KCollation _ any_key (collation_restoreKey_ok _ rs) t _ _
             (fun l => has_prefix (leaf_gk l) p) ans Hs).
    + apply Forall_forall. intros; exact I.
    + apply collation_pred_eq. exact Hpne.
Qed.

(* the other four instances: panic("") *)
Theorem gen_plain_prefix_eq : forall k K (tr : K -> list N * list N) rs (inj : K -> akey) st p p' ans, plain_kind k = true ->
  kres_out inj (g_unsigned_Prefix K tr rs p ans) = do_prefix k st p' ans /\
  kres_out inj (g_signed_Prefix K tr rs p ans) = do_prefix k st p' ans /\
  kres_out inj (g_float_Prefix K tr rs p ans) = do_prefix k st p' ans /\
  kres_out inj (g_compound_Prefix K tr rs p ans) = do_prefix k st p' ans.
Proof. intros [|w|w|w| |s|enc dec] K tr rs inj st p p' ans H; try discriminate; repeat split. Qed.

(* the four instances without HasPrefix, one by one *)
Theorem gen_unsigned_prefix_eq : forall w K (tr : K -> list N * list N) rs inj st p p' ans,
  kres_out inj (g_unsigned_Prefix K tr rs p ans) = do_prefix (KUnsigned w) st p' ans.
Proof. reflexivity. Qed.
Theorem gen_signed_prefix_eq : forall w K (tr : K -> list N * list N) rs inj st p p' ans,
  kres_out inj (g_signed_Prefix K tr rs p ans) = do_prefix (KSigned w) st p' ans.
Proof. reflexivity. Qed.
Theorem gen_float_prefix_eq : forall w K (tr : K -> list N * list N) rs inj st p p' ans,
  kres_out inj (g_float_Prefix K tr rs p ans) = do_prefix (KFloat w) st p' ans.
Proof. reflexivity. Qed.
Theorem gen_compound_prefix_eq : forall k K (tr : K -> list N * list N) rs inj st p p' ans, is_cmp k = true ->
  kres_out inj (g_compound_Prefix K tr rs p ans) = do_prefix k st p' ans.
Proof. intros [|w|w|w| |s|enc dec] K tr rs inj st p p' ans H; try discriminate; reflexivity. Qed.
