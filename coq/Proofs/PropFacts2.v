(* Assembly of the property theorems C12, C13, C14, C16, C17, C18: the few new
   lemmas those files need on top of Proofs/PoolFacts.v, Proofs/MemFacts.v,
   Proofs/StaticFacts.v, Proofs/IterFacts.v, Proofs/RangeFacts.v and
   Proofs/PropFacts.v.  The files Properties/Cnn.v restate the theorems and
   print their assumptions.
     C12: a tree emptied by deletions IS the initial state (emptied_is_new).
     C14: what a consumer that stops at call m receives (consume_stop,
          stop_anywhere), calls never exceed deliveries (consume_calls), a
          sequence operation returns the state it was given, so a second pass
          equals a first pass (reiterate).
     C17: inner nodes < leaves (inner_nodes_bounded, state_bounded); the
          collator's buffer holds the last sort key only (coll_buffer_last_only). *)
From GoArt Require Import Base.Bytes Model.Keys Model.Node4 Model.Node16 Model.Node Model.Tree Model.Iter Model.Api
  Spec.NodeSpec Spec.TreeSpec Spec.IterSpec Spec.Ideal Spec.Semantics
  Proofs.BytesFacts Proofs.NodeFacts Proofs.TreeBasics Proofs.IterFacts Proofs.ApiFacts
  Proofs.IdealFacts Proofs.PropFacts.
From Coq Require Import ZifyN ZifyNat ZifyBool.
Ltac Zify.zify_post_hook ::= Z.div_mod_to_equations.
Open Scope N_scope.

(* ================================================================== *)
(* C12: emptied = new                                                  *)
(* ================================================================== *)
(* the only state that represents the empty content is the initial one *)
Lemma rep_nil_init : forall st, rep st [] -> st = init.
Proof.
  intros [r s] [Hr Hs]. cbn [root size length] in *. destruct r as [t|].
  - destruct Hr as [Hw Hl]. exfalso. exact (WF_nonempty _ _ Hw Hl).
  - unfold init. rewrite Hs. reflexivity.
Qed.

Theorem emptied_is_new : forall k ops, history_ok k ops = true -> cs_of k ops = [] ->
  st_of k ops = init.
Proof.
  intros k ops H E. apply rep_nil_init. rewrite <- E. apply rep_after. exact H.
Qed.

Theorem emptied_behaves_as_new : forall k ops ops', history_ok k ops = true -> cs_of k ops = [] ->
  snd (run k (st_of k ops) ops') = snd (run k init ops').
Proof.
  intros k ops ops' H E. rewrite (emptied_is_new k ops H E). reflexivity.
Qed.

(* not vacuous: a history that inserts and deletes ends with the empty content *)
Example emptied_nonvacuous : exists ops,
  history_ok KAlpha ops = true /\ (length ops > 4)%nat /\ cs_of KAlpha ops = [] /\
  exists a v, In (Insert a v) ops.
Proof.
  exists [Insert (AB [97; 98]) 1; Insert (AB [97; 99]) 2; Insert (AB [98]) 3;
          Delete (AB [97; 98]); Delete (AB [98]); Delete (AB [97; 99])].
  split; [vm_compute; reflexivity|]. split; [cbn [length]; lia|].
  split; [vm_compute; reflexivity|].
  exists (AB [97; 98]), 1%Z. left. reflexivity.
Qed.

(* ================================================================== *)
(* C14: early stop, re-iteration                                       *)
(* ================================================================== *)
Lemma consume_stop_gen : forall {A} m (l : list A) i, (i <= m)%nat ->
  consume (stop_ans (Some m)) i l =
  (firstn (S m - i) l, Nat.min (S m) (i + length l), (m - i <? length l)%nat).
Proof.
  intros A m l. induction l as [|x l IH]; intros i Hi.
  - cbn [consume length]. rewrite firstn_nil.
    replace (Nat.min (S m) (i + 0)) with i by lia.
    replace (m - i <? 0)%nat with false by lia. reflexivity.
  - cbn [consume length]. unfold stop_ans at 1. destruct (i =? m)%nat eqn:E; cbn [negb].
    + assert (i = m) by lia. subst i.
      replace (S m - m)%nat with 1%nat by lia. cbn [firstn].
      replace (Nat.min (S m) (m + S (length l))) with (S m) by lia.
      replace (m - m <? S (length l))%nat with true by lia. reflexivity.
    + rewrite IH by lia.
      replace (S m - i)%nat with (S (S m - S i)) by lia. cbn [firstn].
      replace (S i + length l)%nat with (i + S (length l))%nat by lia.
      replace (m - S i <? length l)%nat with (m - i <? S (length l))%nat by lia.
      reflexivity.
Qed.

(* what "stop after m+1 elements" delivers: exactly the first m+1, exactly m+1
   calls, nothing after the refusal *)
Lemma consume_stop : forall {A} (l : list A) m,
  consume (stop_ans (Some m)) 0 l =
  (firstn (S m) l, Nat.min (S m) (length l), (m <? length l)%nat).
Proof.
  intros A l m. rewrite consume_stop_gen by lia.
  rewrite !Nat.sub_0_r. reflexivity.
Qed.

Lemma consume_never : forall {A} (l : list A), consume (stop_ans None) 0 l = (l, length l, false).
Proof. intros A l. exact (consume_all l 0%nat). Qed.

Theorem stop_anywhere : forall k ls m, ideal_seq k ls (stop_ans (Some m)) =
  OSeq (map (fun l => restore_kv k (to_leaf l)) (firstn (S m) ls)) (Nat.min (S m) (length ls)).
Proof. intros k ls m. unfold ideal_seq. rewrite consume_stop. reflexivity. Qed.

Theorem never_stop : forall k ls, ideal_seq k ls (stop_ans None) =
  OSeq (map (fun l => restore_kv k (to_leaf l)) ls) (length ls).
Proof. intros k ls. unfold ideal_seq. rewrite consume_never. reflexivity. Qed.

(* calls never exceed delivered elements: no callback after a refusal, for any consumer *)
Lemma consume_calls : forall {A} ans (l : list A) i,
  let '(d, c, s) := consume ans i l in c = (i + length d)%nat /\ (length d <= length l)%nat.
Proof.
  intros A ans l. induction l as [|x l IH]; intros i; cbn [consume].
  - cbn [length]. lia.
  - destruct (ans i).
    + specialize (IH (S i)). destruct (consume ans (S i) l) as [[d c] s]. cbn [length]. lia.
    + cbn [length]. lia.
Qed.

(* the delivered elements are a prefix of the sequence; the consumer refused iff the
   last delivered element is the one it answered false on; without a refusal
   everything is delivered *)
Lemma consume_prefix : forall {A} ans (l : list A) i,
  let '(d, c, s) := consume ans i l in
  d = firstn (length d) l /\ (s = false -> d = l) /\
  (s = true -> ans (c - 1)%nat = false) /\
  (forall j, (i <= j)%nat -> (S j < c)%nat -> ans j = true).
Proof.
  intros A ans l. induction l as [|x l IH]; intros i; cbn [consume].
  - cbn [length firstn]. split; [reflexivity|]. split; [reflexivity|].
    split; [discriminate|]. intros j H1 H2. lia.
  - destruct (ans i) eqn:Ea.
    + specialize (IH (S i)). pose proof (consume_calls ans l (S i)) as Hc.
      destruct (consume ans (S i) l) as [[d c] s].
      destruct IH as (H1 & H2 & H3 & H4). cbn [length firstn].
      split; [f_equal; exact H1|]. split; [intros Hs; f_equal; apply H2; exact Hs|].
      split; [exact H3|]. intros j Hj1 Hj2.
      destruct (Nat.eq_dec j i) as [->|Hne]; [exact Ea|]. apply H4; lia.
    + cbn [length firstn]. split; [reflexivity|]. split; [discriminate|].
      split; [intros _; replace (S i - 1)%nat with i by lia; exact Ea|].
      intros j H1 H2. lia.
Qed.

Definition is_seq_op (q : op) : bool :=
  match q with
  | All _ | Backward _ | TopK _ _ | BottomK _ _ | Range _ _ _ | Prefix _ _ => true
  | _ => false
  end.

(* a sequence operation, consumed completely or abandoned anywhere, returns the
   state it was given *)
Lemma seq_op_state : forall k st q, is_seq_op q = true -> fst (step k st q) = st.
Proof.
  intros k st q Hq. pose proof (queries_identity k st q) as H.
  destruct q; try discriminate Hq; exact H.
Qed.

(* ranging over the same sequence value again gives the same result: a second
   pass (with any stop) equals a first pass on the same tree *)
Theorem reiterate : forall k st q q', is_seq_op q = true -> is_seq_op q' = true ->
  snd (step k (fst (step k st q)) q') = snd (step k st q').
Proof. intros k st q q' Hq _. rewrite (seq_op_state k st q Hq). reflexivity. Qed.

(* in a history: after any number of sequence operations (each abandoned wherever
   its consumer likes) the next operation answers as if they had not happened *)
Theorem reiterate_run : forall k st qs ops, forallb is_seq_op qs = true ->
  fst (run k st qs) = st /\
  snd (run k st (qs ++ ops)) = snd (run k st qs) ++ snd (run k st ops).
Proof.
  intros k st qs ops H.
  assert (E : fst (run k st qs) = st).
  { revert st. induction qs as [|q qs IH]; intros st; [reflexivity|].
    cbn [forallb] in H. apply andb_true_iff in H. destruct H as [Hq Hqs].
    cbn [run]. pose proof (seq_op_state k st q Hq) as Es.
    destruct (step k st q) as [st' x]. cbn [fst] in Es. subst st'.
    specialize (IH Hqs st). destruct (run k st qs) as [st'' xs]. exact IH. }
  split; [exact E|]. rewrite run_app. cbn [snd]. rewrite E. reflexivity.
Qed.

(* ================================================================== *)
(* C17: retained storage is bounded by the content                     *)
(* ================================================================== *)
(* number of Inner nodes, on fuel like leaves_f *)
Fixpoint inner_count_f (fuel : nat) (t : tree) : nat :=
  match fuel with
  | O => 0%nat
  | S f =>
    match t with
    | Leaf _ _ _ => 0%nat
    | Inner n => S (list_sum (map (inner_count_f f) (nchildren n)))
    end
  end.
Definition inner_count (t : tree) : nat := inner_count_f (theight t) t.

Lemma map_ext_in' : forall {A B} (f g : A -> B) l, (forall x, In x l -> f x = g x) -> map f l = map g l.
Proof.
  intros A B f g l. induction l as [|x l IH]; intros H; [reflexivity|].
  cbn [map]. rewrite H by (left; reflexivity). f_equal. apply IH. intros y Hy. apply H. right. exact Hy.
Qed.

Lemma inner_count_f_enough : forall f t f', (theight t <= f)%nat -> (theight t <= f')%nat ->
  inner_count_f f t = inner_count_f f' t.
Proof.
  induction f as [|f IH]; intros t f' H1 H2.
  - pose proof (theight_pos t). lia.
  - destruct f' as [|f']; [pose proof (theight_pos t); lia|].
    destruct t as [gk tk v|n]; cbn [inner_count_f]; [reflexivity|].
    f_equal. f_equal. apply map_ext_in'. intros c Hc. apply in_nchildren in Hc. destruct Hc as [b Hc].
    apply in_nenum_height in Hc. apply IH; lia.
Qed.

Lemma inner_count_leaf : forall gk tk v, inner_count (Leaf gk tk v) = 0%nat.
Proof. reflexivity. Qed.

Lemma inner_count_inner : forall n,
  inner_count (Inner n) = S (list_sum (map (fun bc => inner_count (snd bc)) (nenum n))).
Proof.
  intros n. unfold inner_count at 1. destruct (theight (Inner n)) as [|f] eqn:E.
  - pose proof (theight_pos (Inner n)). lia.
  - cbn [inner_count_f]. unfold nchildren. rewrite map_map. f_equal. f_equal.
    apply map_ext_in'. intros [b c] H. cbn [snd]. unfold inner_count.
    apply in_nenum_height in H. apply inner_count_f_enough; lia.
Qed.

Lemma length_flat_map : forall {A B} (f : A -> list B) l,
  length (flat_map f l) = list_sum (map (fun x => length (f x)) l).
Proof.
  intros A B f l. induction l as [|x l IH]; [reflexivity|].
  cbn [flat_map map list_sum fold_right]. rewrite app_length, IH. reflexivity.
Qed.

Lemma sum_lt_pointwise : forall {A} (f g : A -> nat) l, (forall x, In x l -> (f x < g x)%nat) ->
  (list_sum (map f l) + length l <= list_sum (map g l))%nat.
Proof.
  intros A f g l. induction l as [|x l IH]; intros H; [cbn; lia|].
  cbn [map list_sum fold_right length].
  assert (H1 : (f x < g x)%nat) by (apply H; left; reflexivity).
  assert (H2 : (list_sum (map f l) + length l <= list_sum (map g l))%nat)
    by (apply IH; intros y Hy; apply H; right; exact Hy).
  unfold list_sum in H2. lia.
Qed.

Lemma inner_nodes_bounded_f : forall f d t, (theight t <= f)%nat -> WF d t ->
  (inner_count t < length (leaves t))%nat.
Proof.
  induction f as [|f IH]; intros d t Hf H.
  - pose proof (theight_pos t). lia.
  - destruct t as [gk tk v|n].
    + rewrite inner_count_leaf, leaves_leaf. cbn [length]. lia.
    + pose proof (WF_inner_inv _ _ H) as (_ & H2 & _ & _).
      rewrite inner_count_inner, leaves_inner, length_flat_map.
      assert (Hs : (list_sum (map (fun bc : N * tree => inner_count (snd bc)) (nenum n)) + length (nenum n) <=
                    list_sum (map (fun bc : N * tree => length (leaves (snd bc))) (nenum n)))%nat).
      { apply sum_lt_pointwise. intros [b c] Hin. cbn [snd].
        destruct (WF_child _ _ _ _ H Hin) as [Hc _].
        pose proof (in_nenum_height _ _ _ Hin) as Hh.
        eapply IH; [|exact Hc]. lia. }
      lia.
Qed.

(* every inner node has at least two children and every child at least one leaf: a
   well-formed tree has fewer inner nodes than leaves *)
Theorem inner_nodes_bounded : forall d t, WF d t -> (inner_count t < length (leaves t))%nat.
Proof. intros d t. apply (inner_nodes_bounded_f (theight t)). lia. Qed.

(* after any valid history the tree holds exactly one leaf per stored key and fewer
   inner nodes than that; with no keys it holds nothing *)
Theorem state_bounded : forall k ops, history_ok k ops = true ->
  match root (st_of k ops) with
  | None => cs_of k ops = []
  | Some t => (inner_count t < length (cs_of k ops))%nat /\ length (leaves t) = length (cs_of k ops)
  end.
Proof.
  intros k ops H. pose proof (wellformed k ops H) as Hw.
  destruct (root (st_of k ops)) as [t|].
  - destruct Hw as (Hwf & Hl & _). rewrite <- Hl. split; [|reflexivity].
    apply (inner_nodes_bounded 0). exact Hwf.
  - apply Hw.
Qed.

(* not vacuous, and the bound is tight: two keys, one inner node *)
Example state_bounded_tight : exists ops t,
  history_ok KAlpha ops = true /\ root (st_of KAlpha ops) = Some t /\
  inner_count t = 1%nat /\ length (cs_of KAlpha ops) = 2%nat.
Proof.
  exists [Insert (AB [97; 98]) 1; Insert (AB [97; 99]) 2]. eexists.
  split; [vm_compute; reflexivity|]. split; [vm_compute; reflexivity|].
  split; vm_compute; reflexivity.
Qed.

(* ================================================================== *)
(* C17: the collator's buffer does not accumulate                       *)
(* ================================================================== *)
From GoArt Require Import Model.Mem Proofs.MemFacts.

(* after CollationOrderKey.Transform the collator's buffer holds the sort key of
   the key just transformed and nothing else, whatever it held before: its length is
   the length of the LAST sort key only *)
Theorem coll_buffer_last_only : forall g f h buf k h' buf' keyS colKey,
  slice_ok h buf -> (arr buf < length h)%nat -> slice_ok h k ->
  coll_transform g f h buf k = (h', buf', keyS, colKey) ->
  read h' buf' = f (read h k) /\ len buf' = length (f (read h k)).
Proof.
  intros g f h buf k h' buf' keyS colKey Hbuf Hbarr Hk E.
  assert (Hr : read h' buf' = f (read h k)).
  { revert E. unfold coll_transform, coll_key.
    destruct (clone g h k) as [h1 kS] eqn:E1.
    destruct (clone_spec g h k Hk h1 kS E1) as (Hun1 & Ha1 & Hl1 & Hok1 & Hr1).
    assert (Hb1 : slice_ok h1 (reset buf)) by (apply reset_ok, slice_ok_mono with h; auto).
    destruct (append_many_spec g (f (read h1 kS)) h1 (reset buf) Hb1)
      as (h2 & buf1 & E2 & Hok2 & Hr2 & _).
    cbn [reset len] in *. rewrite E2.
    rewrite read_reset in Hr2. cbn [app] in Hr2.
    destruct (clone g h2 (reslice buf1 0 (len buf1))) as [h3 cK] eqn:E3.
    intros E. inversion E; subst h3 buf1 kS cK. clear E.
    unfold clone in E3. inversion E3 as [[Eh Ec]]. clear E3.
    rewrite (read_mono h2 (h2 ++ _) buf' (old_unchanged_app _ _) Hok2).
    rewrite Hr2, Hr1. reflexivity. }
  split; [exact Hr|]. rewrite <- Hr. symmetry. apply read_length.
  destruct (coll_transform_spec g f h buf k Hbuf Hbarr Hk)
    as (h2 & b2 & k2 & c2 & E2 & _ & _ & _ & _ & _ & _ & Hok & _).
  rewrite E in E2. inversion E2; subst. exact Hok.
Qed.

(* two Transforms in a row: the buffer holds the second sort key only *)
Theorem coll_buffer_no_accumulation : forall g f h buf k1 h1 buf1 keyS1 colKey1 k2 h2 buf2 keyS2 colKey2,
  slice_ok h buf -> (arr buf < length h)%nat -> slice_ok h k1 ->
  coll_transform g f h buf k1 = (h1, buf1, keyS1, colKey1) -> slice_ok h1 k2 ->
  coll_transform g f h1 buf1 k2 = (h2, buf2, keyS2, colKey2) ->
  read h2 buf2 = f (read h1 k2) /\ len buf2 = length (f (read h1 k2)).
Proof.
  intros g f h buf k1 h1 buf1 keyS1 colKey1 k2 h2 buf2 keyS2 colKey2 Hbuf Hbarr Hk1 E1 Hk2 E2.
  destruct (coll_transform_spec g f h buf k1 Hbuf Hbarr Hk1)
    as (h1' & b1' & ks' & ck' & E1' & _ & _ & _ & _ & _ & _ & Hokb & Hltb & _).
  rewrite E1 in E1'. inversion E1'; subst h1' b1' ks' ck'. clear E1'.
  exact (coll_buffer_last_only g f h1 buf1 k2 h2 buf2 keyS2 colKey2 Hokb Hltb Hk2 E2).
Qed.
