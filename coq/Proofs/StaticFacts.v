(* Obligations over the REGENERATED source facts (Gen/WriteFacts.v, Gen/SrcFacts.v,
   Gen/Layouts.v).  Every statement is a closed boolean / equational fact about tables that
   go/cmd/srcfacts and `harness layouts` rewrite from /repo's current source on every run, so
   `vm_compute; reflexivity` re-checks them against what the code says NOW; an edit that
   breaks one makes this file fail to compile.  The classification (Model/Facts.v) and the
   extractor are trusted; nothing else is. *)
From Coq Require Import List String NArith Bool.
From GoArt Require Import Gen.SrcFacts Gen.WriteFacts Gen.Layouts Model.Facts.
Import ListNotations.
Open Scope string_scope.

(* ---------------------------------------------------------------- C15 / C16: write sites *)

(* the breadth-first closure ran to completion: the reachable sets are closed under call edges *)
Theorem reachable_closed : closed reachable_fns = true /\ closed write_reachable_fns = true.
Proof. split; vm_compute; reflexivity. Qed.

(* every read-only API method of every tree kind is a root (6 kinds x 10 methods) *)
Theorem read_roots_present :
  forallb (fun m => Nat.leb 6 (List.length (named m))) read_api = true /\
  forallb (fun r => mem r reachable_fns) roots = true.
Proof. split; vm_compute; reflexivity. Qed.

(* no function reachable from a read-only API method writes to the heap (outside the allowed codec scratch) *)
Theorem read_paths_do_not_write :
  forallb (fun w => negb (existsb (String.eqb (fn_of w)) reachable_fns) || allowed_write w) heap_writes = true.
Proof. vm_compute; reflexivity. Qed.

(* the same fact as an empty list of offenders (what a replay prints when it breaks) *)
Theorem no_offending_write : offending_writes = [].
Proof. vm_compute; reflexivity. Qed.

(* ... and the write paths do (sanity: the table is not empty and Insert/Delete reach writes,
   including the node-level ones: the extractor sees through ref.addChild -> n4.addChild -> setAtPos) *)
Theorem write_paths_do_write :
  existsb (fun w => existsb (String.eqb (fn_of w)) write_reachable_fns) heap_writes = true.
  (* write_reachable_fns := reach insert_roots (length functions) *)
Proof. vm_compute; reflexivity. Qed.

Theorem write_paths_reach_node_writes :
  forallb (fun f => mem f write_reachable_fns && existsb (fun w => String.eqb (fn_of w) f) heap_writes)
          ["*node4.addChild"; "*node16.addChild"; "*node48.addChild"; "*node256.addChild";
           "*node4.deleteChild"; "*node16.deleteChild"; "*node48.deleteChild"; "*node256.deleteChild";
           "setAtPos"; "shiftLeftClear"; "shiftRightClear"; "*node4.clear"] = true.
Proof. vm_compute; reflexivity. Qed.

(* the allowed exception is not dead: the codec write exists and is on a read path *)
Theorem allowed_exception_is_used :
  existsb (fun w => allowed_write w && on_read_path w) heap_writes = true.
Proof. vm_compute; reflexivity. Qed.

(* the only package-level state: the node pools, of type sync.Pool; nothing assigns a package-level variable *)
Theorem only_pools_are_shared :
  forallb (fun v => is_pool_type (typ v) || is_readonly_table v) Gen.SrcFacts.package_vars = true /\ pkgvar_writes = [].
Proof. split; vm_compute; reflexivity. Qed.

(* C14: no function literal returned as a sequence assigns to a variable it captures *)
Theorem no_captured_mutation : Gen.SrcFacts.captured_mutations = [].
Proof. vm_compute; reflexivity. Qed.

(* ---------------------------------------------------------------- C18: layouts *)

(* every field through which nodes / leaves / keys are reached (nodeRef.pointer, leaf key,
   colKey of the collation leaf, for every probed V) has a pointer kind the collector scans;
   no probed field is a uintptr *)
Theorem reaching_fields_are_scanned :
  forallb field_scanned reaching_fields = true /\ no_uintptr = true.
Proof. split; vm_compute; reflexivity. Qed.

(* for each probed V the alpha / unsigned / signed / float / compound leaf types have the same
   field list (names, kinds, offsets, sizes), size and alignment *)
Theorem template_leaves_coincide : forallb leaves_coincide probes = true.
Proof. vm_compute; reflexivity. Qed.

(* `node` is the first field (offset 0) of the four node structs, and `children` follows the
   header at one and the same offset in all four *)
Theorem header_is_first_field :
  forallb (fun s => header_first s && children_aligned s) node_structs = true.
Proof. vm_compute; reflexivity. Qed.
