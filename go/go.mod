module verifharness

go 1.24.0

require (
	github.com/Clement-Jean/go-art v0.0.0
	golang.org/x/text v0.23.0
)

replace github.com/Clement-Jean/go-art => /repo
