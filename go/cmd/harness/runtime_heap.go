package main

// C17 runtime leg: `harness heap <seed> [N] [keys]`.
//
// Per kind: a tree of bounded size (a pool of 3/2*keys key texts of which `keys` are
// stored at any time); live heap = HeapAlloc after two forced collections (the second
// one empties the sync.Pool victim caches).  Measured before/after
//   (a) N queries (Search present/absent, Minimum/Maximum, and every 64th operation a
//       full or bounded iteration, a Range, a Prefix where supported),
//   (b) N overwrites of present keys,
//   (c) N rounds of delete + insert at constant size (the stored set drifts through the pool),
// then every key is deleted and the heap is compared with the baseline taken before the
// tree existed.  All bookkeeping of the harness (key texts, live/dead index arrays) is
// allocated before the baseline and never grows afterwards.  Thresholds are applied by
// bin/vruntime.py.

import (
	art "github.com/Clement-Jean/go-art"
	"runtime"
	"runtime/debug"
	"strconv"
)

type heapKind struct {
	Kind            string  `json:"kind"`
	Keys            int     `json:"keys"`
	PoolKeys        int     `json:"pool_keys"`
	N               int     `json:"n"`
	BuiltBytes      int64   `json:"built_bytes"` // live heap attributable to the built tree
	QueryBPO        float64 `json:"query_bytes_per_op"`
	WorstQueryBPO   float64 `json:"worst_single_method_bytes_per_call"`
	WorstQuery      string  `json:"worst_single_method"`
	WorstQueryBytes int64   `json:"largest_growth_in_one_method_phase_bytes"`
	OverwrBPO       float64 `json:"overwrite_bytes_per_op"`
	ChurnBPO        float64 `json:"churn_bytes_per_op"`
	EmptyRetain     int64   `json:"empty_after_deletes_bytes"`
	ColBufLen0      int     `json:"collation_buf_len_after_build"`
	ColBufLen       int     `json:"collation_buf_len_after_queries"`
	ColBufCap       int     `json:"collation_buf_cap_after_churn"`
	MaxSortKey      int     `json:"longest_sort_key"`
	SizeOK          bool    `json:"size_ok"`
	Iterated        int64   `json:"elements_iterated"`
}

func liveHeap() int64 {
	runtime.GC()
	runtime.GC()
	var m runtime.MemStats
	runtime.ReadMemStats(&m)
	return int64(m.HeapAlloc)
}

func colBuf(t treeDrv) (int, int) {
	if c, ok := t.Raw().(interface{ VerifCollationBufLen() (int, int) }); ok {
		return c.VerifCollationBufLen()
	}
	return -1, -1
}

func drainSeq(t treeDrv, tag string, args []string, limit int) int64 {
	var n int64
	t.Seq(tag, args)(func(string, int) bool {
		n++
		return limit < 0 || n < int64(limit)
	})
	return n
}

func heapOne(seed uint64, ks kindSpec, N, nkeys int) heapKind {
	g := &gen{r: &rng{seedFor(seed, "heap:"+ks.kind+ks.variant, 0)}, st: newStats()}
	r := g.r
	kind, pool, probe := g.keyPool(ks, nkeys*3/2)
	if len(pool) < nkeys*3/2 {
		nkeys = len(pool) * 2 / 3
	}
	res := heapKind{Kind: kind + "/" + ks.variant, Keys: nkeys, PoolKeys: len(pool), N: N, ColBufLen0: -1, ColBufLen: -1, ColBufCap: -1}
	// bookkeeping, allocated up front: probes (absent or partial keys), index arrays
	probes := make([]string, 256)
	for i := range probes {
		probes[i] = probe()
	}
	if kind == "coll" {
		for _, k := range pool {
			if n := (len(k) - len(collOrig(k)) - 2) / 2; n > res.MaxSortKey {
				res.MaxSortKey = n
			}
		}
	}
	live := make([]int, nkeys)           // pool indices currently stored
	dead := make([]int, len(pool)-nkeys) // pool indices currently not stored
	for i := range live {
		live[i] = i
	}
	for i := range dead {
		dead[i] = nkeys + i
	}
	rngArgs := make([][]string, 16)
	for i := range rngArgs {
		rngArgs[i] = []string{pool[r.n(len(pool))], pool[r.n(len(pool))]}
	}
	pfxArgs := make([][]string, 16)
	hasPfx := kind == "alpha"
	for i := range pfxArgs {
		if hasPfx {
			b := xbytes(pool[r.n(len(pool))])
			pfxArgs[i] = []string{xhex(b[:r.n(len(b)+1)])}
		}
	}
	kArgs := [][]string{{"1"}, {"3"}, {"11"}, {strconv.FormatInt(int64(nkeys), 16)}}

	base := liveHeap()
	t := newTree(kind, ks.variant)
	for _, i := range live {
		t.Insert(pool[i], i+1)
	}
	h1 := liveHeap()
	res.BuiltBytes = h1 - base
	res.ColBufLen0, _ = colBuf(t)

	// (a) queries only
	for i := 0; i < N; i++ {
		switch {
		case i%64 == 63:
			switch (i / 64) % 7 {
			case 0:
				res.Iterated += drainSeq(t, "ALL", nil, -1)
			case 1:
				res.Iterated += drainSeq(t, "BWD", nil, 1+r.n(nkeys))
			case 2:
				res.Iterated += drainSeq(t, "TOPK", kArgs[r.n(len(kArgs))], -1)
			case 3:
				res.Iterated += drainSeq(t, "BOTK", kArgs[r.n(len(kArgs))], 2)
			case 4, 5:
				res.Iterated += drainSeq(t, "RNG", rngArgs[r.n(len(rngArgs))], -1)
			default:
				if hasPfx {
					res.Iterated += drainSeq(t, "PFX", pfxArgs[r.n(len(pfxArgs))], -1)
				} else {
					res.Iterated += drainSeq(t, "ALL", nil, 3)
				}
			}
		case i%8 == 6:
			t.Min()
		case i%8 == 7:
			t.Max()
		case i%2 == 0:
			t.Search(pool[live[r.n(nkeys)]])
		default:
			if i%4 == 1 {
				t.Search(pool[dead[r.n(len(dead))]])
			} else {
				t.Search(probes[r.n(len(probes))])
			}
		}
	}
	h2 := liveHeap()
	res.QueryBPO = float64(h2-h1) / float64(N)
	res.ColBufLen, _ = colBuf(t)

	// (a') one kind of query at a time: a leak specific to one method (a few hundred bytes per
	// call) is invisible in the mixed phase, where that method is one call in a hundred
	sub := []struct {
		name string
		n    int
		f    func()
	}{
		{"Search", N / 2, func() { t.Search(pool[live[r.n(nkeys)]]); t.Search(probes[r.n(len(probes))]) }},
		{"Minimum/Maximum", N / 4, func() { t.Min(); t.Max() }},
		{"All", N / 200, func() { drainSeq(t, "ALL", nil, -1) }},
		{"Backward", N / 200, func() { drainSeq(t, "BWD", nil, 1+r.n(nkeys)) }},
		{"TopK", N / 40, func() { drainSeq(t, "TOPK", kArgs[r.n(len(kArgs))], -1) }},
		{"BottomK", N / 40, func() { drainSeq(t, "BOTK", kArgs[r.n(len(kArgs))], 2) }},
		{"Range", N / 10, func() { drainSeq(t, "RNG", rngArgs[r.n(len(rngArgs))], 3) }},
	}
	if fresh := freshKey(kind); fresh != nil {
		// every call asks about a key that was never asked about before and is not stored: whatever the tree
		// remembers per DISTINCT queried key (a memo table, a negative cache) grows here and nowhere else
		cnt := 0
		sub = append(sub, struct {
			name string
			n    int
			f    func()
		}{"Search/Delete of fresh absent keys", N / 2, func() {
			cnt++
			k := fresh(cnt)
			t.Search(k)
			if cnt%4 == 0 {
				t.Delete(k)
			}
		}})
	}
	if hasPfx || kind == "coll" {
		if kind == "coll" {
			for i := range pfxArgs {
				pfxArgs[i] = []string{pool[r.n(len(pool))]}
			}
		}
		sub = append(sub, struct {
			name string
			n    int
			f    func()
		}{"Prefix", N / 10, func() { drainSeq(t, "PFX", pfxArgs[r.n(len(pfxArgs))], 3) }})
	}
	prev := liveHeap()
	for _, sp := range sub {
		if sp.n < 1 {
			continue
		}
		for i := 0; i < sp.n; i++ {
			sp.f()
		}
		cur := liveHeap()
		bpo := float64(cur-prev) / float64(sp.n)
		// a few kilobytes of heap jitter divided by a few hundred calls is not a leak: only growth
		// beyond 64 KiB in one sub-phase is rated per call
		if cur-prev > 64*1024 && bpo > res.WorstQueryBPO {
			res.WorstQueryBPO, res.WorstQuery = bpo, sp.name
		}
		if cur-prev > res.WorstQueryBytes {
			res.WorstQueryBytes = cur - prev
		}
		prev = cur
	}
	h2 = prev

	// (b) overwrites of present keys
	for i := 0; i < N; i++ {
		t.Insert(pool[live[r.n(nkeys)]], i)
	}
	h3 := liveHeap()
	res.OverwrBPO = float64(h3-h2) / float64(N)

	// (c) churn at constant size: delete a stored key, insert one that is not stored
	for i := 0; i < N; i++ {
		li, di := r.n(nkeys), r.n(len(dead))
		t.Delete(pool[live[li]])
		t.Insert(pool[dead[di]], i)
		live[li], dead[di] = dead[di], live[li]
		if i%5 == 0 { // a failed delete and a search in between
			t.Delete(pool[dead[di]])
			t.Search(pool[live[li]])
		}
	}
	h4 := liveHeap()
	res.ChurnBPO = float64(h4-h3) / float64(N)
	_, res.ColBufCap = colBuf(t)
	res.SizeOK = t.Size() == nkeys

	// empty after deletes
	for _, i := range live {
		t.Delete(pool[i])
	}
	res.SizeOK = res.SizeOK && t.Size() == 0
	h5 := liveHeap()
	res.EmptyRetain = h5 - base
	runtime.KeepAlive(t)
	runtime.KeepAlive(pool)
	runtime.KeepAlive(probes)
	return res
}

// freshKey: the i-th of an unbounded family of key texts that are in no pool (nil: the kind has no such family here)
func freshKey(kind string) func(i int) string {
	switch {
	case kind == "alpha" || kind == "coll":
		return func(i int) string { return xhex([]byte("\x7fmiss-" + strconv.Itoa(i))) }
	case kind == "u8":
		return func(i int) string { return showU(0x7fff000000000000 + uint64(i)) }
	case kind == "f8":
		return func(i int) string { return showU(0x4330000000000000 + uint64(i)) }
	}
	return nil
}

type heapCrossRes struct {
	Groups    int   `json:"groups"`
	ValueSize int   `json:"value_bytes"`
	BigBytes  int64 `json:"big_tree_bytes"`
	Retained  int64 `json:"retained_by_the_small_trees_after_the_big_tree_is_gone"`
	SmallKeys int   `json:"small_tree_keys"`
	Node16    bool  `json:"node16_released"`
}

// heapCross: a tree with LARGE values whose FULL node4s collapse (4 -> 1 children; six == false) or whose FULL
// node16s shrink (16 -> 3; six == true; only a full array keeps the deleted child's reference in its last
// cell, the shifts then spread it over the vacated cells) hands its nodes to the pool; a small tree built right after each release takes
// the node from there (3 keys: a node4 that never grows; 5 keys: a node16); then the big tree is dropped.  What
// the small trees keep alive must be what THEY store: a node that went to the pool with child slots still
// pointing at the big tree's leaves would show here (and only here: two collections empty the pool).
// (The small trees never release a node of the size class under test, so the pool's per-P slot holds the big
// tree's node when they ask.)
func heapCross(groups, valueSize int, six bool) heapCrossRes {
	type big = []byte
	res := heapCrossRes{Groups: groups, ValueSize: valueSize, Node16: six}
	stem := func(g int) string { return "g" + strconv.Itoa(100000+g) + ":" }
	n, m := 4, 3
	if six {
		n, m = 16, 5
	}
	base := liveHeap()
	A := art.NewAlphaSortedTree[string, big]()
	for g := 0; g < groups; g++ {
		for c := 0; c < n; c++ {
			A.Insert(stem(g)+string(rune('a'+c)), make(big, valueSize))
		}
	}
	res.BigBytes = liveHeap() - base
	var small []art.Tree[string, int]
	for g := 0; g < groups; g++ {
		last := 1
		if six {
			last = 3 // down to three children: the node16 is replaced by a node4 and released
		}
		for c := n - 1; c >= last; c-- { // largest first: the vacated slots keep their old contents
			A.Delete(stem(g) + string(rune('a'+c)))
		}
		s := art.NewAlphaSortedTree[string, int]()
		for c := 0; c < m; c++ {
			s.Insert("s"+string(rune('a'+c)), c)
			res.SmallKeys++
		}
		small = append(small, s)
	}
	A = nil
	res.Retained = liveHeap() - base
	runtime.KeepAlive(small)
	return res
}

type heapBigRes struct {
	Keys         int   `json:"keys"`
	ValueSize    int   `json:"value_bytes"`
	AfterPartial int64 `json:"excess_after_deleting_some_bytes"` // retained minus (remaining keys x value size)
	Remaining    int   `json:"remaining_keys"`
	AfterAll     int64 `json:"retained_after_deleting_everything"`
	Iterated     int   `json:"elements_iterated"`
}

// heapBig: LARGE values, so that one leaf kept alive by a stale reference (a child slot that was not unlinked, a
// traversal stack that was not wiped, ...) weighs as much as thousands of nodes.  One branching position with `keys`
// children (a node48 for 40, a node256 for 200), every iterator run once, then most keys deleted (down to a count
// that does not rebuild the node), the live heap compared with what the remaining keys account for; then everything
// deleted.
func heapBig(keys, remaining, valueSize int) heapBigRes {
	type big = []byte
	res := heapBigRes{Keys: keys, ValueSize: valueSize, Remaining: remaining}
	key := func(i int) string { return "big:" + string(rune(0x21+i)) + "!" }
	base := liveHeap()
	t := art.NewAlphaSortedTree[string, big]()
	for i := 0; i < keys; i++ {
		t.Insert(key(i), make(big, valueSize))
	}
	for range t.All() {
		res.Iterated++
	}
	for range t.Backward() {
		res.Iterated++
	}
	for range t.TopK(3) {
		res.Iterated++
	}
	for range t.BottomK(uint(keys)) {
		res.Iterated++
	}
	for range t.Prefix("big:") {
		res.Iterated++
	}
	for range t.Range(key(0), key(keys-1)) {
		res.Iterated++
	}
	t.Minimum()
	t.Maximum()
	for i := keys - 1; i >= remaining; i-- { // the highest bytes go: their slots are not reused by what follows
		t.Delete(key(i))
	}
	res.AfterPartial = liveHeap() - base - int64(remaining)*int64(valueSize)
	for i := 0; i < remaining; i++ {
		t.Delete(key(i))
	}
	res.AfterAll = liveHeap() - base
	runtime.KeepAlive(t)
	return res
}

func heapMain(args []string) int {
	seed, N, nkeys := uint64(1), 100000, 200
	if len(args) > 0 {
		seed, _ = strconv.ParseUint(args[0], 10, 64)
	}
	if len(args) > 1 {
		N, _ = strconv.Atoi(args[1])
	}
	if len(args) > 2 {
		nkeys, _ = strconv.Atoi(args[2])
	}
	debug.SetGCPercent(100)
	kinds := []kindSpec{{"alpha", "string"}, {"alpha", "bytes"}, {"u8", "uint64"}, {"s4", "int32"}, {"f8", "float64"},
		{"coll", "string:root"}, {"coll", "bytes:de"}, {"comp", ""}}
	var out struct {
		Seed  uint64         `json:"seed"`
		N     int            `json:"n"`
		Noise int64          `json:"noise_bytes"` // |difference| of two back-to-back live-heap measurements
		Kinds []heapKind     `json:"kinds"`
		Bulk  []heapBulkRes  `json:"bulk"`
		Cross []heapCrossRes `json:"cross_tree"`
		Big   []heapBigRes   `json:"big_values"`
	}
	out.Seed, out.N = seed, N
	// warm-up: tables of x/text, fmt, the pools' first use
	heapOne(seed+1, kindSpec{"coll", "string:root"}, 2000, 50)
	heapOne(seed+1, kindSpec{"alpha", "string"}, 2000, 50)
	a, b := liveHeap(), liveHeap()
	out.Noise = a - b
	if out.Noise < 0 {
		out.Noise = -out.Noise
	}
	for _, ks := range kinds {
		out.Kinds = append(out.Kinds, heapOne(seed, ks, N, nkeys))
	}
	out.Bulk = append(out.Bulk, heapBulk("u4", "uint32", 120000), heapBulk("alpha", "string", 60000))
	out.Cross = append(out.Cross, heapCross(300, 32*1024, false), heapCross(100, 16*1024, true))
	out.Big = append(out.Big, heapBig(40, 15, 128*1024), heapBig(200, 50, 64*1024))
	printJSON(out)
	return 0
}

type heapBulkRes struct {
	Kind      string `json:"kind"`
	Keys      int    `json:"keys"`
	PeakBytes int64  `json:"peak_bytes"`
	Retained  int64  `json:"retained_after_deleting_everything"`
}

// heapBulk: a large dense key set (thousands of 256-way nodes at the peak), then every key
// deleted: what is still retained must not depend on the peak
func heapBulk(kind, variant string, n int) heapBulkRes {
	keys := make([]string, n)
	for i := range keys {
		if kind == "alpha" {
			keys[i] = xhex([]byte{'k', byte(1 + i/(255*255)), byte(1 + (i/255)%255), byte(1 + i%255)})
		} else {
			keys[i] = showU(uint64(0x01000000 + i))
		}
	}
	base := liveHeap()
	t := newTree(kind, variant)
	for i, k := range keys {
		t.Insert(k, i)
	}
	peak := liveHeap()
	for _, k := range keys {
		t.Delete(k)
	}
	end := liveHeap()
	runtime.KeepAlive(t)
	runtime.KeepAlive(keys)
	return heapBulkRes{Kind: kind + "/" + variant, Keys: n, PeakBytes: peak - base, Retained: end - base}
}
