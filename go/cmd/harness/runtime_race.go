package main

// C16 runtime leg: `harness race <seed> <goroutines> <nops>`.
//
// Part A — independent trees: G goroutines, each with PRIVATE trees (one per
// history; the kinds cycle through allKinds() so that every kind runs next to
// every other), each interpreting its own generated history with a private
// session and a private oracle.  All goroutines leave a barrier together and
// yield (runtime.Gosched) at random points, so that the only shared state — the
// node pools — sees Get/Put from all of them while trees grow and shrink.
//
// Part B — concurrent readers: for byte-string, unsigned, signed, float and
// compound trees, one tree is built sequentially (a few hundred keys, wide
// nodes included), then R goroutines run read-only command lists on the SAME
// tree; what every reader sees must be what the sequential execution (and the
// oracle, where it specifies the result) gave for that command.
//
// Meant for the -race build (the detector reports through stderr and the exit
// code chosen in GORACE); without -race only the result comparison remains.

import (
	"bufio"
	"crypto/sha1"
	"encoding/hex"
	"encoding/json"
	"fmt"
	"os"
	"regexp"
	"runtime"
	"strconv"
	"strings"
	"sync"

	art "github.com/Clement-Jean/go-art"
	"golang.org/x/text/collate"
)

var wideNodeRe = regexp.MustCompile(`(^|[^0-9a-f])(16|48|256)\(`)

type raceReport struct {
	Goroutines     int      `json:"partA_goroutines"`
	Histories      int      `json:"partA_histories"`
	WideA          int      `json:"partA_histories_with_wide_nodes"`
	OpsA           int      `json:"partA_ops"`
	MismatchA      int      `json:"partA_mismatches"`
	Kinds          []string `json:"partA_kinds"`
	Trees          int      `json:"partB_trees"`
	Readers        int      `json:"partB_readers"`
	OpsB           int      `json:"partB_ops"`
	MismatchB      int      `json:"partB_mismatches"`
	TreeSizes      []int    `json:"partB_tree_sizes"`
	BuildMismatch  int      `json:"partB_build_mismatches"`
	Panics         int      `json:"panics"`
	First          string   `json:"first_mismatch"`
	Procs          int      `json:"gomaxprocs"`
	Yields         int      `json:"yields"`
	Nontrivial     []string `json:"nontrivial_hashes"` // histories / reader lists distinct by hash whose tree held a node of class 16/48/256
	Distinct       int      `json:"distinct_hashes"`
	Samples        []string `json:"samples"`
	SlabGoroutines int      `json:"partC_goroutines"`
	SlabOps        int      `json:"partC_ops"`
	SlabMismatch   int      `json:"partC_mismatches"`
	SlabFirst      string   `json:"partC_first_mismatch"`
	ChurnOps       int      `json:"partD_ops"`
	ChurnMismatch  int      `json:"partD_mismatches"`
	ChurnFirst     string   `json:"partD_first_mismatch"`
}

// racePoolChurn — Part D: the node pools under load.  Every goroutine owns ONE tree and takes one branching position
// through 4 -> 16 -> 48 -> 256 children and back to one child, again and again, with no pause: nodes of every size
// class are released by one goroutine and acquired by another all the time, each grow of one tree next to a shrink of
// another.  A node handed to the pool while its old owner still writes to it, or handed out twice, is a data race
// between two goroutines that share nothing else; what each tree holds is checked after every phase.
func racePoolChurn(G int) (ops, mismatches int, first string) {
	var mu sync.Mutex
	bad := func(msg string) {
		mu.Lock()
		mismatches++
		if first == "" {
			first = msg
		}
		mu.Unlock()
	}
	var start, done sync.WaitGroup
	start.Add(1)
	for g := 0; g < G; g++ {
		done.Add(1)
		go func(g int) {
			defer done.Done()
			t := art.NewUnsignedBinaryTree[uint32, int]()
			key := func(b int) uint32 { return uint32(g)<<16 | 0x5500 | uint32(b) }
			n := 0
			check := func(lo, hi int, phase string) {
				for b := 0; b < 256; b++ {
					v, ok := t.Search(key(b))
					want := b >= lo && b < hi
					if ok != want || (ok && v != b) {
						bad(fmt.Sprintf("churn: goroutine %d %s: Search(byte %#x) = %d, %v; stored bytes [%#x, %#x)", g, phase, b, v, ok, lo, hi))
						return
					}
				}
				if t.Size() != hi-lo {
					bad(fmt.Sprintf("churn: goroutine %d %s: Size() = %d, want %d", g, phase, t.Size(), hi-lo))
				}
				n += 257
			}
			start.Wait()
			for round := 0; round < 6; round++ {
				for b := 0; b < 256; b++ { // up through every class
					t.Insert(key(b), b)
					if b == 4 || b == 16 || b == 48 {
						runtime.Gosched() // a smaller node has just been released by the growth
					}
					if b == 48 || b == 49 || b == 255 {
						check(0, b+1, "growing")
					}
				}
				for b := 255; b >= 1; b-- { // and down again: 256 -> 48 at 37, 48 -> 16 at 12, 16 -> 4 at 3, collapse at 1
					if !t.Delete(key(b)) {
						bad(fmt.Sprintf("churn: goroutine %d: Delete(byte %#x) of a present key returned false", g, b))
					}
					if b == 38 || b == 37 || b == 36 || b == 12 || b == 3 {
						// a node has just been released: let another goroutine run NOW and take it from the pool (being
						// scheduled is not a synchronisation: what the old owner did to the node after releasing it is
						// ordered with nothing the new owner does)
						runtime.Gosched()
						check(0, b, "shrinking")
					}
				}
				t.Delete(key(0))
				check(0, 0, "emptied")
				n += 512
			}
			mu.Lock()
			ops += n
			mu.Unlock()
		}(g)
	}
	start.Done()
	done.Wait()
	o2, m2, f2 := racePoolHandoff(G)
	ops += o2
	mismatches += m2
	if first == "" {
		first = f2
	}
	return
}

// racePoolHandoff: nodes released by one goroutine and acquired by ANOTHER, by construction.  Half of the goroutines
// hold four trees each with a 49-child node (class 256), the other half four trees with 36 children under a node48.
// In every round the first half shrinks its trees to 36 children (four node256 released, four node48 acquired), all
// goroutines meet at a barrier, then the other half grows its trees to 49 (four node256 acquired — its own pool
// slots are empty, so they come from what the first half released); then the roles are swapped.  A node that its
// old owner still writes to after releasing it, or a node handed out twice, shows in what the trees hold afterwards.
// (The barrier orders the two halves, so the race detector sees nothing here: that is what the yields of the churn
// above are for; this part checks the CONTENTS after a forced hand-over.)
func racePoolHandoff(G int) (ops, mismatches int, first string) {
	if G%2 == 1 {
		G--
	}
	const K, rounds = 4, 8
	var mu sync.Mutex
	bad := func(msg string) {
		mu.Lock()
		mismatches++
		if first == "" {
			first = msg
		}
		mu.Unlock()
	}
	type barrier struct {
		mu     sync.Mutex
		cond   *sync.Cond
		n, gen int
	}
	bar := &barrier{}
	bar.cond = sync.NewCond(&bar.mu)
	wait := func() {
		bar.mu.Lock()
		gen := bar.gen
		bar.n++
		if bar.n == G {
			bar.n = 0
			bar.gen++
			bar.cond.Broadcast()
		} else {
			for gen == bar.gen {
				bar.cond.Wait()
			}
		}
		bar.mu.Unlock()
	}
	var done sync.WaitGroup
	for g := 0; g < G; g++ {
		done.Add(1)
		go func(g int) {
			defer done.Done()
			var trees [K]art.Tree[uint32, int]
			key := func(k, b int) uint32 { return uint32(g)<<20 | uint32(k)<<16 | 0x7700 | uint32(b) }
			big := g%2 == 0 // holds 49 children per tree (else 36)
			for k := range trees {
				trees[k] = art.NewUnsignedBinaryTree[uint32, int]()
				top := 36
				if big {
					top = 49
				}
				for b := 0; b < top; b++ {
					trees[k].Insert(key(k, b), b)
				}
			}
			check := func(phase string) {
				top := 36
				if big {
					top = 49
				}
				for k := range trees {
					for b := 0; b < 52; b++ {
						v, ok := trees[k].Search(key(k, b))
						if ok != (b < top) || (ok && v != b) {
							bad(fmt.Sprintf("handoff: goroutine %d tree %d %s: Search(byte %#x) = %d, %v with %d children", g, k, phase, b, v, ok, top))
							return
						}
					}
					if trees[k].Size() != top {
						bad(fmt.Sprintf("handoff: goroutine %d tree %d %s: Size() = %d, want %d", g, k, phase, trees[k].Size(), top))
					}
				}
			}
			n := 0
			for r := 0; r < rounds; r++ {
				wait()
				if big { // release: 49 -> 36 children
					for k := range trees {
						for b := 48; b >= 36; b-- {
							trees[k].Delete(key(k, b))
						}
					}
					big = false
					check("after shrinking")
					n += K * 13
					wait()
				} else { // acquire, after the others have released
					wait()
					for k := range trees {
						for b := 36; b < 49; b++ {
							trees[k].Insert(key(k, b), b)
						}
					}
					big = true
					check("after growing")
					n += K * 13
				}
				wait()
				check("settled")
			}
			mu.Lock()
			ops += n
			mu.Unlock()
		}(g)
	}
	done.Wait()
	return
}

// raceSlab — Part C: every goroutine has PRIVATE trees (a byte-string tree and a collation tree with []byte keys),
// but all keys are adjacent fixed-width windows of ONE shared slab (buf[i*W:(i+1)*W]: spare capacity reaching into
// the neighbours' records, which belong to other goroutines).  Key memory is only ever read by the callers, so
// sharing it is legal; a tree that writes into a key argument's backing array — even temporarily, restoring the
// byte before it returns — races with the neighbour's reads.
func raceSlab(seed uint64, G int) (ops, mismatches int, first string) {
	const W, per = 12, 96
	slab := make([]byte, G*per*W)
	r := &rng{seedFor(seed, "race:slab", 0)}
	for i := 0; i < G*per; i++ {
		rec := slab[i*W : (i+1)*W]
		copy(rec, fmt.Sprintf("r%05d", i))
		for j := 6; j < W; j++ {
			rec[j] = byte('a' + r.n(26))
		}
	}
	var mu sync.Mutex
	bad := func(msg string) {
		mu.Lock()
		mismatches++
		if first == "" {
			first = msg
		}
		mu.Unlock()
	}
	var start, done sync.WaitGroup
	start.Add(1)
	for g := 0; g < G; g++ {
		done.Add(1)
		go func(g int) {
			defer done.Done()
			key := func(j int) []byte { i := j*G + g; return slab[i*W : (i+1)*W] } // neighbours belong to other goroutines
			alpha := art.NewAlphaSortedTree[[]byte, int]()
			coll := art.NewCollationSortedTree[[]byte, int]()
			n := 0
			start.Wait()
			for round := 0; round < 3; round++ {
				for j := 0; j < per; j++ {
					alpha.Insert(key(j), j)
					coll.Insert(key(j), j)
					n += 2
					if j%4 == 3 {
						runtime.Gosched()
					}
				}
				for j := 0; j < per; j++ {
					if v, ok := alpha.Search(key(j)); !ok || v != j {
						bad(fmt.Sprintf("slab: goroutine %d: alpha Search(%q) = %d, %v", g, key(j), v, ok))
					}
					if v, ok := coll.Search(key(j)); !ok || v != j {
						bad(fmt.Sprintf("slab: goroutine %d: collation Search(%q) = %d, %v", g, key(j), v, ok))
					}
					n += 2
				}
				cnt := 0
				for range alpha.Range(key(0), key(per-1)) {
					cnt++
				}
				for range alpha.Prefix(key(0)[:1]) {
					cnt++
				}
				if cnt < per {
					bad(fmt.Sprintf("slab: goroutine %d: Range/Prefix yielded %d keys of %d", g, cnt, per))
				}
				for j := 0; j < per; j++ {
					if !alpha.Delete(key(j)) {
						bad(fmt.Sprintf("slab: goroutine %d: alpha Delete(%q) of a present key returned false", g, key(j)))
					}
					if !coll.Delete(key(j)) {
						bad(fmt.Sprintf("slab: goroutine %d: collation Delete(%q) of a present key returned false", g, key(j)))
					}
					if alpha.Delete(key(j)) {
						bad(fmt.Sprintf("slab: goroutine %d: second alpha Delete(%q) returned true", g, key(j)))
					}
					n += 3
					if j%4 == 1 {
						runtime.Gosched()
					}
				}
				if alpha.Size() != 0 || coll.Size() != 0 {
					bad(fmt.Sprintf("slab: goroutine %d: sizes %d / %d after deleting everything", g, alpha.Size(), coll.Size()))
				}
			}
			mu.Lock()
			ops += n
			mu.Unlock()
		}(g)
	}
	start.Done()
	done.Wait()
	want := fmt.Sprintf("r%05d", G*per-1)
	if string(slab[(G*per-1)*W:(G*per-1)*W+6]) != want {
		bad("slab: the shared key slab was modified")
	}
	return
}

func hashLines(lines []string) string {
	h := sha1.New()
	for _, l := range lines {
		h.Write([]byte(l))
		h.Write([]byte{'\n'})
	}
	return hex.EncodeToString(h.Sum(nil))[:16]
}

// genLines runs a generator body against an in-memory buffer and returns the command lines.
func genLines(seed uint64, drain bool, body func(g *gen)) []string {
	var sb strings.Builder
	w := bufio.NewWriter(&sb)
	g := &gen{r: &rng{seed}, w: w, st: newStats(), drain: drain}
	body(g)
	w.Flush()
	var out []string
	for _, l := range strings.Split(sb.String(), "\n") {
		if strings.TrimSpace(l) != "" && !strings.HasPrefix(l, "#") {
			out = append(out, l)
		}
	}
	return out
}

// keyPool: a pool of distinct key texts of one kind and a probe function (keys that need not be in the pool).
// kind "comp" draws a schema.  Collation pools are capped by what the collator can tell apart.
func (g *gen) keyPool(ks kindSpec, n int) (kind string, pool []string, probe func() string) {
	r := g.r
	kind = ks.kind
	switch {
	case kind == "alpha":
		bp := g.alphaPool(n)
		for _, k := range bp {
			pool = append(pool, xhex(k))
		}
		probe = func() string { return xhex(g.alphaProbe(bp)) }
	case kind == "coll":
		col := collNameOf(ks.variant)
		pool = g.collPool(col, n)
		c := collatorByName(col)
		probe = func() string {
			if r.chance(70) {
				return pick(r, pool)
			}
			t, _ := collKeyText(c, &collate.Buffer{}, g.collString())
			return t
		}
	case kind == "comp" || strings.HasPrefix(kind, "comp:"):
		if kind == "comp" {
			kind = "comp:" + g.schema()
		}
		var strs [][]byte
		for i := 0; i < 6+n/3; i++ { // enough distinct strings for schemas whose only wide field is the string
			strs = append(strs, g.alphaPool(1)[0])
		}
		o := newOracle(kind, "")
		seen := map[string]bool{}
		for i := 0; i < 6*n && len(pool) < n; i++ {
			k := g.tupleKey(kind[5:], strs)
			if i%2 == 1 { // wide fields as well, or small schemas run out of distinct tuples
				var parts []string
				for _, f := range strings.Split(kind[5:], ",") {
					if f == "str" {
						parts = append(parts, xhex(pick(r, strs)))
					} else {
						parts = append(parts, g.numKey(f))
					}
				}
				k = strings.Join(parts, ",")
			}
			ck := o.parse(k).txt
			if !seen[ck] {
				seen[ck] = true
				pool = append(pool, k)
			}
		}
		sch := kind[5:]
		probe = func() string {
			if r.chance(70) {
				return pick(r, pool)
			}
			return g.tupleKey(sch, strs)
		}
	default:
		seen := map[string]bool{}
		o := newOracle(kind, ks.variant)
		for i := 0; i < 8*n && len(pool) < n; i++ {
			k := g.numKey(kind)
			ck := o.parse(k).txt
			if !seen[ck] {
				seen[ck] = true
				pool = append(pool, k)
			}
		}
		probe = func() string {
			if r.chance(70) {
				return pick(r, pool)
			}
			return g.numKey(kind)
		}
	}
	return
}

// interpret runs command lines through a private session + oracle; yield is called between commands.
type runStats struct {
	ops, mismatches int
	first           string
	wide            bool
	samples         []string
}

func interpret(se *session, lines []string, yield func(), probeDumps bool) runStats {
	var st runStats
	marks := map[int]bool{len(lines) / 4: true, len(lines) / 2: true, 3 * len(lines) / 4: true, len(lines) - 1: true}
	for i, line := range lines {
		toks := strings.Fields(line)
		exp := "*"
		if len(toks) > 1 {
			if o := se.oracles[toks[1]]; o != nil {
				exp = o.expect(toks)
			}
		}
		out := se.do(toks, i+1)
		st.ops++
		if exp != "*" && out != exp {
			st.mismatches++
			if st.first == "" {
				st.first = fmt.Sprintf("cmd %d %q: implementation %.300q required %.300q", i, line, out, exp)
			}
		}
		if len(st.samples) < 3 && i > len(lines)/3 && strings.Contains(" ALL BWD RNG TOPK BOTK PFX MIN MAX ", " "+toks[0]+" ") {
			st.samples = append(st.samples, fmt.Sprintf("goroutine history on a private %s tree, command %d of %d: %.120s => %.160s", kindOf(lines), i, len(lines), line, out))
		}
		if probeDumps && marks[i] && !st.wide && len(toks) > 1 {
			if t := se.trees[toks[1]]; t != nil && wideNodeRe.MatchString(t.Dump()) {
				st.wide = true
			}
		}
		if yield != nil {
			yield()
		}
	}
	return st
}

func kindOf(lines []string) string {
	if t := strings.Fields(lines[0]); len(t) > 3 && t[0] == "NEW" {
		return t[2] + "/" + t[3]
	}
	return "?"
}

type raceJob struct {
	kind  kindSpec
	lines []string
	hash  string
}

func raceMain(args []string) int {
	seed, G, nops := uint64(1), 8, 300
	if len(args) > 0 {
		seed, _ = strconv.ParseUint(args[0], 10, 64)
	}
	if len(args) > 1 {
		G, _ = strconv.Atoi(args[1])
	}
	if len(args) > 2 {
		nops, _ = strconv.Atoi(args[2])
	}
	if G < 2 {
		G = 2
	}
	rep := raceReport{Goroutines: G, Procs: runtime.GOMAXPROCS(0)}
	distinct := map[string]bool{}
	nontrivial := map[string]bool{}

	// ---------------- Part A: histories generated up front (sequentially), interpreted concurrently
	kinds := allKinds()
	perG := (len(kinds) + G - 1) / G // every kind at least once
	if perG < 2 {
		perG = 2
	}
	jobs := make([][]raceJob, G)
	kindSeen := map[string]bool{}
	for i := 0; i < G; i++ {
		for j := 0; j < perG; j++ {
			idx := j*G + i
			ks := kinds[(idx+int(seed%uint64(len(kinds))))%len(kinds)]
			s := seedFor(seed, "race:A", idx)
			var lines []string
			if (i+j)%3 == 2 && fanSupported(ks) {
				// scripted fan-out: one branching position through 4 -> 16 -> 48 -> 256 and back
				lines = genLines(s, j%2 == 0, func(g *gen) { g.fanout("t0", ks, "full") })
			} else {
				lines = genLines(s, j%2 == 1, func(g *gen) { g.history("t0", ks, "full", nops/2+int(s%uint64(nops+1))) })
			}
			jobs[i] = append(jobs[i], raceJob{ks, lines, hashLines(lines)})
			kindSeen[ks.kind+"/"+ks.variant] = true
			rep.Histories++
		}
	}
	for k := range kindSeen {
		rep.Kinds = append(rep.Kinds, k)
	}
	var mu sync.Mutex
	note := func(st runStats, hash string, partB bool) {
		mu.Lock()
		defer mu.Unlock()
		distinct[hash] = true
		if st.wide {
			nontrivial[hash] = true
			if !partB {
				rep.WideA++
			}
		}
		if partB {
			rep.OpsB += st.ops
			rep.MismatchB += st.mismatches
		} else {
			rep.OpsA += st.ops
			rep.MismatchA += st.mismatches
		}
		if st.first != "" && rep.First == "" {
			rep.First = st.first
		}
		if lim := map[bool]int{false: 2, true: 4}[partB]; len(rep.Samples) < lim && len(st.samples) > 0 {
			rep.Samples = append(rep.Samples, st.samples[0])
		}
	}
	var yields int64
	var start sync.WaitGroup
	var done sync.WaitGroup
	start.Add(1)
	for i := 0; i < G; i++ {
		done.Add(1)
		go func(i int) {
			defer done.Done()
			r := &rng{seedFor(seed, "race:yield", i)}
			ny := 0
			yield := func() {
				if r.n(3) == 0 {
					ny++
					runtime.Gosched()
				}
			}
			start.Wait()
			panics := 0
			for _, job := range jobs[i] {
				se := newSession(execOpts{})
				st := interpret(se, job.lines, yield, true)
				panics += len(se.panics)
				note(st, job.hash, false)
			}
			mu.Lock()
			yields += int64(ny)
			rep.Panics += panics
			mu.Unlock()
		}(i)
	}
	start.Done()
	done.Wait()

	// ---------------- Part B: one shared tree per kind, R concurrent readers
	readerKinds := []kindSpec{{"alpha", "string"}, {"alpha", "bytes"}, {"u4", "uint32"}, {"u8", "uint64"}, {"s2", "int16"}, {"s8", "int64"},
		{"f4", "float32"}, {"f8", "float64"}, {"comp", ""}}
	R := G
	rep.Readers = R
	for ki, ks := range readerKinds {
		g := &gen{r: &rng{seedFor(seed, "race:B", ki)}, st: newStats()}
		kind, pool, probe := g.keyPool(ks, 300+g.r.n(200))
		if len(pool) < 8 {
			continue
		}
		r := g.r
		// build: insert everything in a random order, delete a fifth, put half of those back with new values
		build := []string{fmt.Sprintf("NEW t0 %s %s", kind, orDash(ks.variant))}
		perm := append([]string{}, pool...)
		for i := len(perm) - 1; i > 0; i-- {
			j := r.n(i + 1)
			perm[i], perm[j] = perm[j], perm[i]
		}
		for _, k := range perm {
			build = append(build, fmt.Sprintf("I t0 %s %d", k, 1+r.n(1000)))
		}
		for i := 0; i < len(perm)/5; i++ {
			build = append(build, fmt.Sprintf("D t0 %s", perm[i]))
			if i%2 == 0 {
				build = append(build, fmt.Sprintf("I t0 %s %d", perm[i], 1+r.n(1000)))
			}
		}
		build = append(build, "SIZE t0", "ALL t0 -")
		se := newSession(execOpts{})
		bst := interpret(se, build, nil, true)
		rep.BuildMismatch += bst.mismatches
		if bst.first != "" && rep.First == "" {
			rep.First = "partB build: " + bst.first
		}
		rep.Panics += len(se.panics)
		shared := se.trees["t0"]
		orc := se.oracles["t0"]
		rep.Trees++
		rep.TreeSizes = append(rep.TreeSizes, shared.Size())
		hasPfx := kind == "alpha"
		p := profiles["seqs"] // multi-pass stop lists: early stops and re-iteration
		// one master list of read-only commands per tree; its expectations are computed once, sequentially:
		// the oracle's line where the property specifies one, otherwise what the implementation answers
		// when nobody else is running.  Every reader executes its own permutation of the master list.
		var master, masterExp []string
		for c := 0; c < 2*nops; c++ {
			var cmd string
			switch x := r.n(20); {
			case x < 6:
				cmd = "S t0 " + probe()
			case x < 7:
				cmd = "MIN t0"
			case x < 8:
				cmd = "MAX t0"
			case x < 9:
				cmd = "SIZE t0"
			case x < 10:
				cmd = fmt.Sprintf("%s t0 %s", pick(r, []string{"ALL", "BWD"}), g.stops(p, len(pool)))
			case x < 13:
				n := pick(r, []uint64{0, 1, 2, 3, 17, uint64(len(pool) / 2), uint64(len(pool) + 1), 1 << 40})
				cmd = fmt.Sprintf("%s t0 %x %s", pick(r, []string{"TOPK", "BOTK"}), n, g.stops(p, 4))
			case x < 18 || !hasPfx:
				a, b := probe(), probe()
				if hasPfx && r.chance(10) {
					b = "x"
				}
				if r.chance(10) {
					b = a
				}
				cmd = fmt.Sprintf("RNG t0 %s %s %s", a, b, g.stops(p, 6))
			default:
				b := xbytes(probe())
				if len(b) > 0 && r.chance(70) {
					b = b[:r.n(len(b)+1)]
				}
				cmd = fmt.Sprintf("PFX t0 %s %s", xhex(b), g.stops(p, 5))
			}
			master = append(master, cmd)
		}
		seq := newSession(execOpts{})
		seq.trees["t0"] = shared
		for i, cmd := range master {
			toks := strings.Fields(cmd)
			e := orc.expect(toks)
			out := seq.do(toks, i+1)
			rep.OpsB++
			if e == "*" {
				e = out
			} else if out != e {
				rep.BuildMismatch++
				if rep.First == "" {
					rep.First = fmt.Sprintf("partB sequential %s: %q: implementation %.300q required %.300q", kind, cmd, out, e)
				}
			}
			masterExp = append(masterExp, e)
		}
		rep.Panics += len(seq.panics)
		lists := make([][]string, R)
		expected := make([][]string, R)
		hashes := make([]string, R)
		for ri := 0; ri < R; ri++ {
			idx := make([]int, len(master))
			for i := range idx {
				idx[i] = i
			}
			for i := len(idx) - 1; i > 0; i-- {
				j := r.n(i + 1)
				idx[i], idx[j] = idx[j], idx[i]
			}
			for _, i := range idx {
				lists[ri] = append(lists[ri], master[i])
				expected[ri] = append(expected[ri], masterExp[i])
			}
			hashes[ri] = hashLines(append([]string{build[0], strconv.Itoa(len(build))}, lists[ri]...))
		}
		wide := bst.wide
		shared.SetTrack(false) // the adapter is shared by the readers: it must not keep any state of its own
		var startB, doneB sync.WaitGroup
		startB.Add(1)
		for ri := 0; ri < R; ri++ {
			doneB.Add(1)
			go func(ri int) {
				defer doneB.Done()
				yr := &rng{seedFor(seed, "race:yieldB", ki*1000+ri)}
				rs := newSession(execOpts{})
				rs.trees["t0"] = shared
				st := runStats{wide: wide}
				ny := 0
				startB.Wait()
				{
					for i, cmd := range lists[ri] {
						out := rs.do(strings.Fields(cmd), i+1)
						st.ops++
						if out != expected[ri][i] {
							st.mismatches++
							if st.first == "" {
								st.first = fmt.Sprintf("partB reader %d on %s: %q: concurrent %.300q sequential %.300q", ri, kind, cmd, out, expected[ri][i])
							}
						}
						if len(st.samples) == 0 && i == len(lists[ri])/2 {
							st.samples = append(st.samples, fmt.Sprintf("reader %d of %d on one %s tree of %d keys: %.100s => %.100s", ri, R, kind, shared.Size(), cmd, out))
						}
						if yr.n(3) == 0 {
							ny++
							runtime.Gosched()
						}
					}
				}
				note(st, hashes[ri], true)
				mu.Lock()
				yields += int64(ny)
				rep.Panics += len(rs.panics)
				mu.Unlock()
			}(ri)
		}
		startB.Done()
		doneB.Wait()
		runtime.KeepAlive(shared)
	}
	// ---------------- Part C: private trees, keys cut from ONE shared read-only slab
	rep.SlabGoroutines = G
	rep.SlabOps, rep.SlabMismatch, rep.SlabFirst = raceSlab(seed, G)
	if rep.SlabFirst != "" && rep.First == "" {
		rep.First = rep.SlabFirst
	}
	rep.MismatchA += rep.SlabMismatch
	// ---------------- Part D: pool churn — every goroutine takes one private tree through all size classes and back, over and over
	rep.ChurnOps, rep.ChurnMismatch, rep.ChurnFirst = racePoolChurn(G)
	if rep.ChurnFirst != "" && rep.First == "" {
		rep.First = rep.ChurnFirst
	}
	rep.MismatchA += rep.ChurnMismatch
	rep.Yields = int(yields)
	rep.Distinct = len(distinct)
	for h := range nontrivial {
		rep.Nontrivial = append(rep.Nontrivial, h)
	}
	rep.MismatchB += rep.BuildMismatch
	printJSON(rep)
	if rep.MismatchA+rep.MismatchB > 0 {
		return 1
	}
	return 0
}

func printJSON(v any) {
	enc := json.NewEncoder(os.Stdout)
	enc.SetEscapeHTML(false)
	enc.Encode(v)
}

func runtimeExit(code int) {
	os.Stdout.Sync()
	os.Exit(code)
}
