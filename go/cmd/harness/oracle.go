package main

// The property oracle: an ideal sorted map per tree, written from the text of the
// properties and independent of the library's encoders (native comparisons on
// the abstract keys, bytes.Compare, collator.Compare, tuple-lexicographic).
// It predicts the output line of every command; "*" marks outputs the properties
// leave unspecified (the carve-outs of C03/C04).

import (
	"bytes"
	"fmt"
	"math"
	"sort"
	"strconv"
	"strings"

	"golang.org/x/text/collate"
)

type okey struct {
	txt string // canonical text (as the implementation should print it)
	b   []byte // alpha / collation original bytes
	u   uint64
	s   int64
	f   float64
	tup []okey // compound fields
}

type oracle struct {
	kind    string
	variant string
	col     *collate.Collator
	schema  schemaCodec
	m       map[string]int  // canonical key text -> value
	keys    map[string]okey // canonical key text -> parsed key
}

func newOracle(kind, variant string) *oracle {
	o := &oracle{kind: kind, variant: variant, m: map[string]int{}, keys: map[string]okey{}}
	if kind == "coll" {
		parts := strings.SplitN(variant, ":", 2)
		if parts[0] == "runes" {
			o.col = collatorByName("root")
		} else {
			o.col = collatorByName(parts[1])
		}
	}
	if strings.HasPrefix(kind, "comp:") {
		o.schema = parseSchema(kind[5:])
	}
	return o
}

func canonFloat(bitsv uint64, w int) (float64, string) {
	var f float64
	if w == 4 {
		f = float64(math.Float32frombits(uint32(bitsv)))
	} else {
		f = math.Float64frombits(bitsv)
	}
	if f != f {
		return f, "nan"
	}
	return f, showU(bitsv)
}

func (o *oracle) parseField(typ byte, w int, s string) okey {
	switch typ {
	case 'u':
		n := parseU(s)
		return okey{txt: showU(n), u: n}
	case 's':
		n := parseS(s)
		return okey{txt: showS(n), s: n}
	case 'f':
		f, txt := canonFloat(parseU(s), w)
		return okey{txt: txt, f: f}
	default:
		b := xbytes(s)
		return okey{txt: xhex(b), b: b}
	}
}

func (o *oracle) parse(s string) okey {
	switch {
	case o.kind == "alpha" || o.kind == "raw":
		b := xbytes(s)
		return okey{txt: xhex(b), b: b}
	case o.kind == "coll":
		b := xbytes(collOrig(s))
		return okey{txt: xhex(b), b: b}
	case strings.HasPrefix(o.kind, "comp:"):
		parts := strings.Split(s, ",")
		k := okey{}
		var txts []string
		for i, f := range o.schema.fields {
			fk := o.parseField(f.typ, f.w, parts[i])
			k.tup = append(k.tup, fk)
			txts = append(txts, fk.txt)
		}
		k.txt = strings.Join(txts, ",")
		return k
	}
	w, _ := strconv.Atoi(o.kind[1:])
	return o.parseField(o.kind[0], w, s)
}

// floats: NaN < -Inf < ... < -0 < +0 < ... < +Inf
func cmpFloat(a, b float64) int {
	an, bn := a != a, b != b
	switch {
	case an && bn:
		return 0
	case an:
		return -1
	case bn:
		return 1
	case a < b:
		return -1
	case a > b:
		return 1
	}
	sa, sb := math.Signbit(a), math.Signbit(b)
	switch {
	case sa && !sb:
		return -1
	case !sa && sb:
		return 1
	}
	return 0
}

func cmpInt[T int64 | uint64](a, b T) int {
	if a < b {
		return -1
	} else if a > b {
		return 1
	}
	return 0
}

func cmpField(typ byte, a, b okey) int {
	switch typ {
	case 'u':
		return cmpInt(a.u, b.u)
	case 's':
		return cmpInt(a.s, b.s)
	case 'f':
		return cmpFloat(a.f, b.f)
	}
	return bytes.Compare(a.b, b.b)
}

func (o *oracle) cmp(a, b okey) int {
	switch {
	case o.kind == "alpha" || o.kind == "raw":
		return bytes.Compare(a.b, b.b)
	case o.kind == "coll":
		return o.col.Compare(a.b, b.b)
	case strings.HasPrefix(o.kind, "comp:"):
		for i, f := range o.schema.fields {
			if c := cmpField(f.typ, a.tup[i], b.tup[i]); c != 0 {
				return c
			}
		}
		return 0
	}
	return cmpField(o.kind[0], a, b)
}

func (o *oracle) sorted() []okey {
	ks := make([]okey, 0, len(o.keys))
	for _, k := range o.keys {
		ks = append(ks, k)
	}
	sort.Slice(ks, func(i, j int) bool { return o.cmp(ks[i], ks[j]) < 0 })
	return ks
}

func (o *oracle) kvs(ks []okey) []kv {
	out := make([]kv, len(ks))
	for i, k := range ks {
		out[i] = kv{k.txt, o.m[k.txt]}
	}
	return out
}

func parseStops(s string) []int { // "-" = never
	var out []int
	for _, p := range strings.Split(s, "/") {
		if p == "-" {
			out = append(out, -1)
		} else if strings.HasPrefix(p, "n") { // nJ: a full pass during which, at element J, the SAME sequence value is ranged over completely
			n, _ := strconv.Atoi(p[1:])
			out = append(out, -(n + 2))
		} else {
			n, _ := strconv.Atoi(p)
			out = append(out, n)
		}
	}
	return out
}

func fmtSeq(tag string, full []kv, stops []int) string {
	var passes []string
	for _, st := range stops {
		l := full
		if st >= 0 && st < len(l) {
			l = l[:st+1]
		}
		var sb strings.Builder
		fmt.Fprintf(&sb, "%d", len(l))
		for _, e := range l {
			fmt.Fprintf(&sb, " %s=%d", e.k, e.v)
		}
		passes = append(passes, sb.String())
		if st <= -2 && len(full) > -(st+2) { // the inner pass ran: it yields everything, and so does the outer one
			passes = append(passes, sb.String())
		}
	}
	return tag + " " + strings.Join(passes, " | ")
}

func isNaNKey(k okey) bool { return k.txt == "nan" }
func isZeroF(k okey) bool  { return k.f == 0 && !isNaNKey(k) }

// expect predicts the output line of a command (toks[0] is the tag, toks[1] the tree id).
func (o *oracle) expect(toks []string) string {
	tag := toks[0]
	switch tag {
	case "I":
		k := o.parse(toks[2])
		v, _ := strconv.Atoi(toks[3])
		o.m[k.txt] = v
		o.keys[k.txt] = k
		return "I"
	case "S":
		k := o.parse(toks[2])
		if v, ok := o.m[k.txt]; ok {
			return fmt.Sprintf("S %d", v)
		}
		return "S absent"
	case "D":
		k := o.parse(toks[2])
		_, ok := o.m[k.txt]
		delete(o.m, k.txt)
		delete(o.keys, k.txt)
		return fmt.Sprintf("D %v", ok)
	case "SIZE":
		return fmt.Sprintf("SIZE %d", len(o.m))
	case "MIN", "MAX":
		ks := o.sorted()
		if len(ks) == 0 {
			return tag + " none"
		}
		k := ks[0]
		if tag == "MAX" {
			k = ks[len(ks)-1]
		}
		return fmt.Sprintf("%s %s %d", tag, k.txt, o.m[k.txt])
	case "ALL":
		return fmtSeq(tag, o.kvs(o.sorted()), parseStops(toks[2]))
	case "BWD":
		ks := o.sorted()
		for i, j := 0, len(ks)-1; i < j; i, j = i+1, j-1 {
			ks[i], ks[j] = ks[j], ks[i]
		}
		return fmtSeq(tag, o.kvs(ks), parseStops(toks[2]))
	case "TOPK", "BOTK":
		n := parseU(toks[2])
		ks := o.sorted()
		if tag == "TOPK" {
			for i, j := 0, len(ks)-1; i < j; i, j = i+1, j-1 {
				ks[i], ks[j] = ks[j], ks[i]
			}
		}
		if n < uint64(len(ks)) {
			ks = ks[:n]
		}
		return fmtSeq(tag, o.kvs(ks), parseStops(toks[3]))
	case "RNG":
		if o.kind == "coll" {
			return "*"
		}
		a, b := o.parse(toks[2]), o.parse(toks[3])
		ks := o.sorted()
		if o.kind == "raw" && (len(a.b) == 0 || len(b.b) == 0) {
			// a bound with an empty encoding is outside every prefix-free codec: only "an empty tree yields nothing" is required
			if len(ks) == 0 {
				return fmtSeq(tag, nil, parseStops(toks[4]))
			}
			return "*"
		}
		if o.kind == "alpha" && len(b.b) == 0 {
			if len(ks) == 0 {
				return fmtSeq(tag, nil, parseStops(toks[4]))
			}
			b = ks[len(ks)-1]
			if o.cmp(a, b) > 0 {
				return "*" // empty end bound with a start above the maximum
			}
		}
		if o.cmp(a, b) > 0 {
			a, b = b, a
		}
		var sel []okey
		for _, k := range ks {
			if o.cmp(a, k) <= 0 && o.cmp(k, b) <= 0 {
				sel = append(sel, k)
			}
		}
		return fmtSeq(tag, o.kvs(sel), parseStops(toks[4]))
	case "PFX":
		if o.kind != "alpha" && o.kind != "coll" {
			return tag + " PANIC"
		}
		p := o.parse(toks[2])
		var sel []okey
		for _, k := range o.sorted() {
			if bytes.HasPrefix(k.b, p.b) {
				sel = append(sel, k)
			}
		}
		return fmtSeq(tag, o.kvs(sel), parseStops(toks[3]))
	}
	return "*"
}
