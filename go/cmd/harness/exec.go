package main

// Command interpreter: executes a command file against the implementation built
// from /repo (tag verif), writes one result line per command, and — in the same
// pass — the property oracle's expected line and the side checks (structural
// digest before/after read-only calls, caller-buffer integrity).

import (
	"bufio"
	"bytes"
	"encoding/hex"
	"fmt"
	"iter"
	"os"
	"regexp"
	"runtime"
	"strconv"
	"strings"

	art "github.com/Clement-Jean/go-art"
)

type execOpts struct {
	digest   bool // C15: dump before/after read-only and no-op calls
	bufMode  bool // C13: []byte keys are sub-slices of sentinel-filled reused buffers
	gcEvery  int  // C18: runtime.GC() every n commands (0 = never)
	noOracle bool
}

type kv struct {
	k string
	v int
}

type sideViolation struct {
	line int
	prop string
	msg  string
}

// ---- C13 buffers ---------------------------------------------------------------

const sentinel = 0xA5

type bufCheck struct {
	buf       []byte
	orig      []byte
	zeroAfter bool
}

var (
	bufOn      bool
	bufPool    [2][]byte
	bufTurn    int
	bufPending []bufCheck
	bufCount   int
)

func bufKey(b []byte) []byte {
	if !bufOn {
		return b
	}
	n := len(b)
	need := 8 + n + 24
	i := bufTurn % 2
	bufTurn++
	if cap(bufPool[i]) < need {
		bufPool[i] = make([]byte, need*2)
	}
	buf := bufPool[i][:cap(bufPool[i])]
	for j := range buf {
		buf[j] = sentinel
	}
	copy(buf[8:], b)
	bufPending = append(bufPending, bufCheck{buf: buf, orig: append([]byte{}, b...)})
	bufCount++
	if bufCount%3 == 0 {
		return buf[8 : 8+n : 8+n] // exactly full
	}
	if bufCount%4 == 1 {
		// the byte right after the key is already 0x00 (a scratch buffer made with make([]byte, 0, N)):
		// a terminator that "is already there" must still not make the tree keep this array
		buf[8+n] = 0
		bufPending[len(bufPending)-1].zeroAfter = true
	}
	return buf[8 : 8+n] // spare capacity holds live caller data
}

// bufScribble: the call that received the pending key buffers has RETURNED (a lazy sequence value was handed back):
// the buffers are checked now and then overwritten, as a caller reusing its buffer does; what the sequence
// yields afterwards must not depend on them
func bufScribble() {
	if !bufOn {
		return
	}
	pend := append([]bufCheck{}, bufPending...)
	if msg := bufVerify(); msg != "" && bufEarly == "" {
		bufEarly = msg
	}
	for _, c := range pend {
		for j := range c.buf {
			c.buf[j] = 0xEE
		}
	}
}

var bufEarly string

func bufVerify() string {
	defer func() { bufPending = bufPending[:0] }()
	if bufEarly != "" {
		m := bufEarly
		bufEarly = ""
		return m
	}
	for _, c := range bufPending {
		n := len(c.orig)
		for j := 0; j < 8; j++ {
			if c.buf[j] != sentinel {
				return fmt.Sprintf("byte %d before the key overwritten", j)
			}
		}
		if !bytes.Equal(c.buf[8:8+n], c.orig) {
			return fmt.Sprintf("key bytes changed: %x -> %x", c.orig, c.buf[8:8+n])
		}
		for j := 8 + n; j < len(c.buf); j++ {
			if j == 8+n && c.zeroAfter {
				if c.buf[j] != 0 {
					return fmt.Sprintf("byte 0 beyond len (was 0x00) overwritten with %#x after key %x", c.buf[j], c.orig)
				}
				continue
			}
			if c.buf[j] != sentinel {
				return fmt.Sprintf("byte %d beyond len (spare capacity) overwritten with %#x after key %x", j-8-n, c.buf[j], c.orig)
			}
		}
	}
	return ""
}

// ---- sequences -------------------------------------------------------------------

func runPasses(s iter.Seq2[string, int], stops []int, between func()) string {
	var passes []string
	for _, stop := range stops {
		if between != nil {
			between() // read-only calls between creating the sequence and ranging over it, and between passes
		}
		calls := 0
		stopped := false
		after := false
		var sb strings.Builder
		inner := ""
		s(func(k string, v int) bool {
			if stopped {
				after = true
				return false
			}
			fmt.Fprintf(&sb, " %s=%d", k, v)
			calls++
			if stop <= -2 && calls-1 == -(stop+2) {
				// nested: the same sequence value ranged over completely from inside its own loop body
				ic := 0
				var isb strings.Builder
				s(func(k2 string, v2 int) bool {
					fmt.Fprintf(&isb, " %s=%d", k2, v2)
					ic++
					return ic < 1<<20
				})
				inner = strconv.Itoa(ic) + isb.String()
			}
			if calls >= 1<<20 {
				return false
			}
			if stop >= 0 && calls-1 == stop {
				stopped = true
				return false
			}
			return true
		})
		p := strconv.Itoa(calls) + sb.String()
		if after {
			p += " AFTERSTOP"
		}
		passes = append(passes, p)
		if inner != "" {
			passes = append(passes, inner)
		}
	}
	return strings.Join(passes, " | ")
}

var leafValRe = regexp.MustCompile(`L\(([0-9a-f]*),([0-9a-f]*),-?\d+\)`)

func stripValues(d string) string { return leafValRe.ReplaceAllString(d, "L($1,$2)") }

// ---- interpreter --------------------------------------------------------------------

type session struct {
	trees      map[string]treeDrv
	oracles    map[string]*oracle
	nodes      map[string]*art.VerifNode
	opts       execOpts
	side       []sideViolation
	panics     []string
	wasPresent bool // the key of the current Insert was stored before the call (per the oracle)
	curLine    int  // line number of the command being executed
}

func newSession(o execOpts) *session {
	return &session{trees: map[string]treeDrv{}, oracles: map[string]*oracle{}, nodes: map[string]*art.VerifNode{}, opts: o}
}

func hexU32(s string) uint32 { n, _ := strconv.ParseUint(s, 16, 64); return uint32(n) }
func hexB(s string) byte     { n, _ := strconv.ParseUint(s, 16, 64); return byte(n) }
func hexI(s string) int      { n, _ := strconv.ParseUint(s, 16, 64); return int(n) }

func (se *session) do(toks []string, lineNo int) (res string) {
	tag := toks[0]
	se.curLine = lineNo
	defer func() {
		if r := recover(); r != nil {
			se.panics = append(se.panics, fmt.Sprintf("line %d %s: %v", lineNo, strings.Join(toks, " "), r))
			res = tag + " PANIC"
			// the call is over (by a panic): the key buffers it was given are checked now, like after a normal
			// return — left pending they would be refilled by the next commands and reported as "changed"
			if bufOn {
				if msg := bufVerify(); msg != "" {
					se.side = append(se.side, sideViolation{lineNo, "C13", msg + " in " + strings.Join(toks, " ") + " (which panicked)"})
				}
			}
		}
	}()
	switch tag {
	case "NEW":
		se.trees[toks[1]] = newTree(toks[2], toks[3])
		se.oracles[toks[1]] = newOracle(toks[2], toks[3])
		return "NEW"
	case "I", "S", "D", "MIN", "MAX", "SIZE", "ALL", "BWD", "TOPK", "BOTK", "RNG", "PFX", "DUMP":
		t := se.trees[toks[1]]
		if t == nil {
			panic("unknown tree " + toks[1])
		}
		var before string
		if se.opts.digest && tag != "DUMP" {
			before = t.Dump()
		}
		out := se.treeOp(t, toks)
		if se.opts.digest && tag != "DUMP" {
			after := t.Dump()
			switch {
			case tag == "I":
				if se.wasPresent && stripValues(before) != stripValues(after) {
					se.side = append(se.side, sideViolation{lineNo, "C15", "Insert of a present key changed more than the value: " + strings.Join(toks, " ")})
				}
			case tag == "D" && out == "D true":
			default:
				if before != after {
					se.side = append(se.side, sideViolation{lineNo, "C15", "tree changed by " + strings.Join(toks, " ")})
				}
			}
		}
		for _, m := range t.TakeAlias() {
			// "keys are returned in their original form / through the codec's own decoding": C08 for collation trees,
			// C09 for compound trees, C02 for the others
			lbl := "C02"
			if o := se.oracles[toks[1]]; o != nil {
				switch {
				case o.kind == "coll":
					lbl = "C08"
				case o.kind == "raw" || strings.HasPrefix(o.kind, "comp:"):
					lbl = "C09"
				}
			}
			se.side = append(se.side, sideViolation{lineNo, lbl, "a returned key does not stay as returned: " + m + " in " + strings.Join(toks, " ")})
		}
		if bufOn {
			if msg := bufVerify(); msg != "" {
				se.side = append(se.side, sideViolation{lineNo, "C13", msg + " in " + strings.Join(toks, " ")})
			}
		}
		return out
	// codecs
	case "ENC":
		return se.enc(toks[1], toks[2], toks[3])
	// node4 / node16 primitives
	case "N4S":
		return fmt.Sprintf("N4S %d", art.VerifSearchNode4(hexU32(toks[1]), hexB(toks[2])))
	case "N4I":
		return fmt.Sprintf("N4I %d", art.VerifInsertPosNode4(hexU32(toks[1]), hexB(toks[2])))
	case "N4G":
		return fmt.Sprintf("N4G %x", art.VerifGetAtPos(hexU32(toks[1]), hexI(toks[2])))
	case "N4P":
		return fmt.Sprintf("N4P %x", art.VerifSetAtPos(hexU32(toks[1]), hexI(toks[2]), hexB(toks[3])))
	case "N4L":
		return fmt.Sprintf("N4L %x", art.VerifShiftLeftClear(hexU32(toks[1]), hexI(toks[2])))
	case "N4R":
		return fmt.Sprintf("N4R %x", art.VerifShiftRightClear(hexU32(toks[1]), hexI(toks[2])))
	case "N4C":
		return fmt.Sprintf("N4C %x", art.VerifConstruct(hexB(toks[1]), hexB(toks[2]), hexB(toks[3]), hexB(toks[4])))
	case "N4D":
		return fmt.Sprintf("N4D %x", art.VerifDeconstruct(hexU32(toks[1])))
	case "N16S", "N16I":
		var keys [16]byte
		kb, _ := hex.DecodeString(toks[1])
		copy(keys[:], kb)
		if tag == "N16S" {
			return fmt.Sprintf("N16S %d", art.VerifSearchNode16(&keys, uint8(hexI(toks[2])), hexB(toks[3])))
		}
		return fmt.Sprintf("N16I %d", art.VerifInsertPosNode16(&keys, uint8(hexI(toks[2])), hexB(toks[3])))
	case "NNEW":
		se.nodes[toks[1]] = art.NewVerifNode()
		return "NNEW"
	case "NADD":
		id, _ := strconv.Atoi(toks[3])
		se.nodes[toks[1]].Add(hexB(toks[2]), id)
		return "NADD"
	case "NDEL":
		se.nodes[toks[1]].Del(hexB(toks[2]))
		return "NDEL"
	case "NFIND":
		if id, ok := se.nodes[toks[1]].Find(hexB(toks[2])); ok {
			return fmt.Sprintf("NFIND %d", id)
		}
		return "NFIND none"
	case "NPROBE":
		var sb strings.Builder
		sb.WriteString("NPROBE")
		for b := 0; b < 256; b++ {
			if id, ok := se.nodes[toks[1]].Find(byte(b)); ok {
				fmt.Fprintf(&sb, " %x:%d", b, id)
			}
		}
		return sb.String()
	case "NENUM":
		var sb strings.Builder
		sb.WriteString("NENUM")
		for _, id := range se.nodes[toks[1]].Enum() {
			fmt.Fprintf(&sb, " %d", id)
		}
		return sb.String()
	case "NDUMP":
		return "NDUMP " + se.nodes[toks[1]].Dump()
	case "NRAW":
		return "NRAW " + se.nodes[toks[1]].RawDump()
	}
	panic("bad command " + strings.Join(toks, " "))
}

func (se *session) treeOp(t treeDrv, toks []string) string {
	tag := toks[0]
	switch tag {
	case "I":
		v, _ := strconv.Atoi(toks[3])
		t.Insert(toks[2], v)
		return "I"
	case "S":
		if v, ok := t.Search(toks[2]); ok {
			return fmt.Sprintf("S %d", v)
		}
		return "S absent"
	case "D":
		return fmt.Sprintf("D %v", t.Delete(toks[2]))
	case "MIN":
		if k, v, ok := t.Min(); ok {
			return fmt.Sprintf("MIN %s %d", k, v)
		}
		return "MIN none"
	case "MAX":
		if k, v, ok := t.Max(); ok {
			return fmt.Sprintf("MAX %s %d", k, v)
		}
		return "MAX none"
	case "SIZE":
		return fmt.Sprintf("SIZE %d", t.Size())
	case "DUMP":
		return t.Dump()
	}
	// sequence methods: all arguments but the last are method arguments, the last is the stop list
	args := toks[2 : len(toks)-1]
	stops := parseStops(toks[len(toks)-1])
	seq := t.Seq(tag, args)
	// queries issued while a sequence value is alive must not change what it yields (they share the tree, the
	// codec's scratch buffers, whatever the sequence captured)
	between := func() {
		// (with fresh key slices: the two reused key buffers of the -buf mode still belong to the sequence's own
		// arguments, which were overwritten when the call returned and must stay overwritten)
		if bufOn { // (only ever true in the single-threaded exec mode: the race leg never writes this variable)
			bufOn = false
			defer func() { bufOn = true }()
		}
		if (tag == "RNG" || tag == "PFX") && len(args) > 0 {
			t.Search(args[0])
			t.Search(args[len(args)-1]) // last: whatever scratch storage the codec has now holds ANOTHER key than the start bound's
		} else {
			t.Min()
		}
		t.Size()
	}
	return tag + " " + runPasses(seq, stops, between)
}

// ENC kind variant key: Transform, then Restore of what Transform produced
func (se *session) enc(kind, variant, key string) string {
	enc, dec := codecRoundTrip(kind, variant, key)
	return fmt.Sprintf("ENC %x %s", enc, dec)
}

func execFile(cmdPath, outPath, expPath, sidePath string, opts execOpts) error {
	in, err := os.Open(cmdPath)
	if err != nil {
		return err
	}
	defer in.Close()
	out, err := os.Create(outPath)
	if err != nil {
		return err
	}
	defer out.Close()
	w := bufio.NewWriterSize(out, 1<<20)
	defer w.Flush()
	var ew *bufio.Writer
	if expPath != "" {
		ef, err := os.Create(expPath)
		if err != nil {
			return err
		}
		defer ef.Close()
		ew = bufio.NewWriterSize(ef, 1<<20)
		defer ew.Flush()
	}
	bufOn = opts.bufMode
	se := newSession(opts)
	sc := bufio.NewScanner(in)
	sc.Buffer(make([]byte, 1<<20), 1<<26)
	lineNo := 0
	nCmd := 0
	for sc.Scan() {
		lineNo++
		line := sc.Text()
		toks := strings.Fields(line)
		if len(toks) == 0 || strings.HasPrefix(toks[0], "#") {
			continue
		}
		nCmd++
		if opts.gcEvery > 0 && nCmd%opts.gcEvery == 0 {
			runtime.GC()
		}
		// the oracle predicts first (it must see the state before the command)
		se.wasPresent = false
		if len(toks) > 1 {
			if o := se.oracles[toks[1]]; o != nil {
				if toks[0] == "I" {
					_, se.wasPresent = o.m[o.parse(toks[2]).txt]
				}
				exp := o.expect(toks)
				if ew != nil {
					fmt.Fprintln(ew, exp)
				}
			} else if ew != nil {
				fmt.Fprintln(ew, "*")
			}
		} else if ew != nil {
			fmt.Fprintln(ew, "*")
		}
		fmt.Fprintln(w, se.do(toks, lineNo))
	}
	if sidePath != "" {
		sf, err := os.Create(sidePath)
		if err != nil {
			return err
		}
		defer sf.Close()
		for _, v := range se.side {
			fmt.Fprintf(sf, "SIDE %s line=%d %s\n", v.prop, v.line, v.msg)
		}
		for _, p := range se.panics {
			fmt.Fprintf(sf, "PANIC %s\n", p)
		}
	}
	return sc.Err()
}
