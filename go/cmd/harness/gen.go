package main

// Generators of command files. Every random choice derives from one splitmix64
// state seeded from (seed, family, file index), so a file can be regenerated
// exactly from its name. Structured, mostly valid inputs; the malformed stream
// (byte-string keys containing 0x00) is a separate family.

import (
	"bufio"
	"encoding/json"
	"fmt"
	"hash/fnv"
	"math"
	"math/bits"
	"os"
	"path/filepath"
	"runtime/debug"
	"sort"
	"strconv"
	"strings"

	"golang.org/x/text/collate"
)

type rng struct{ s uint64 }

func (r *rng) next() uint64 {
	r.s += 0x9E3779B97F4A7C15
	z := r.s
	z = (z ^ (z >> 30)) * 0xBF58476D1CE4E5B9
	z = (z ^ (z >> 27)) * 0x94D049BB133111EB
	return z ^ (z >> 31)
}
func (r *rng) n(k int) int        { return int(r.next() % uint64(k)) }
func (r *rng) chance(p int) bool  { return r.n(100) < p }
func pick[T any](r *rng, l []T) T { return l[r.n(len(l))] }

func seedFor(seed uint64, family string, idx int) uint64 {
	h := fnv.New64a()
	fmt.Fprintf(h, "%d/%s/%d", seed, family, idx)
	return h.Sum64()
}

type stats struct {
	Ops       map[string]int `json:"ops"`
	KeyLens   map[string]int `json:"key_lengths"`
	Histories int            `json:"histories"`
	Kinds     map[string]int `json:"kinds"`
	Skipped   map[string]int `json:"skipped"`
	// family closure: per universe, the size of the explored state space (gen_closure.go)
	Closure map[string]map[string]any `json:"closure,omitempty"`
}

func newStats() *stats {
	return &stats{Ops: map[string]int{}, KeyLens: map[string]int{}, Kinds: map[string]int{}, Skipped: map[string]int{}}
}

type gen struct {
	r        *rng
	w        *bufio.Writer
	st       *stats
	longColl string // non-empty: every collation string of the history starts with this very long stem
	drain    bool   // after the main phases: delete every pool key, look at the empty tree, start over
	wideColl bool   // collation pool of stem+ideograph strings (wide nodes)
	collStem string
}

func (g *gen) emit(format string, a ...any) {
	line := fmt.Sprintf(format, a...)
	g.st.Ops[strings.Fields(line)[0]]++
	g.w.WriteString(line)
	g.w.WriteByte('\n')
}

// ---- key pools --------------------------------------------------------------------

var boundaryBytes = []byte{0x01, 0x02, 'a', 'b', 'c', 0x7e, 0x7f, 0x80, 0x81, 0xfe, 0xff}

// stems sit on the inline compressed-path limit (10) and around it
var stemLens = []int{0, 1, 2, 3, 8, 9, 10, 11, 12, 20, 25}

func (g *gen) alphaPool(n int) [][]byte {
	r := g.r
	var stems [][]byte
	nst := 2 + r.n(4)
	long := r.chance(8) // keys of 64 bytes and more
	for i := 0; i < nst; i++ {
		l := pick(r, stemLens)
		if long {
			l = pick(r, []int{63, 64, 65, 100, 130, 255, 256, 300}) // (compressed paths beyond one byte of length too)
		}
		s := make([]byte, l)
		base := pick(r, boundaryBytes)
		for j := range s {
			if r.chance(85) {
				s[j] = base
			} else {
				s[j] = pick(r, boundaryBytes)
			}
		}
		if i > 0 && r.chance(50) { // share a long prefix with an earlier stem, then diverge
			p := stems[r.n(len(stems))]
			if len(p) > 0 {
				cut := r.n(len(p) + 1)
				s = append(append([]byte{}, p[:cut]...), s...)
			}
		}
		stems = append(stems, s)
	}
	seen := map[string]bool{}
	var pool [][]byte
	for len(pool) < n {
		k := append([]byte{}, pick(r, stems)...)
		switch r.n(10) {
		case 0: // the stem itself (child under the terminator byte)
		case 1, 2, 3: // one branching byte: wide fan-out under the stem
			k = append(k, byte(1+r.n(255)))
		case 4, 5:
			k = append(k, pick(r, boundaryBytes), pick(r, boundaryBytes))
		default:
			l := 1 + r.n(4)
			for j := 0; j < l; j++ {
				if r.chance(70) {
					k = append(k, pick(r, boundaryBytes))
				} else {
					k = append(k, byte(1+r.n(255)))
				}
			}
		}
		if !seen[string(k)] {
			seen[string(k)] = true
			pool = append(pool, k)
		}
		if len(seen) > 4*n {
			break
		}
	}
	return pool
}

// a probe that is NOT necessarily in the pool: shorter than, diverging inside, or longer than stored keys
func (g *gen) alphaProbe(pool [][]byte) []byte {
	r := g.r
	k := append([]byte{}, pick(r, pool)...)
	switch r.n(8) {
	case 0, 1, 2:
		return k
	case 3:
		if len(k) > 0 {
			return k[:r.n(len(k))]
		}
	case 4:
		if len(k) > 0 {
			i := r.n(len(k))
			k[i] = pick(r, boundaryBytes)
			return k[:i+1]
		}
	case 5:
		if len(k) > 0 {
			k[r.n(len(k))] = byte(1 + r.n(255))
		}
	case 6:
		return append(k, pick(r, boundaryBytes))
	default:
		if len(k) > 12 {
			if r.chance(50) {
				k[10+r.n(len(k)-11)] ^= byte(1 + r.n(3))
				return k
			}
			return k[:11+r.n(len(k)-11)]
		}
	}
	return k
}

func numBoundaries(w int, signed bool) []uint64 {
	var out []uint64
	mask := uint64(math.MaxUint64)
	if w < 8 {
		mask = (uint64(1) << (8 * uint(w))) - 1
	}
	for _, sh := range []uint{0, 7, 8, 15, 16, 31, 32, 63} {
		if sh >= 8*uint(w) {
			continue
		}
		p := uint64(1) << sh
		out = append(out, (p-1)&mask, p&mask, (p+1)&mask, (-p)&mask, (-p-1)&mask, (-p+1)&mask)
	}
	out = append(out, 0, 1, mask, mask-1, mask>>1, (mask>>1)+1)
	return out
}

var floatSpecials64 = []uint64{
	0, 0x8000000000000000, 0x7FF0000000000000, 0xFFF0000000000000, // +-0 +-Inf
	0x7FF8000000000001, 0x7FF0000000000001, 0xFFF8000000000000, 0xFFFFFFFFFFFFFFFF, 0x7FFFFFFFFFFFFFFF, // NaNs
	1, 0x8000000000000001, 0x000FFFFFFFFFFFFF, 0x0010000000000000, 0x8010000000000000, // subnormals, min normal
	0x7FEFFFFFFFFFFFFF, 0xFFEFFFFFFFFFFFFF, 0x3FF0000000000000, 0xBFF0000000000000, 0x4000000000000000, 0xBFF8000000000000,
}
var floatSpecials32 = []uint64{
	0, 0x80000000, 0x7F800000, 0xFF800000, 0x7FC00000, 0x7F800001, 0xFFC00000, 0xFFFFFFFF, 0x7FFFFFFF,
	1, 0x80000001, 0x007FFFFF, 0x00800000, 0x80800000, 0x7F7FFFFF, 0xFF7FFFFF, 0x3F800000, 0xBF800000, 0x40000000, 0xBFC00000,
}

// numeric key text for a kind like u4 / s8 / f4
func (g *gen) numKey(kind string) string {
	r := g.r
	w, _ := strconv.Atoi(kind[1:])
	mask := uint64(math.MaxUint64)
	if w < 8 {
		mask = (uint64(1) << (8 * uint(w))) - 1
	}
	var v uint64
	switch kind[0] {
	case 'f':
		sp := floatSpecials64
		if w == 4 {
			sp = floatSpecials32
		}
		switch r.n(4) {
		case 0:
			v = pick(r, sp)
		case 1: // adjacent bit patterns of a special
			v = (pick(r, sp) + uint64(r.n(5)) - 2) & mask
		case 2: // small dense neighbourhood: shared long prefixes
			v = (pick(r, sp[:4]) ^ uint64(r.n(1<<10))) & mask
		default:
			v = r.next() & mask
		}
		return showU(v)
	default:
		switch r.n(4) {
		case 0:
			v = pick(r, numBoundaries(w, kind[0] == 's'))
		case 1: // dense low bytes: wide fan-out at the last levels
			v = (pick(r, numBoundaries(w, false)) &^ 0xFFFF) | uint64(r.n(1<<16))
			v &= mask
		case 2:
			v = uint64(r.n(700))
		default:
			v = r.next() & mask
		}
		v &= mask
		if kind[0] == 's' {
			// sign-extend from w bytes
			sh := 64 - 8*uint(w)
			return showS(int64(v<<sh) >> sh)
		}
		return showU(v)
	}
}

var collParts = []string{
	"a", "A", "á", "ä", "å", "b", "B", "c", "ç", "d", "e", "é", "E", "o", "ö", "ø", "z", "Z", "ß", "ss",
	"1", "2", "9", "10", "11", "100", "007", "α", "β", "Ω", "ж", "я", "日", "本", "語", "résumé", "resume", "Resume",
	"cote", "côte", "coté", "côté", "strasse", "straße", "über", "uber", "zebra", "Zebra", "aaaaaaaaaaaaaaaa", "ååååååå",
	// runes a hand-written decoder gets wrong: the (validly encoded) replacement character, a 4-byte rune, the largest rune
	"\uFFFD", "x\uFFFD", "\U0001F600", "\U0010FFFF", "\u07FF\u0800",
}

func (g *gen) collString() string {
	r := g.r
	if g.longColl != "" { // ~850 letters and a short tail: sort keys longer than 4096 bytes that differ near their end
		return g.longColl + pick(r, []string{"", "e", "é", "E", "x", "ee", "Z", "é́"})
	}
	if g.wideColl { // one stem followed by one ideograph: up to 256 children under one sort-key byte
		// ... sometimes followed by a letter in several case/accent variants: inner nodes BELOW the wide node
		return g.collStem + string(rune(0x4E00+r.n(600))) + pick(r, []string{"", "", "e", "é", "E", "ee"})
	}
	n := 1 + r.n(3)
	var sb strings.Builder
	for i := 0; i < n; i++ {
		sb.WriteString(pick(r, collParts))
	}
	return sb.String()
}

// collation key text "x<orig>:x<sortkey>", with the sort key computed by the real collator
func collKeyText(c *collate.Collator, buf *collate.Buffer, s string) (string, []byte) {
	buf.Reset()
	k := append([]byte{}, c.KeyFromString(buf, s)...)
	return xhex([]byte(s)) + ":" + xhex(k), k
}

// collPool returns key texts whose (orig, sortkey) pairs are functional,
// injective and prefix-free; the rejected candidates are counted.
func (g *gen) collPool(colName string, n int) []string {
	c := collatorByName(colName)
	buf := &collate.Buffer{}
	var pool []string
	var sk [][]byte
	seen := map[string]bool{}
	for tries := 0; len(pool) < n && tries < 20*n; tries++ {
		s := g.collString()
		if seen[s] {
			continue
		}
		seen[s] = true
		txt, k := collKeyText(c, buf, s)
		ok := true
		for _, o := range sk {
			m := min(len(o), len(k))
			if string(o[:m]) == string(k[:m]) { // equal, or one a prefix of the other
				ok = false
				break
			}
		}
		if !ok {
			g.st.Skipped["collation pair not distinguishable/prefix-free"]++
			continue
		}
		g.st.Skipped["collation pair accepted"]++
		pool = append(pool, txt)
		sk = append(sk, k)
	}
	return pool
}

// ---- compound schemas -----------------------------------------------------------------

func (g *gen) schema() string {
	r := g.r
	n := 1 + r.n(4)
	var fs []string
	for i := 0; i < n; i++ {
		if i == n-1 && r.chance(40) {
			fs = append(fs, "str")
			break
		}
		switch r.n(3) {
		case 0:
			fs = append(fs, "u"+pick(r, []string{"1", "2", "4", "8"}))
		case 1:
			fs = append(fs, "s"+pick(r, []string{"1", "2", "4", "8"}))
		default:
			fs = append(fs, "f"+pick(r, []string{"4", "8"}))
		}
	}
	return strings.Join(fs, ",")
}

func (g *gen) tupleKey(schema string, strs [][]byte) string {
	var parts []string
	for _, f := range strings.Split(schema, ",") {
		if f == "str" {
			parts = append(parts, xhex(pick(g.r, strs)))
			continue
		}
		k := g.numKey(f)
		if g.r.chance(60) { // few distinct values in leading fields, so later fields decide
			k = g.numKeySmall(f)
		}
		parts = append(parts, k)
	}
	return strings.Join(parts, ",")
}

func (g *gen) numKeySmall(kind string) string {
	switch kind[0] {
	case 'u':
		return showU(uint64(g.r.n(3)))
	case 's':
		return showS(int64(g.r.n(3)) - 1)
	}
	w, _ := strconv.Atoi(kind[1:])
	sp := floatSpecials64
	if w == 4 {
		sp = floatSpecials32
	}
	return showU(sp[g.r.n(4)])
}

// ---- histories ---------------------------------------------------------------------------

type kindSpec struct{ kind, variant string }

func allKinds() []kindSpec {
	uw, sw := fmt.Sprintf("u%d", bits.UintSize/8), fmt.Sprintf("s%d", bits.UintSize/8)
	return []kindSpec{
		{"alpha", "string"}, {"alpha", "bytes"},
		{"u1", "uint8"}, {"u2", "uint16"}, {"u4", "uint32"}, {"u8", "uint64"}, {uw, "uint"},
		{"s1", "int8"}, {"s2", "int16"}, {"s4", "int32"}, {"s8", "int64"}, {sw, "int"},
		{"f4", "float32"}, {"f8", "float64"},
		{"coll", "string:root"}, {"coll", "string:de"}, {"coll", "string:sv"}, {"coll", "string:ennum"},
		{"coll", "bytes:root"}, {"coll", "bytes:de"}, {"coll", "runes:root"},
		{"comp", ""},
		{"raw", ""}, {"raw", "bytes"},
	}
}

type profile struct {
	// weights of op classes
	ins, del, srch, size, minmax, iter, bounded, rng, pfx int
	dumpEvery                                             int // 0 = only at the end
	multipass                                             bool
}

var profiles = map[string]profile{
	"map":      {ins: 40, del: 25, srch: 30, size: 5, dumpEvery: 0},
	"iter":     {ins: 35, del: 20, srch: 5, iter: 25, size: 5, minmax: 5, dumpEvery: 0},
	"range":    {ins: 30, del: 12, rng: 50, size: 2, dumpEvery: 0},
	"prefix":   {ins: 30, del: 12, pfx: 50, size: 2, dumpEvery: 0},
	"extremes": {ins: 30, del: 25, minmax: 20, bounded: 20, size: 5, dumpEvery: 0},
	"size":     {ins: 40, del: 30, srch: 5, size: 25, iter: 3, dumpEvery: 0},
	"shape":    {ins: 45, del: 35, srch: 5, size: 5, dumpEvery: 1},
	"seqs":     {ins: 30, del: 10, iter: 15, bounded: 15, rng: 15, pfx: 15, multipass: true},
	"pure":     {ins: 20, del: 15, srch: 15, size: 5, minmax: 10, iter: 10, bounded: 5, rng: 10, pfx: 10},
	"full":     {ins: 30, del: 18, srch: 12, size: 4, minmax: 6, iter: 8, bounded: 6, rng: 8, pfx: 8, dumpEvery: 0},
}

func (g *gen) stops(p profile, approxLen int) string {
	r := g.r
	one := func() string {
		switch r.n(4) {
		case 0:
			return "-"
		case 1:
			return "0"
		default:
			return strconv.Itoa(r.n(approxLen + 2))
		}
	}
	if !p.multipass && !r.chance(20) { // every profile ranges a few sequence values more than once
		if r.chance(70) {
			return "-"
		}
		return one()
	}
	n := 1 + r.n(3)
	var ss []string
	for i := 0; i < n; i++ {
		if r.chance(12) { // nested: the sequence value ranged over again from inside its own loop body
			ss = append(ss, "n"+strconv.Itoa(r.n(3)))
		} else {
			ss = append(ss, one())
		}
	}
	return strings.Join(ss, "/")
}

// history writes one history on a fresh tree
func (g *gen) history(tid string, ks kindSpec, prof string, nops int) {
	r := g.r
	p := profiles[prof]
	kind := ks.kind
	if kind == "comp" {
		kind = "comp:" + g.schema()
	}
	g.st.Kinds[kind+" "+ks.variant]++
	g.st.Histories++
	g.emit("NEW %s %s %s", tid, kind, orDash(ks.variant))

	// key pool and probe function
	poolN := 6 + r.n(60)
	if r.chance(15) {
		poolN = 260 + r.n(100) // wide enough to reach node256 and come back
	}
	var pool []string
	var probe func() string
	switch {
	case kind == "alpha":
		bp := g.alphaPool(poolN)
		for _, k := range bp {
			pool = append(pool, xhex(k))
		}
		probe = func() string { return xhex(g.alphaProbe(bp)) }
	case kind == "coll":
		if r.chance(35) {
			g.wideColl, g.collStem = true, pick(r, []string{"", "a", "日本", "zebra"})
			poolN = 60 + r.n(240)
			if nops < 3*poolN { // long enough to fill the wide nodes
				nops = 3 * poolN
			}
			defer func() { g.wideColl = false }()
		}
		if !g.wideColl && r.chance(5) {
			g.longColl = strings.Repeat(pick(r, []string{"resume", "Straße", "ab"}), 1)
			for len(g.longColl) < 840 {
				g.longColl += pick(r, []string{"resume", "cote", "ab", "zz"})
			}
			poolN = 6
			nops = 40
			defer func() { g.longColl = "" }()
		}
		col := strings.SplitN(ks.variant, ":", 2)[1]
		if strings.HasPrefix(ks.variant, "runes") {
			col = "root"
		}
		pool = g.collPool(col, min(poolN, 300))
		c := collatorByName(col)
		buf := &collate.Buffer{}
		probe = func() string {
			if r.chance(70) {
				return pick(r, pool)
			}
			if r.chance(40) {
				o := string(xbytes(collOrig(pick(r, pool))))
				t, _ := collKeyText(c, buf, collEquivalent(g, o))
				return t
			}
			if r.chance(40) { // a proper prefix of a stored string: its sort key ends inside the compressed paths
				rs := []rune(string(xbytes(collOrig(pick(r, pool)))))
				if len(rs) > 1 {
					t, _ := collKeyText(c, buf, string(rs[:1+r.n(len(rs)-1)]))
					return t
				}
			}
			t, _ := collKeyText(c, buf, g.collString())
			return t
		}
	case kind == "raw":
		// identity codec: length-prefixed byte strings (prefix-free, ordered by length then bytes)
		bp := g.alphaPool(poolN)
		mkraw := func(b []byte) string {
			if len(b) > 255 {
				b = b[:255]
			}
			return xhex(append([]byte{byte(len(b))}, b...))
		}
		seen := map[string]bool{}
		for _, k := range bp {
			if t := mkraw(k); !seen[t] {
				seen[t] = true
				pool = append(pool, t)
			}
		}
		probe = func() string { return mkraw(g.alphaProbe(bp)) }
	case strings.HasPrefix(kind, "comp:"):
		// string fields come from one pool, so that they share long stems (compressed paths beyond the inline limit)
		strs := g.alphaPool(6 + r.n(20))
		seen := map[string]bool{}
		for i := 0; i < 4*poolN && len(pool) < poolN; i++ {
			k := g.tupleKey(kind[5:], strs)
			ck := newOracle(kind, "").parse(k).txt
			if !seen[ck] {
				seen[ck] = true
				pool = append(pool, k)
			}
		}
		probe = func() string {
			if r.chance(60) {
				return pick(r, pool)
			}
			if r.chance(40) { // a look-alike: a stored tuple with one byte of its string field changed or cut
				parts := strings.Split(pick(r, pool), ",")
				last := parts[len(parts)-1]
				if strings.HasPrefix(last, "x") && len(last) > 3 {
					b := xbytes(last)
					i := r.n(len(b))
					if r.chance(70) {
						b[i] ^= byte(1 + r.n(3))
						if b[i] == 0 {
							b[i] = 1
						}
					} else {
						b = b[:i]
					}
					parts[len(parts)-1] = xhex(b)
					return strings.Join(parts, ",")
				}
			}
			return g.tupleKey(kind[5:], strs)
		}
	default:
		seen := map[string]bool{}
		for i := 0; i < 4*poolN && len(pool) < poolN; i++ {
			k := g.numKey(kind)
			if !seen[k] {
				seen[k] = true
				pool = append(pool, k)
			}
		}
		probe = func() string {
			if r.chance(70) {
				return pick(r, pool)
			}
			return g.numKey(kind)
		}
	}
	if len(pool) == 0 {
		return
	}
	for _, k := range pool {
		g.st.KeyLens[strconv.Itoa(len(k)/2/4*4)+"+"]++
	}
	total := p.ins + p.del + p.srch + p.size + p.minmax + p.iter + p.bounded + p.rng + p.pfx
	hasPfx := kind == "alpha" || kind == "coll"
	emptyTreeQueries := func() {
		g.emit("RNG %s %s %s -", tid, probe(), probe())
		if kind == "alpha" || kind == "raw" {
			g.emit("RNG %s %s x -", tid, probe())
			g.emit("RNG %s x %s %s", tid, probe(), g.stops(p, 2))
			g.emit("RNG %s x x -", tid)
		}
		g.emit("%s %s", pick(r, []string{"MIN", "MAX"}), tid)
		g.emit("%s %s 2 -", pick(r, []string{"TOPK", "BOTK"}), tid)
	}
	if p.rng > 0 {
		emptyTreeQueries()
	}
	live := 0
	// phases: grow, churn, shrink, regrow — so that every node class is crossed both ways
	for i := 0; i < nops; i++ {
		phase := (i * 4) / nops
		x := r.n(total)
		ins, del := p.ins, p.del
		switch phase {
		case 0, 3:
			ins, del = p.ins+p.del*3/4, p.del/4
		case 2:
			ins, del = p.ins/4, p.del+p.ins*3/4
		}
		switch {
		case x < ins:
			g.emit("I %s %s %d", tid, pick(r, pool), 1+r.n(1000))
			live++
		case x < ins+del:
			if r.chance(75) {
				g.emit("D %s %s", tid, pick(r, pool))
			} else {
				g.emit("D %s %s", tid, probe())
			}
		case x < ins+del+p.srch:
			g.emit("S %s %s", tid, probe())
		case x < ins+del+p.srch+p.size:
			g.emit("SIZE %s", tid)
		case x < ins+del+p.srch+p.size+p.minmax:
			g.emit("%s %s", pick(r, []string{"MIN", "MAX"}), tid)
		case x < ins+del+p.srch+p.size+p.minmax+p.iter:
			g.emit("%s %s %s", pick(r, []string{"ALL", "BWD"}), tid, g.stops(p, len(pool)))
		case x < ins+del+p.srch+p.size+p.minmax+p.iter+p.bounded:
			n := pick(r, []uint64{0, 1, 2, 3, uint64(len(pool) / 2), uint64(len(pool)), uint64(len(pool) + 1), 1 << 40, 1 << 63, math.MaxUint64 - 1, math.MaxUint64})
			g.emit("%s %s %x %s", pick(r, []string{"TOPK", "BOTK"}), tid, n, g.stops(p, 4))
		case x < ins+del+p.srch+p.size+p.minmax+p.iter+p.bounded+p.rng:
			a, b := probe(), probe()
			if (kind == "alpha" || kind == "raw") && r.chance(10) {
				b = "x"
			}
			if kind == "coll" && r.chance(10) { // the open end of a collation Range: the empty string
				b, _ = collKeyText(collatorByName(collNameOf(ks.variant)), &collate.Buffer{}, "")
			}
			if r.chance(10) {
				b = a
			}
			g.emit("RNG %s %s %s %s", tid, a, b, g.stops(p, 6))
		default:
			if !hasPfx {
				if r.chance(3) {
					g.emit("PFX %s %s -", tid, probe())
				} else {
					g.emit("SIZE %s", tid)
				}
				continue
			}
			pk := probe()
			if kind == "alpha" {
				b := xbytes(pk)
				if len(b) > 0 && r.chance(70) {
					b = b[:r.n(len(b)+1)]
				}
				pk = xhex(b)
				if r.chance(5) {
					pk = "x"
				}
				if r.chance(8) { // a stored key continued by 0x00...: longer than the key, equal to its stored (terminated) form
					kb := append(xbytes(pick(r, pool)), 0)
					if r.chance(50) {
						kb = append(kb, pick(r, boundaryBytes), 'z')
					}
					pk = xhex(kb)
				}
			} else if r.chance(60) {
				// a prefix (in original bytes, cut at a rune boundary) of a stored collation key
				o := string(xbytes(collOrig(pick(r, pool))))
				rs := []rune(o)
				cut := string(rs[:r.n(len(rs)+1)])
				c := collatorByName(collNameOf(ks.variant))
				t, _ := collKeyText(c, &collate.Buffer{}, cut)
				pk = t
			}
			g.emit("PFX %s %s %s", tid, pk, g.stops(p, 5))
		}
		if p.dumpEvery > 0 && i%p.dumpEvery == 0 {
			g.emit("DUMP %s", tid)
		}
	}
	if g.drain {
		perm := append([]string{}, pool...)
		for i := len(perm) - 1; i > 0; i-- {
			j := r.n(i + 1)
			perm[i], perm[j] = perm[j], perm[i]
		}
		for _, k := range perm {
			g.emit("D %s %s", tid, k)
		}
		g.emit("DUMP %s", tid)
		g.emit("SIZE %s", tid)
		g.emit("MIN %s", tid)
		g.emit("MAX %s", tid)
		g.emit("ALL %s -", tid)
		g.emit("BWD %s -", tid)
		g.emit("TOPK %s 3 -", tid)
		if kind != "coll" {
			g.emit("RNG %s %s %s -", tid, pool[0], pool[len(pool)-1])
		}
		if p.rng > 0 {
			emptyTreeQueries()
		}
		g.emit("S %s %s", tid, pool[0])
		g.emit("D %s %s", tid, pool[0])
		for i := 0; i < 30; i++ {
			switch r.n(3) {
			case 0:
				g.emit("S %s %s", tid, probe())
			case 1:
				g.emit("D %s %s", tid, pick(r, pool))
			default:
				g.emit("I %s %s %d", tid, pick(r, pool), 1+r.n(1000))
			}
			g.emit("DUMP %s", tid)
		}
	}
	g.emit("SIZE %s", tid)
	g.emit("ALL %s -", tid)
	g.emit("DUMP %s", tid)
}

func collNameOf(variant string) string {
	p := strings.SplitN(variant, ":", 2)
	if p[0] == "runes" {
		return "root"
	}
	return p[1]
}

func orDash(s string) string {
	if s == "" {
		return "-"
	}
	return s
}

// ---- codec family (C07 / C09) --------------------------------------------------------------

func (g *gen) codecFile(idx int) {
	r := g.r
	type kt struct{ kind, variant string }
	uw, sw := fmt.Sprintf("u%d", bits.UintSize/8), fmt.Sprintf("s%d", bits.UintSize/8)
	types := []kt{{"u1", "uint8"}, {"u2", "uint16"}, {"u4", "uint32"}, {"u8", "uint64"}, {uw, "uint"},
		{"s1", "int8"}, {"s2", "int16"}, {"s4", "int32"}, {"s8", "int64"}, {sw, "int"}, {"f4", "float32"}, {"f8", "float64"}}
	if idx == 0 {
		// exhaustive 8- and 16-bit types
		for v := 0; v < 256; v++ {
			g.emit("ENC u1 uint8 %x", v)
			g.emit("ENC s1 int8 %s", showS(int64(int8(v))))
		}
		for v := 0; v < 65536; v++ {
			g.emit("ENC u2 uint16 %x", v)
			g.emit("ENC s2 int16 %s", showS(int64(int16(v))))
		}
		for _, t := range types {
			w, _ := strconv.Atoi(t.kind[1:])
			if t.kind[0] == 'f' {
				sp := floatSpecials64
				if w == 4 {
					sp = floatSpecials32
				}
				for _, v := range sp {
					for d := -2; d <= 2; d++ {
						g.emit("ENC %s %s %x", t.kind, t.variant, (v+uint64(d))&maskW(w))
					}
				}
				continue
			}
			for _, v := range numBoundaries(w, false) {
				if t.kind[0] == 's' {
					sh := 64 - 8*uint(w)
					g.emit("ENC %s %s %s", t.kind, t.variant, showS(int64(v<<sh)>>sh))
				} else {
					g.emit("ENC %s %s %x", t.kind, t.variant, v)
				}
			}
		}
		return
	}
	for i := 0; i < 20000; i++ {
		t := pick(r, types)
		g.emit("ENC %s %s %s", t.kind, t.variant, g.numKey(t.kind))
	}
	for i := 0; i < 3000; i++ {
		sc := g.schema()
		var strs [][]byte
		for j := 0; j < 3; j++ {
			strs = append(strs, g.alphaPool(1)[0])
		}
		g.emit("ENC comp:%s - %s", sc, g.tupleKey(sc, strs))
	}
}

func maskW(w int) uint64 {
	if w >= 8 {
		return math.MaxUint64
	}
	return (uint64(1) << (8 * uint(w))) - 1
}

// ---- node families (C10) ----------------------------------------------------------------------

var laneVals = []uint32{0x00, 0x01, 0x7f, 0x80, 0x81, 0xfe, 0xff, 0x41}

func (g *gen) node4File(idx int) {
	r := g.r
	if idx == 0 {
		// every (lane value, probe) pair in every lane position, boundary values elsewhere
		for pos := 0; pos < 4; pos++ {
			for _, o1 := range []uint32{0x00, 0x80, 0xff} {
				for _, o2 := range []uint32{0x00, 0x7f} {
					other := o1 | o2<<8 | o1<<16 | o2<<24
					for v := uint32(0); v < 256; v++ {
						keys := (other &^ (0xff << (8 * uint(pos)))) | v<<(8*uint(pos))
						for b := 0; b < 256; b++ {
							// all probes near the lane value and at the boundaries, a stride elsewhere
							d := b - int(v)
							if !(d >= -2 && d <= 2) && b != 0 && b != 0x7f && b != 0x80 && b != 0xff && (b+int(v))%11 != 0 {
								continue
							}
							g.emit("N4S %x %x", keys, b)
							g.emit("N4I %x %x", keys, b)
						}
					}
				}
			}
		}
		return
	}
	for i := 0; i < 30000; i++ {
		var keys uint32
		for l := 0; l < 4; l++ {
			var v uint32
			if r.chance(60) {
				v = pick(r, laneVals)
			} else {
				v = uint32(r.n(256))
			}
			keys |= v << (8 * uint(l))
		}
		b := r.n(256)
		if r.chance(50) {
			b = int((keys >> (8 * uint(r.n(4)))) & 0xff)
		}
		if r.chance(20) {
			b = int(pick(r, laneVals))
		}
		switch r.n(8) {
		case 0, 1:
			g.emit("N4S %x %x", keys, b)
		case 2, 3:
			g.emit("N4I %x %x", keys, b)
		case 4:
			g.emit("N4G %x %x", keys, r.n(4))
			g.emit("N4D %x", keys)
		case 5:
			g.emit("N4P %x %x %x", keys, r.n(4), b)
		case 6:
			g.emit("N4L %x %x", keys, r.n(4))
		default:
			g.emit("N4R %x %x", keys, 1+r.n(4))
			g.emit("N4C %x %x %x %x", keys&0xff, (keys>>8)&0xff, (keys>>16)&0xff, keys>>24)
		}
	}
}

func (g *gen) node16File(idx int) {
	r := g.r
	hexKeys := func(k [16]byte) string { return fmt.Sprintf("%x", k[:]) }
	if idx == 0 {
		// all fill counts x all lane positions x boundary lane values x all probes
		for ln := 0; ln <= 16; ln++ {
			for pos := 0; pos < 16; pos++ {
				for _, v := range []byte{0x00, 0x01, 0x7f, 0x80, 0xff} {
					for _, fill := range []byte{0x00, 0x40, 0xc0} {
						var k [16]byte
						for i := range k {
							k[i] = fill
						}
						k[pos] = v
						for b := 0; b < 256; b++ {
							if b%7 != 0 && b != int(v) && b != int(v)+1 && b != int(v)-1 && b != int(fill) && b != 0x7f && b != 0x80 && b != 0xff {
								continue
							}
							g.emit("N16S %s %x %x", hexKeys(k), ln, b)
							g.emit("N16I %s %x %x", hexKeys(k), ln, b)
						}
					}
				}
			}
		}
		return
	}
	for i := 0; i < 40000; i++ {
		var k [16]byte
		ln := r.n(17)
		// sorted occupied part, arbitrary stale tail
		vals := map[byte]bool{}
		for len(vals) < ln {
			if r.chance(40) {
				vals[byte(pick(r, laneVals))] = true
			} else {
				vals[byte(r.n(256))] = true
			}
		}
		var sv []int
		for v := range vals {
			sv = append(sv, int(v))
		}
		sort.Ints(sv)
		for j, v := range sv {
			k[j] = byte(v)
		}
		for j := ln; j < 16; j++ {
			if r.chance(50) {
				k[j] = byte(r.n(256))
			} else if ln > 0 {
				k[j] = k[r.n(ln)] // a stale copy of a live byte
			}
		}
		b := r.n(256)
		if r.chance(50) {
			b = int(k[r.n(16)])
		}
		g.emit("N16S %s %x %x", hexKeys(k), ln, b)
		g.emit("N16I %s %x %x", hexKeys(k), ln, b)
	}
}

// bare node handle: add/remove sequences through every size class
func (g *gen) nodeSeqFile(idx int) {
	r := g.r
	for h := 0; h < 60; h++ {
		nid := fmt.Sprintf("n%d", h)
		g.st.Histories++
		g.emit("NNEW %s", nid)
		present := map[int]int{}
		next := 1
		var universe []int
		switch h % 4 {
		case 0: // boundary bytes only: closure-like coverage of the 4-slot class
			for _, b := range []int{0x00, 0x01, 0x7f, 0x80, 0xff, 0x41} {
				universe = append(universe, b)
			}
		case 1:
			for i := 0; i < 20; i++ {
				universe = append(universe, r.n(256))
			}
		default:
			for b := 0; b < 256; b++ {
				universe = append(universe, b)
			}
		}
		plans := [][]int{
			{3, 5, 17, 49, 256, 40, 13, 4, 2, 60, 256, 2},
			{16, 3, 2, 16, 4, 3}, {16, 2}, {17, 12, 3, 17, 13, 4}, {4, 1, 4, 2}, {5, 3, 5, 4, 17, 16, 17},
			{48, 20, 48, 13, 12}, {49, 37, 49, 38, 36, 12, 3}, {256, 255, 256, 254, 37, 256}, {256, 37, 12, 3, 2},
			{30, 25, 30, 14, 30}, {100, 60, 100, 38, 100},
		}
		target := plans[(h/4+idx)%len(plans)]
		if r.chance(25) {
			target = nil
			for i := 0; i < 6+r.n(6); i++ {
				target = append(target, pick(r, fanTargets))
			}
		}
		steps := 0
		var deleted []int
		// the raw node (every slot, stale contents included) against Model/Pool.v
		rawSometimes := func() {
			if r.chance(30) {
				g.emit("NRAW %s", nid)
			}
		}
		probeDeleted := func() {
			// bytes removed earlier: the largest and smallest ever removed, and the latest ones (stale lanes, stale slots)
			if len(deleted) == 0 {
				return
			}
			mx, mn := deleted[0], deleted[0]
			for _, d := range deleted {
				if d > mx {
					mx = d
				}
				if d < mn {
					mn = d
				}
			}
			for _, d := range []int{mx, mn, deleted[len(deleted)-1], pick(r, deleted)} {
				g.emit("NFIND %s %x", nid, d)
			}
		}
		live := func() []int {
			var l []int
			for b := 0; b < 256; b++ {
				if _, ok := present[b]; ok {
					l = append(l, b)
				}
			}
			return l
		}
		for _, tg := range target {
			if tg > len(universe) {
				tg = len(universe)
			}
			mode := r.n(4) // deletions: 0 random, 1 largest first, 2 smallest first, 3 middle
			for len(present) != tg && steps < 4000 {
				steps++
				b := pick(r, universe)
				_, has := present[b]
				if len(present) > tg && len(present) > 2 && mode != 0 {
					l := live()
					switch mode {
					case 1:
						b = l[len(l)-1]
					case 2:
						b = l[0]
					default:
						b = l[len(l)/2]
					}
					has = true
				}
				if len(present) < tg && !has {
					g.emit("NADD %s %x %d", nid, b, next)
					rawSometimes()
					present[b] = next
					next++
				} else if len(present) > tg && has && len(present) > 2 {
					g.emit("NDEL %s %x", nid, b)
					rawSometimes()
					delete(present, b)
					deleted = append(deleted, b)
				} else if len(present) > tg && len(present) <= 2 {
					break
				} else {
					continue
				}
				switch r.n(7) {
				case 0:
					g.emit("NPROBE %s", nid)
				case 1:
					g.emit("NENUM %s", nid)
				case 2:
					g.emit("NDUMP %s", nid)
					g.emit("NRAW %s", nid)
				case 3:
					probeDeleted()
				default:
					g.emit("NFIND %s %x", nid, pick(r, []int{b, r.n(256), 0x00, 0x7f, 0x80, 0xff}))
				}
			}
			g.emit("NPROBE %s", nid)
			g.emit("NENUM %s", nid)
			g.emit("NDUMP %s", nid)
			g.emit("NRAW %s", nid)
			probeDeleted()
			// churn inside the size class: remove one child, add a different byte (slot reuse)
			for c := 0; c < 4+r.n(8) && len(present) > 2 && len(present) < len(universe); c++ {
				l := live()
				var b int
				switch r.n(3) {
				case 0:
					b = l[len(l)-1]
				case 1:
					b = l[len(l)/2]
				default:
					b = pick(r, l)
				}
				g.emit("NDEL %s %x", nid, b)
				rawSometimes()
				delete(present, b)
				deleted = append(deleted, b)
				for tries := 0; tries < 600; tries++ {
					nb := pick(r, universe)
					if _, has := present[nb]; !has && nb != b {
						g.emit("NADD %s %x %d", nid, nb, next)
						rawSometimes()
						present[nb] = next
						next++
						break
					}
				}
				if len(present) < tg { // the universe had no other byte: put the old one back
					g.emit("NADD %s %x %d", nid, b, next)
					rawSometimes()
					present[b] = next
					next++
				}
				if r.chance(50) {
					g.emit("NPROBE %s", nid)
				} else {
					g.emit("NENUM %s", nid)
					probeDeleted()
				}
			}
			g.emit("NPROBE %s", nid)
			g.emit("NDUMP %s", nid)
			g.emit("NRAW %s", nid)
		}
	}
}

// ---- entry point ------------------------------------------------------------------------------

func genMain(args []string) {
	if len(args) < 4 {
		usage()
	}
	family := args[0]
	seed, _ := strconv.ParseUint(args[1], 10, 64)
	count, _ := strconv.Atoi(args[2])
	outdir := args[3]
	nops := 120
	if len(args) > 4 {
		nops, _ = strconv.Atoi(args[4])
	}
	hpf := 25 // histories per file
	if len(args) > 5 {
		hpf, _ = strconv.Atoi(args[5])
	}
	os.MkdirAll(outdir, 0o755)
	st := newStats()
	for idx := 0; idx < count; idx++ {
		path := filepath.Join(outdir, fmt.Sprintf("%s-%d.cmds", strings.ReplaceAll(family, ":", "_"), idx))
		f, err := os.Create(path)
		if err != nil {
			panic(err)
		}
		w := bufio.NewWriterSize(f, 1<<20)
		g := &gen{r: &rng{seedFor(seed, family, idx)}, w: w, st: st}
		fmt.Fprintf(w, "# family=%s seed=%d idx=%d uintsize=%d\n", family, seed, idx, bits.UintSize)
		parts := strings.Split(family, ":")
		switch parts[0] {
		case "codec":
			g.codecFile(idx)
		case "node4":
			g.node4File(idx)
		case "node16":
			g.node16File(idx)
		case "nodeseq":
			g.nodeSeqFile(idx)
		case "tree": // tree:<profile>[:<kindfilter>]
			prof := parts[1]
			kinds := allKinds()
			if len(parts) > 2 {
				var sel []kindSpec
				for _, k := range kinds {
					if strings.HasPrefix(k.kind, parts[2]) {
						sel = append(sel, k)
					}
				}
				kinds = sel
			}
			for h := 0; h < hpf; h++ {
				ks := kinds[(idx*hpf+h)%len(kinds)]
				if h%4 == 3 {
					fk := fanKinds[(idx*hpf+h/4)%len(fanKinds)]
					if len(parts) <= 2 || strings.HasPrefix(fk.kind, parts[2]) {
						g.fanout(fmt.Sprintf("t%d", h), fk, prof)
						continue
					}
				}
				if h%8 == 6 {
					dk := denseKinds[(idx*hpf+h/8)%len(denseKinds)]
					if len(parts) <= 2 || strings.HasPrefix(dk.kind, parts[2]) {
						g.dense(fmt.Sprintf("t%d", h), dk, prof)
						continue
					}
				}
				if h%4 == 1 && (ks.kind == "alpha" || ks.kind == "coll" || ks.kind == "comp") {
					g.longpath(fmt.Sprintf("t%d", h), ks, prof)
					continue
				}
				n := nops/2 + g.r.n(nops)
				if g.r.chance(10) {
					n *= 6
				}
				g.history(fmt.Sprintf("t%d", h), ks, prof, n)
			}
		case "multi": // interleaved histories on several trees of mixed kinds (C12)
			g.multiFile(hpf, nops)
		case "huge": // keys of 65 534 .. 70 001 bytes (beyond 16-bit lengths), sharing all but their last bytes
			g.hugeFile(hpf)
		case "nul": // malformed stream: byte-string keys containing 0x00
			g.nulFile(hpf, nops, len(parts) > 1 && parts[1] == "clean")
		case "closure": // closure[:<profile>]: exhaustive exploration of one small key universe per file; nops = depth bound, hpf = state bound
			d, m := closureArgs(args)
			debug.SetGCPercent(800) // hundreds of thousands of short-lived trees
			prof := ""
			if len(parts) > 1 {
				prof = parts[1]
			}
			g.closureFile(idx, prof, d, m, func(part int) {
				w.Flush()
				f.Close()
				if f, err = os.Create(strings.TrimSuffix(path, ".cmds") + fmt.Sprintf("_%d.cmds", part)); err != nil {
					panic(err)
				}
				w = bufio.NewWriterSize(f, 1<<20)
				g.w = w
				fmt.Fprintf(w, "# family=%s seed=%d idx=%d part=%d uintsize=%d\n", family, seed, idx, part, bits.UintSize)
			})
		default:
			panic("unknown family " + family)
		}
		w.Flush()
		f.Close()
	}
	json.NewEncoder(os.Stdout).Encode(st)
}

// multiFile: several trees of mixed kinds, their histories interleaved on one goroutine
func (g *gen) multiFile(groups, nops int) {
	r := g.r
	kinds := allKinds()
	tidBase := 0
	for grp := 0; grp < groups; grp++ {
		nt := 2 + r.n(7)
		var hist [][]string
		for i := 0; i < nt; i++ {
			var bb strings.Builder
			bw := bufio.NewWriter(&bb)
			sub := &gen{r: r, w: bw, st: g.st, drain: r.chance(60)}
			ks := pick(r, kinds)
			if r.chance(50) { // byte-string and small-int trees churn through all node classes fastest
				ks = pick(r, []kindSpec{{"alpha", "string"}, {"alpha", "bytes"}, {"u2", "uint16"}, {"s2", "int16"}, {"u1", "uint8"}})
			}
			if r.chance(35) { // wide nodes released by one tree and acquired by another
				sub.fanout(fmt.Sprintf("m%d", tidBase), pick(r, fanKinds), pick(r, []string{"full", "shape", "map"}))
			} else {
				sub.history(fmt.Sprintf("m%d", tidBase), ks, pick(r, []string{"full", "shape", "map"}), nops/2+r.n(nops))
			}
			tidBase++
			bw.Flush()
			hist = append(hist, strings.Split(strings.TrimRight(bb.String(), "\n"), "\n"))
		}
		// interleave, keeping each history's own order
		pos := make([]int, nt)
		remaining := 0
		for _, h := range hist {
			remaining += len(h)
		}
		for remaining > 0 {
			i := r.n(nt)
			if pos[i] >= len(hist[i]) {
				continue
			}
			burst := 1 + r.n(4)
			for b := 0; b < burst && pos[i] < len(hist[i]); b++ {
				g.w.WriteString(hist[i][pos[i]])
				g.w.WriteByte('\n')
				pos[i]++
				remaining--
			}
		}
	}
}

// nulFile: the malformed stream — byte-string keys that contain 0x00 (the known
// finding D2 lives here). Kept out of the main statistics.
func (g *gen) nulFile(hists, nops int, clean bool) {
	r := g.r
	for h := 0; h < hists; h++ {
		tid := fmt.Sprintf("z%d", h)
		g.st.Histories++
		g.emit("NEW %s alpha %s", tid, pick(r, []string{"string", "bytes"}))
		bp := g.alphaPool(8 + r.n(10))
		// one history in five holds a key AND an extension of it by 0x00... (the known finding D2: the terminated
		// forms are not prefix-free); the others hold keys with embedded and trailing 0x00 bytes whose terminated
		// forms ARE prefix-free, where everything must work (keys come back in their original form, ...)
		d2 := h%5 == 0 && !clean
		var pool []string
		for _, k := range bp {
			kz := append(append([]byte{}, k...), 0)
			switch r.n(4) {
			case 0: // trailing 0x00
			case 1: // trailing 0x00 0x00
				kz = append(kz, 0)
			case 2: // embedded 0x00
				kz = append(kz, pick(r, boundaryBytes))
			default:
				kz = append(append(kz, pick(r, boundaryBytes)), 0)
			}
			if d2 {
				pool = append(pool, xhex(k), xhex(kz))
			} else if r.chance(60) {
				pool = append(pool, xhex(kz))
			} else {
				pool = append(pool, xhex(k))
			}
		}
		if !d2 { // drop every key that is another pool key followed by 0x00...: not the D2 shape
			var keep []string
			for _, k := range pool {
				bad := false
				for _, o := range pool {
					if o != k && strings.HasPrefix(k, o+"00") {
						bad = true
					}
				}
				if !bad {
					keep = append(keep, k)
				}
			}
			pool = keep
		}
		if len(pool) == 0 {
			continue
		}
		for i := 0; i < nops; i++ {
			switch r.n(8) {
			case 0, 1, 2:
				g.emit("I %s %s %d", tid, pick(r, pool), 1+r.n(100))
			case 3:
				g.emit("D %s %s", tid, pick(r, pool))
			case 4:
				g.emit("S %s %s", tid, pick(r, pool))
			case 5:
				g.emit("%s %s -", pick(r, []string{"ALL", "BWD"}), tid)
			case 6:
				g.emit("%s %s", pick(r, []string{"MIN", "MAX", "SIZE"}), tid)
			default:
				g.emit("RNG %s %s %s -", tid, pick(r, pool), pick(r, pool))
			}
		}
		g.emit("ALL %s -", tid)
		g.emit("SIZE %s", tid)
	}
}

// hugeFile: a few histories whose keys are longer than 65 535 bytes and share a compressed path of that order:
// every length the library keeps (leaf key length, compressed-path length, depth) passes 2^16
func (g *gen) hugeFile(hists int) {
	r := g.r
	for h := 0; h < hists; h++ {
		tid := fmt.Sprintf("h%d", h)
		g.st.Histories++
		ks := pick(r, []kindSpec{{"alpha", "bytes"}, {"alpha", "string"}, {"raw", ""}, {"comp:u4,str", ""}})
		g.st.Kinds[ks.kind+" "+ks.variant+" huge"]++
		g.emit("NEW %s %s %s", tid, ks.kind, orDash(ks.variant))
		stem := make([]byte, 65530)
		for i := range stem {
			stem[i] = byte('a' + (i*7+h)%23)
		}
		mk := func(tail []byte) string {
			b := append(append([]byte{}, stem...), tail...)
			switch ks.kind {
			case "raw":
				// prefix-free by a two-byte length in front
				return xhex(append([]byte{byte(len(b) >> 16), byte(len(b) >> 8), byte(len(b))}, b...))
			case "comp:u4,str":
				return "2a," + xhex(b)
			}
			return xhex(b)
		}
		tails := [][]byte{[]byte("wxyz"), []byte("wxyzA"), []byte("wxyzAB"), []byte("wxyzB7"), []byte("wx"), bytesRepeat('q', 4471), []byte("k")}
		var keys []string
		for _, t := range tails {
			keys = append(keys, mk(t))
		}
		for i, k := range keys {
			g.emit("I %s %s %d", tid, k, 100+i)
			g.emit("S %s %s", tid, k)
			g.emit("SIZE %s", tid)
		}
		for _, k := range keys {
			g.emit("S %s %s", tid, k)
		}
		g.emit("S %s %s", tid, mk([]byte("wxy")))
		g.emit("D %s %s", tid, mk([]byte("wxyzAC")))
		g.emit("MIN %s", tid)
		g.emit("MAX %s", tid)
		g.emit("ALL %s -", tid)
		g.emit("BWD %s 2", tid)
		g.emit("RNG %s %s %s -", tid, keys[0], keys[3])
		g.emit("DUMP %s", tid)
		for i, k := range keys {
			if i%2 == 0 {
				g.emit("D %s %s", tid, k)
				g.emit("S %s %s", tid, k)
			}
		}
		g.emit("ALL %s -", tid)
		g.emit("SIZE %s", tid)
		g.emit("DUMP %s", tid)
	}
}

func bytesRepeat(b byte, n int) []byte {
	out := make([]byte, n)
	for i := range out {
		out[i] = b
	}
	return out
}
