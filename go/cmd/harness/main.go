package main

import (
	"flag"
	"fmt"
	"os"
)

func usage() {
	fmt.Fprintln(os.Stderr, `usage:
  harness exec [-digest] [-buf] [-gc n] <cmds> <out> [<expected> [<side>]]
  harness gen  <family> <seed> <count> <outdir>      (writes <outdir>/<family>-<i>.cmds and prints stats JSON)
  harness gen  closure[:shape|:map] <seed> <count> <outdir> [depth maxstates]   (exhaustive small universes; gen_closure.go)
  harness layouts | pools | info
  harness race <seed> <goroutines> <nops>             (C16, build with -race; runtime_race.go)
  harness heap <seed> [N [keys]]                      (C17; runtime_heap.go)
  harness gcstress <seed> [nkeys]                     (C18, build with -gcflags=all=-d=checkptr; runtime_gc.go)`)
	os.Exit(2)
}

func main() {
	if len(os.Args) < 2 {
		usage()
	}
	switch os.Args[1] {
	case "exec":
		fs := flag.NewFlagSet("exec", flag.ExitOnError)
		digest := fs.Bool("digest", false, "")
		buf := fs.Bool("buf", false, "")
		gc := fs.Int("gc", 0, "")
		fs.Parse(os.Args[2:])
		a := fs.Args()
		if len(a) < 2 {
			usage()
		}
		exp, side := "", ""
		if len(a) > 2 {
			exp = a[2]
		}
		if len(a) > 3 {
			side = a[3]
		}
		if err := execFile(a[0], a[1], exp, side, execOpts{digest: *digest, bufMode: *buf, gcEvery: *gc}); err != nil {
			fmt.Fprintln(os.Stderr, "exec:", err)
			os.Exit(3)
		}
	case "gen":
		genMain(os.Args[2:])
	case "layouts", "pools", "info", "race", "heap", "gcstress":
		runtimeMain(os.Args[1], os.Args[2:])
	default:
		usage()
	}
}
