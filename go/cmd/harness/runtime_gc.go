package main

// C18 runtime leg: `harness gcstress <seed> [nkeys]`.
//
// For every combination of value type (*T, string, []byte, struct{}, [25]uint64; and, for three key kinds, values whose
// pointers sit inside a composite: [2]*T, [2]string, a struct holding such arrays, any, map, *[]string, [1][]byte) and key
// kind (alpha string, alpha []byte, uint64, int16, float64, collation string, compound)
// a tree is filled through the public constructors with keys and values that are built
// freshly for every call and dropped by the harness right after it — so the tree's own
// references (nodeRef.pointer, leaf key pointers, the value stored in the leaf) are the
// only thing keeping them alive.  The collector runs at GC percent 1 plus a forced
// collection every few operations, each followed by an allocation burst of the same size
// classes filled with 0xDB (memory freed by mistake is overwritten quickly).  A reference
// Go map on the side holds independently built copies.  After the fill, after deleting a
// third and overwriting a third, and after re-inserting, every key of the universe is
// searched and All(), Backward() and (where the property specifies it) Range(min,max) are
// compared with the reference by reflect.DeepEqual.  Meant for the build made with
// -gcflags=all=-d=checkptr: a checkptr fault is a fatal error of the run.

import (
	"bytes"
	"fmt"
	"math"
	"reflect"
	"runtime"
	"runtime/debug"
	"strconv"
	"strings"

	art "github.com/Clement-Jean/go-art"
)

type gcT struct {
	S string
	N int
}

type gcStats struct {
	Trees      int      `json:"trees"`
	Ops        int      `json:"ops"`
	Checks     int      `json:"equalities_checked"`
	GCs        int      `json:"forced_collections"`
	Mismatches int      `json:"mismatches"`
	First      string   `json:"first_mismatch"`
	NumGC      uint32   `json:"runtime_num_gc"`
	KeysPer    []string `json:"keys_per_kind"`
	Samples    []string `json:"samples"`
	every      int
	junk       [64][]byte
	junkAt     int
}

func (st *gcStats) bad(format string, a ...any) {
	st.Mismatches++
	if st.First == "" {
		st.First = fmt.Sprintf(format, a...)
		if len(st.First) > 600 {
			st.First = st.First[:600]
		}
	}
}

// collect forces a collection, then allocates and fills objects of the size classes leaves,
// keys and nodes live in
func (st *gcStats) collect() {
	runtime.GC()
	st.GCs++
	for _, sz := range []int{8, 16, 24, 32, 48, 64, 96, 160, 224, 656, 2080} {
		b := make([]byte, sz)
		for i := range b {
			b[i] = 0xDB
		}
		st.junk[st.junkAt%len(st.junk)] = b
		st.junkAt++
	}
}

func (st *gcStats) op() {
	st.Ops++
	if st.every > 0 && st.Ops%st.every == 0 {
		st.collect()
	}
}

type gcKeys[K any] struct {
	name  string
	canon []string      // canonical text of key i (the reference map's key)
	mk    func(i int) K // a freshly allocated key i
	show  func(K) string
	rng   bool // Range(min, max) is specified for this kind
}

type gcEntry[V any] struct {
	idx int
	v   V
}

func gcRun[K, V any](st *gcStats, ks gcKeys[K], vname string, mkV func(key string, gen int) V, t art.Tree[K, V]) {
	st.Trees++
	name := ks.name + " -> " + vname
	ref := map[string]gcEntry[V]{}
	n := len(ks.canon)
	put := func(i, gen int) {
		t.Insert(ks.mk(i), mkV(ks.canon[i], gen)) // both arguments are dropped by the harness here
		ref[ks.canon[i]] = gcEntry[V]{i, mkV(ks.canon[i], gen)}
		st.op()
	}
	verify := func(stage string) {
		st.collect()
		for i := 0; i < n; i++ {
			v, ok := t.Search(ks.mk(i))
			e, in := ref[ks.canon[i]]
			st.Checks++
			if ok != in {
				st.bad("%s %s: Search(%s) found=%v, reference has it=%v", name, stage, ks.canon[i], ok, in)
			} else if in && !reflect.DeepEqual(v, e.v) {
				st.bad("%s %s: Search(%s) = %v, stored %v", name, stage, ks.canon[i], v, e.v)
			}
		}
		type pair struct {
			c string
			v V
		}
		collectSeq := func(what string, seq func(func(K, V) bool)) []pair {
			var out []pair
			seen := map[string]bool{}
			seq(func(k K, v V) bool {
				c := ks.show(k)
				e, in := ref[c]
				st.Checks++
				switch {
				case !in:
					st.bad("%s %s: %s yields key %s which is not stored", name, stage, what, c)
				case seen[c]:
					st.bad("%s %s: %s yields key %s twice", name, stage, what, c)
				case !reflect.DeepEqual(k, ks.mk(e.idx)):
					st.bad("%s %s: %s yields key %v, stored key %v", name, stage, what, k, ks.mk(e.idx))
				case !reflect.DeepEqual(v, e.v):
					st.bad("%s %s: %s yields %s = %v, stored %v", name, stage, what, c, v, e.v)
				}
				seen[c] = true
				out = append(out, pair{c, v})
				if len(out)%50 == 0 {
					st.collect() // a collection while the iterator's stack of node references is live
				}
				return true
			})
			if len(out) != len(ref) {
				st.bad("%s %s: %s yields %d elements, %d stored", name, stage, what, len(out), len(ref))
			}
			return out
		}
		all := collectSeq("All", t.All())
		bwd := collectSeq("Backward", t.Backward())
		for i := range bwd {
			if i < len(all) && bwd[i].c != all[len(all)-1-i].c {
				st.bad("%s %s: Backward is not the reverse of All at %d", name, stage, i)
				break
			}
		}
		if t.Size() != len(ref) {
			st.bad("%s %s: Size %d, %d stored", name, stage, t.Size(), len(ref))
		}
		if k0, v0, ok := t.Minimum(); ok != (len(ref) > 0) || (ok && (len(all) == 0 || ks.show(k0) != all[0].c || !reflect.DeepEqual(v0, all[0].v))) {
			st.bad("%s %s: Minimum disagrees with All", name, stage)
		} else if k1, v1, ok := t.Maximum(); ok && (ks.show(k1) != all[len(all)-1].c || !reflect.DeepEqual(v1, all[len(all)-1].v)) {
			st.bad("%s %s: Maximum disagrees with All", name, stage)
		} else if ok && ks.rng {
			// signed and float trees read their leaves through the unsigned leaf type here
			rg := collectSeq("Range(min,max)", t.Range(k0, k1))
			for i := range rg {
				if i < len(all) && rg[i].c != all[i].c {
					st.bad("%s %s: Range(min,max) differs from All at %d", name, stage, i)
					break
				}
			}
		}
		if len(st.Samples) < 6 && stage == "final" && len(all) > 0 && st.Trees%6 == 1 {
			st.Samples = append(st.Samples, fmt.Sprintf("%s: %d keys, e.g. %.60s = %.80s", name, len(all), all[len(all)/2].c, fmt.Sprint(all[len(all)/2].v)))
		}
	}
	for i := 0; i < n; i++ {
		put(i, 0)
	}
	verify("after fill")
	for i := 0; i < n; i += 3 { // delete a third
		ok := t.Delete(ks.mk(i))
		if !ok {
			st.bad("%s: Delete(%s) of a stored key returns false", name, ks.canon[i])
		}
		delete(ref, ks.canon[i])
		st.op()
	}
	for i := 1; i < n; i += 3 { // overwrite a third
		put(i, 1)
	}
	verify("after delete+overwrite")
	for i := 0; i < n; i += 3 { // re-insert
		put(i, 2)
	}
	verify("final")
	runtime.KeepAlive(t)
}

var (
	gvPtr   = func(k string, g int) *gcT { return &gcT{S: fmt.Sprintf("v/%s/%d", k, g), N: len(k)*1000 + g} }
	gvStr   = func(k string, g int) string { return fmt.Sprintf("value of %s generation %d", k, g) }
	gvBytes = func(k string, g int) []byte { return []byte(fmt.Sprintf("%d:%s", g, k)) }
	gvUnit  = func(k string, g int) struct{} { return struct{}{} }
	gvBig   = func(k string, g int) [25]uint64 {
		var a [25]uint64
		r := rng{seedFor(uint64(g), k, len(k))}
		for i := range a {
			a[i] = r.next()
		}
		return a
	}
)

// one key kind under the five value types
func gcFive[K any](st *gcStats, ks gcKeys[K], t1 art.Tree[K, *gcT], t2 art.Tree[K, string], t3 art.Tree[K, []byte],
	t4 art.Tree[K, struct{}], t5 art.Tree[K, [25]uint64]) {
	st.KeysPer = append(st.KeysPer, fmt.Sprintf("%s:%d", ks.name, len(ks.canon)))
	gcRun(st, ks, "*T", gvPtr, t1)
	gcRun(st, ks, "string", gvStr, t2)
	gcRun(st, ks, "[]byte", gvBytes, t3)
	gcRun(st, ks, "struct{}", gvUnit, t4)
	gcRun(st, ks, "[25]uint64", gvBig, t5)
}

// value types whose size is not a multiple of 4: a leaf read through another leaf type with a
// differently placed length field goes wrong exactly there (the range scan of signed and float
// trees reads leaves through the unsigned leaf type)
var (
	gvBool  = func(k string, g int) bool { return (len(k)+g)%2 == 0 }
	gvOdd3  = func(k string, g int) [3]byte { return [3]byte{byte(len(k)), byte(g), 0x5a} }
	gvOdd5  = func(k string, g int) [5]byte { return [5]byte{byte(len(k)), byte(g), 0xa5, byte(len(k) * 7), 1} }
	gvInt16 = func(k string, g int) int16 { return int16(len(k)*100 + g) }
)

func gcOdd[K any](st *gcStats, ks gcKeys[K], t1 art.Tree[K, bool], t2 art.Tree[K, [3]byte], t3 art.Tree[K, [5]byte], t4 art.Tree[K, int16]) {
	gcRun(st, ks, "bool", gvBool, t1)
	gcRun(st, ks, "[3]byte", gvOdd3, t2)
	gcRun(st, ks, "[5]byte", gvOdd5, t3)
	gcRun(st, ks, "int16", gvInt16, t4)
}

// value types whose pointers sit INSIDE a composite (array of pointers, array of strings, struct holding such an
// array, interface, map, pointer to a slice, array of slices): a leaf allocator that decides "this value type holds
// no pointers" by looking at the outermost kind only hands such leaves to memory the collector does not scan
type gcNest struct {
	A [1]*gcT
	N int
	B [2]string
}

var (
	gvArrPtr = func(k string, g int) [2]*gcT { return [2]*gcT{gvPtr(k, g), gvPtr(k+"'", g+1)} }
	gvArrStr = func(k string, g int) [2]string { return [2]string{gvStr(k, g), gvStr(k, g+7)} }
	gvNest   = func(k string, g int) gcNest {
		return gcNest{A: [1]*gcT{gvPtr(k, g)}, N: g, B: [2]string{gvStr(k, g), gvStr(k+"#", g)}}
	}
	gvIface  = func(k string, g int) any { return gvPtr(k, g) }
	gvMap    = func(k string, g int) map[string]*gcT { return map[string]*gcT{gvStr(k, g): gvPtr(k, g)} }
	gvPtrSl  = func(k string, g int) *[]string { s := []string{gvStr(k, g), gvStr(k, g+1)}; return &s }
	gvArrSl  = func(k string, g int) [1][]byte { return [1][]byte{gvBytes(k, g)} }
)

func gcComposite[K any](st *gcStats, ks gcKeys[K], t1 art.Tree[K, [2]*gcT], t2 art.Tree[K, [2]string], t3 art.Tree[K, gcNest],
	t4 art.Tree[K, any], t5 art.Tree[K, map[string]*gcT], t6 art.Tree[K, *[]string], t7 art.Tree[K, [1][]byte]) {
	gcRun(st, ks, "[2]*T", gvArrPtr, t1)
	gcRun(st, ks, "[2]string", gvArrStr, t2)
	gcRun(st, ks, "struct{[1]*T;int;[2]string}", gvNest, t3)
	gcRun(st, ks, "any", gvIface, t4)
	gcRun(st, ks, "map[string]*T", gvMap, t5)
	gcRun(st, ks, "*[]string", gvPtrSl, t6)
	gcRun(st, ks, "[1][]byte", gvArrSl, t7)
}

func gcMain(args []string) int {
	seed, nkeys := uint64(1), 300
	if len(args) > 0 {
		seed, _ = strconv.ParseUint(args[0], 10, 64)
	}
	if len(args) > 1 {
		nkeys, _ = strconv.Atoi(args[1])
	}
	debug.SetGCPercent(1)
	st := &gcStats{every: 5}
	pool := func(ks kindSpec, n int) (string, []string) {
		g := &gen{r: &rng{seedFor(seed, "gc:"+ks.kind+ks.variant, 0)}, st: newStats()}
		kind, p, _ := g.keyPool(ks, n)
		var out []string
		for _, k := range p {
			if !strings.Contains(newOracle(kind, ks.variant).parse(k).txt, "nan") { // all NaNs are one key and do not round-trip by design
				out = append(out, k)
			}
		}
		return kind, out
	}

	// byte strings
	_, ap := pool(kindSpec{"alpha", "string"}, nkeys)
	ab := make([][]byte, len(ap))
	for i, k := range ap {
		ab[i] = xbytes(k)
	}
	gcFive(st, gcKeys[string]{name: "alpha/string", canon: ap, rng: true,
		mk: func(i int) string { return string(ab[i]) }, show: func(k string) string { return xhex([]byte(k)) }},
		art.NewAlphaSortedTree[string, *gcT](), art.NewAlphaSortedTree[string, string](), art.NewAlphaSortedTree[string, []byte](),
		art.NewAlphaSortedTree[string, struct{}](), art.NewAlphaSortedTree[string, [25]uint64]())
	gcFive(st, gcKeys[[]byte]{name: "alpha/[]byte", canon: ap, rng: true,
		mk: func(i int) []byte { return bytes.Clone(ab[i]) }, show: xhex},
		art.NewAlphaSortedTree[[]byte, *gcT](), art.NewAlphaSortedTree[[]byte, string](), art.NewAlphaSortedTree[[]byte, []byte](),
		art.NewAlphaSortedTree[[]byte, struct{}](), art.NewAlphaSortedTree[[]byte, [25]uint64]())

	// numeric
	_, up := pool(kindSpec{"u8", "uint64"}, nkeys)
	gcFive(st, gcKeys[uint64]{name: "uint64", canon: up, rng: true,
		mk: func(i int) uint64 { return parseU(up[i]) }, show: showU},
		art.NewUnsignedBinaryTree[uint64, *gcT](), art.NewUnsignedBinaryTree[uint64, string](), art.NewUnsignedBinaryTree[uint64, []byte](),
		art.NewUnsignedBinaryTree[uint64, struct{}](), art.NewUnsignedBinaryTree[uint64, [25]uint64]())
	_, sp := pool(kindSpec{"s2", "int16"}, nkeys)
	gcFive(st, gcKeys[int16]{name: "int16", canon: sp, rng: true,
		mk: func(i int) int16 { return int16(parseS(sp[i])) }, show: func(k int16) string { return showS(int64(k)) }},
		art.NewSignedBinaryTree[int16, *gcT](), art.NewSignedBinaryTree[int16, string](), art.NewSignedBinaryTree[int16, []byte](),
		art.NewSignedBinaryTree[int16, struct{}](), art.NewSignedBinaryTree[int16, [25]uint64]())
	_, fp := pool(kindSpec{"f8", "float64"}, nkeys)
	gcFive(st, gcKeys[float64]{name: "float64", canon: fp, rng: true,
		mk: func(i int) float64 { return math.Float64frombits(parseU(fp[i])) }, show: showF64},
		art.NewFloatBinaryTree[float64, *gcT](), art.NewFloatBinaryTree[float64, string](), art.NewFloatBinaryTree[float64, []byte](),
		art.NewFloatBinaryTree[float64, struct{}](), art.NewFloatBinaryTree[float64, [25]uint64]())

	gcOdd(st, gcKeys[float64]{name: "float64", canon: fp, rng: true,
		mk: func(i int) float64 { return math.Float64frombits(parseU(fp[i])) }, show: showF64},
		art.NewFloatBinaryTree[float64, bool](), art.NewFloatBinaryTree[float64, [3]byte](), art.NewFloatBinaryTree[float64, [5]byte](), art.NewFloatBinaryTree[float64, int16]())
	gcOdd(st, gcKeys[int16]{name: "int16", canon: sp, rng: true,
		mk: func(i int) int16 { return int16(parseS(sp[i])) }, show: func(k int16) string { return showS(int64(k)) }},
		art.NewSignedBinaryTree[int16, bool](), art.NewSignedBinaryTree[int16, [3]byte](), art.NewSignedBinaryTree[int16, [5]byte](), art.NewSignedBinaryTree[int16, int16]())
	gcOdd(st, gcKeys[uint64]{name: "uint64", canon: up, rng: true,
		mk: func(i int) uint64 { return parseU(up[i]) }, show: showU},
		art.NewUnsignedBinaryTree[uint64, bool](), art.NewUnsignedBinaryTree[uint64, [3]byte](), art.NewUnsignedBinaryTree[uint64, [5]byte](), art.NewUnsignedBinaryTree[uint64, int16]())

	gcComposite(st, gcKeys[uint64]{name: "uint64", canon: up, rng: true,
		mk: func(i int) uint64 { return parseU(up[i]) }, show: showU},
		art.NewUnsignedBinaryTree[uint64, [2]*gcT](), art.NewUnsignedBinaryTree[uint64, [2]string](), art.NewUnsignedBinaryTree[uint64, gcNest](),
		art.NewUnsignedBinaryTree[uint64, any](), art.NewUnsignedBinaryTree[uint64, map[string]*gcT](), art.NewUnsignedBinaryTree[uint64, *[]string](),
		art.NewUnsignedBinaryTree[uint64, [1][]byte]())
	gcComposite(st, gcKeys[[]byte]{name: "alpha/[]byte", canon: ap, rng: true,
		mk: func(i int) []byte { return bytes.Clone(ab[i]) }, show: xhex},
		art.NewAlphaSortedTree[[]byte, [2]*gcT](), art.NewAlphaSortedTree[[]byte, [2]string](), art.NewAlphaSortedTree[[]byte, gcNest](),
		art.NewAlphaSortedTree[[]byte, any](), art.NewAlphaSortedTree[[]byte, map[string]*gcT](), art.NewAlphaSortedTree[[]byte, *[]string](),
		art.NewAlphaSortedTree[[]byte, [1][]byte]())

	// collation (string keys, German collator); Range is left unspecified for collation trees
	_, cp := pool(kindSpec{"coll", "string:de"}, min(nkeys, 160))
	co := make([][]byte, len(cp))
	cc := make([]string, len(cp))
	for i, k := range cp {
		co[i] = xbytes(collOrig(k))
		cc[i] = collOrig(k)
	}
	cks := gcKeys[string]{name: "coll/string:de", canon: cc, rng: false,
		mk: func(i int) string { return string(co[i]) }, show: func(k string) string { return xhex([]byte(k)) }}
	gcFive(st, cks,
		art.NewCollationSortedTree[string, *gcT](art.WithCollator[string, *gcT](collatorByName("de"))),
		art.NewCollationSortedTree[string, string](art.WithCollator[string, string](collatorByName("de"))),
		art.NewCollationSortedTree[string, []byte](art.WithCollator[string, []byte](collatorByName("de"))),
		art.NewCollationSortedTree[string, struct{}](art.WithCollator[string, struct{}](collatorByName("de"))),
		art.NewCollationSortedTree[string, [25]uint64](art.WithCollator[string, [25]uint64](collatorByName("de"))))
	gcRun(st, cks, "[2]*T", gvArrPtr, art.NewCollationSortedTree[string, [2]*gcT](art.WithCollator[string, [2]*gcT](collatorByName("de"))))
	gcRun(st, cks, "struct{[1]*T;int;[2]string}", gvNest, art.NewCollationSortedTree[string, gcNest](art.WithCollator[string, gcNest](collatorByName("de"))))

	// compound (the schema is drawn from the seed; a string field is appended so that key lengths vary)
	ckind, tp := pool(kindSpec{"comp:" + (&gen{r: &rng{seedFor(seed, "gc:schema", 0)}}).schemaWithString(), ""}, nkeys)
	sc := parseSchema(ckind[5:])
	gcFive(st, gcKeys[string]{name: ckind, canon: tp, rng: true,
		mk: func(i int) string { return strings.Clone(tp[i]) }, show: func(k string) string { return k }},
		art.NewCompoundTree[string, *gcT](sc), art.NewCompoundTree[string, string](sc), art.NewCompoundTree[string, []byte](sc),
		art.NewCompoundTree[string, struct{}](sc), art.NewCompoundTree[string, [25]uint64](sc))

	var m runtime.MemStats
	runtime.ReadMemStats(&m)
	st.NumGC = m.NumGC
	printJSON(st)
	if st.Mismatches > 0 {
		return 1
	}
	return 0
}

func (g *gen) schemaWithString() string {
	s := g.schema()
	if !strings.HasSuffix(s, "str") {
		s += ",str"
	}
	return s
}
