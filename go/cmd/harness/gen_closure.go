package main

// Closed state-space exploration of small key universes (family "closure").
//
// For a universe U (a tree kind and 5-8 keys) a breadth-first search runs over the
// IMPLEMENTATION: a state is the text of the tree's raw structural dump (VerifDump: raw
// key words with stale lanes, all ten inline path bytes with the junk beyond the path,
// counters, size classes, leaf values), so two trees with the same content but different
// leftovers are different states.  A state is reached by replaying its operation path on
// a fresh tree.  The search is closed under Insert of every key with its fixed value and
// Delete of every key; it stops at depth D or at M states, and closure_complete says
// whether it exhausted the reachable set before either bound.  Leaf values are part of
// the dump, so letting a second value per key take part in the search multiplies the
// states by up to 2^|U| without adding one structure (measured: 4000 states at depth 4-5
// in every universe).  The overwrite with the alternative value is therefore a one-step
// observation: from every discovered state, for every key PRESENT in it, one more history
// ends with `I <k> <other value>` and the batch; the state it leads to differs from a
// discovered one in that leaf value only (counted: overwrite_changed_structure must be 0)
// and is not expanded.
//
// Output: one command file per universe, continued in part files closure-<idx>_<n>.cmds
// every closurePartHistories histories (the histories are independent, so the parts run
// in parallel; the extracted model needs ~45 us per command and would otherwise spend
// 40 s on the largest universe).  States are kept in a trie of paths (every state
// remembers the one (parent, operation) that discovered it), so a history is written once
// per (state, operation), not once per path: NEW, the operations of the state's path, the
// operation, then the observation batch.  The batch is not repeated after the operations
// of the path: those states have their own histories.
//
// Measured on the unchanged library (depth 20, no state bound): inline 891 states (closes
// at depth 11), long 1643 (14), fan5 2661 (13), nested 3184 (15), u16 3344 (12).  The
// collation universe does not close: more than 100000 raw states within depth 18, one key
// set of five keys alone has more than 11000, because sort keys are 9-14 bytes with long
// shared stems and the ten inline path bytes keep whatever earlier paths left beyond
// prefixLen.  It carries its own, smaller default state bound.
//
// Profiles (family closure[:<profile>]) select the observation batch, because the extracted
// model is the slow side and a property compares only its own projection: "closure" = the
// whole batch (DUMP, SIZE, MIN, MAX, ALL, BWD, S of every key and of the absent probes, RNG,
// PFX), "closure:shape" = DUMP and SIZE, "closure:map" = SIZE and the S lines.  The search
// itself is the same in every profile.
//
// The seed only permutes the order in which the operations are tried from a state (and
// therefore which of several shortest paths names a state).

import (
	"fmt"
	"sort"
	"strconv"
	"strings"

	"golang.org/x/text/collate"
)

type closureUniverse struct {
	name, kind, variant string
	keys                []string // key texts, in the declared order of the tree kind
	probes              []string // absent keys: a proper prefix of a key, a key diverging inside the longest shared stem, ...
	pfx                 []string // Prefix arguments; byte-string universes only
	stateCap            int      // default state bound of this universe when none is given on the command line (0: closureDefaultStates)
}

const (
	closureDefaultDepth  = 10
	closureDefaultStates = 4000
	closurePartHistories = 6000 // histories per part file
)

func rep(b byte, n int) []byte { return []byte(strings.Repeat(string([]byte{b}), n)) }

func cat(parts ...[]byte) []byte {
	var out []byte
	for _, p := range parts {
		out = append(out, p...)
	}
	return out
}

func xs(keys ...[]byte) []string {
	var out []string
	for _, k := range keys {
		out = append(out, xhex(k))
	}
	return out
}

func closureUniverses() []closureUniverse {
	a := func(n int) []byte { return rep('a', n) }
	s := func(t string) []byte { return []byte(t) }
	us := []closureUniverse{
		{
			// paths of length 9/10/11 around the 10-byte inline limit, splits inside/at/after it, merges on delete
			name: "inline", kind: "alpha", variant: "string",
			keys: xs(cat(a(9), s("x")), cat(a(9), s("y")), cat(a(10), s("x")), cat(a(10), s("y")), cat(a(11), s("x")), cat(a(11), s("y"))),
			// a^10 (proper prefix), a^10 b x (diverges at offset 10: inside the stem a^11, beyond the inline bytes),
			// a^5 b a^5 x (diverges inside the inline part, same length and same last byte as a stored key)
			probes: xs(a(10), cat(a(10), s("bx")), cat(a(5), s("b"), a(5), s("x"))),
			pfx:    xs(a(9), a(11)),
		},
		{
			// keys that are prefixes of one another: terminator children, chains of one-byte paths, root collapse
			name: "nested", kind: "alpha", variant: "string",
			keys:   xs(s("ab"), s("abc"), s("abcd"), s("abcde"), s("abd"), s("b")),
			probes: xs(s("a"), s("ax"), s("abcdef")),
			pfx:    xs(s("ab"), s("abc")),
		},
		{
			// compressed paths of 20 and 12 bytes, read back from the minimum leaf
			name: "long", kind: "alpha", variant: "string",
			keys: xs(cat(a(20), s("1")), cat(a(20), s("2")), cat(a(12), s("b1")), cat(a(12), s("b2")), cat(a(5), s("c")), s("z")),
			// a^20 (proper prefix), a^15 b a^4 1 (diverges at offset 15, in the part of the path the descent skips),
			// a^11 c 1 (diverges at offset 11 of the 12-byte stem)
			probes: xs(a(20), cat(a(15), s("b"), a(4), s("1")), cat(a(11), s("c1"))),
			pfx:    xs(a(12), a(20)),
		},
		{
			// one branching position: 4 -> 16 growth and 16 -> 4 shrink at 3 in every order, boundary bytes
			name: "fan5", kind: "alpha", variant: "string",
			keys:   xs(s("k\x01"), s("k\x7f"), s("k\x80"), s("k\xff"), s("kA"), s("kB"), s("kC")),
			probes: xs(s("k"), s("jA"), s("k\xfe")),
			pfx:    xs(s("k")),
		},
		{
			// numeric tree, two levels
			name: "u16", kind: "u2", variant: "uint16",
			keys:   []string{"0", "ff", "100", "7fff", "8000", "ff00", "ffff"},
			probes: []string{"1", "7f00", "8001"},
		},
	}
	// collation: the key text carries the sort key computed by the real collator
	c := collatorByName("root")
	buf := &collate.Buffer{}
	ck := func(strs ...string) []string {
		var out []string
		for _, t := range strs {
			txt, _ := collKeyText(c, buf, t)
			out = append(out, txt)
		}
		return out
	}
	us = append(us, closureUniverse{
		name: "coll", kind: "coll", variant: "string:root",
		keys:     ck("a", "A", "á", "ab", "b", "aa"),
		probes:   ck("B", "ac", "abc"),
		pfx:      ck("a"),
		stateCap: 1500,
	})
	return us
}

// collPairsOK: the (original, sort key) pairs of a collation universe must be functional,
// injective and prefix-free (the hypothesis of the theorems about collation trees)
func collPairsOK(texts []string) bool {
	var sk [][]byte
	for _, t := range texts {
		i := strings.IndexByte(t, ':')
		sk = append(sk, xbytes(t[i+1:]))
	}
	for i := range sk {
		for j := range sk {
			if i == j {
				continue
			}
			m := min(len(sk[i]), len(sk[j]))
			if string(sk[i][:m]) == string(sk[j][:m]) {
				return false
			}
		}
	}
	return true
}

type closureOp struct {
	cmd string // "I" or "D"
	key int    // index into the universe
	val int
}

func (o closureOp) text(u *closureUniverse, tid string) string {
	if o.cmd == "I" {
		return fmt.Sprintf("I %s %s %d", tid, u.keys[o.key], o.val)
	}
	return fmt.Sprintf("D %s %s", tid, u.keys[o.key])
}

type closureState struct {
	parent int32 // -1: the empty tree
	op     int16 // operation (index into ops) that led here from parent
	depth  int16
	dead   bool // the operation that led here panicked: observed, never expanded
}

// closureApply runs one operation on the implementation; a panic becomes part of the state text
func closureApply(t treeDrv, u *closureUniverse, o closureOp) (panicked string) {
	defer func() {
		if r := recover(); r != nil {
			panicked = fmt.Sprint(r)
		}
	}()
	if o.cmd == "I" {
		t.Insert(u.keys[o.key], o.val)
	} else {
		t.Delete(u.keys[o.key])
	}
	return ""
}

func closureDump(t treeDrv) (d string) {
	defer func() {
		if r := recover(); r != nil {
			d = "DUMP PANIC " + fmt.Sprint(r)
		}
	}()
	return t.Dump()
}

// closureFile explores universe number idx (cycling) and writes its command file
// (maxStates 0: the universe's default bound); nextPart switches g.w to the next part file
func (g *gen) closureFile(idx int, profile string, depthBound, maxStates int, nextPart func(part int)) {
	us := closureUniverses()
	u := &us[idx%len(us)]
	if maxStates <= 0 {
		maxStates = closureDefaultStates
		if u.stateCap > 0 {
			maxStates = u.stateCap
		}
	}
	if u.kind == "coll" && !collPairsOK(append(append([]string{}, u.keys...), u.probes...)) {
		g.st.Skipped["closure:"+u.name+": collation pairs not injective/prefix-free"]++
		return
	}
	g.st.Kinds[u.kind+" "+u.variant+" closure:"+u.name]++
	for _, k := range u.keys {
		g.st.KeyLens[fmt.Sprint(len(k)/2/4*4)+"+"]++
	}

	// operations the search is closed under: Insert with the key's own value, Delete
	var ops []closureOp
	for i := range u.keys {
		ops = append(ops, closureOp{"I", i, 1 + i}, closureOp{"D", i, 0})
	}
	const altDelta = 100 // the alternative value of key i is 101+i

	states := []closureState{{parent: -1, op: -1}}
	pathOf := func(s int) []int16 {
		var rev []int16
		for s > 0 {
			rev = append(rev, states[s].op)
			s = int(states[s].parent)
		}
		for i, j := 0, len(rev)-1; i < j; i, j = i+1, j-1 {
			rev[i], rev[j] = rev[j], rev[i]
		}
		return rev
	}
	build := func(path []int16) treeDrv {
		t := newTree(u.kind, u.variant)
		for _, o := range path {
			closureApply(t, u, ops[o])
		}
		return t
	}
	// which keys a state holds (every key has one value inside the search)
	presentOf := func(path []int16) []bool {
		m := make([]bool, len(u.keys))
		for _, o := range path {
			m[ops[o].key] = ops[o].cmd == "I"
		}
		return m
	}
	keySetOf := func(m []bool) string {
		var ks []string
		for i, p := range m {
			if p {
				ks = append(ks, fmt.Sprint(i))
			}
		}
		return strings.Join(ks, ",")
	}

	empty := closureDump(newTree(u.kind, u.variant))
	index := map[string]int{empty: 0}
	rawPerKeySet := map[string]int{"": 1} // key set -> raw states holding exactly these keys
	complete := true
	cutByDepth, cutByStates := 0, 0
	transitions, selfLoops, probes, probeChanged := 0, 0, 0, 0
	maxDepth := 0
	perDepth := map[int]int{0: 1}

	lo, hi := u.keys[0], u.keys[0] // lowest and highest key of the universe in the tree's order
	{
		o := newOracle(u.kind, u.variant)
		for _, k := range u.keys {
			if o.cmp(o.parse(k), o.parse(lo)) < 0 {
				lo = k
			}
			if o.cmp(o.parse(k), o.parse(hi)) > 0 {
				hi = k
			}
		}
	}

	// the lines of a history are "<tag> <tid><rest>": everything but the tree id is prepared once
	type linePart struct{ tag, rest string }
	split := func(line string) linePart { // "<tag> T<rest>"
		f := strings.SplitN(line, " ", 3)
		if len(f) == 2 {
			return linePart{f[0], ""}
		}
		return linePart{f[0], " " + f[2]}
	}
	opLine := func(o closureOp) linePart { return split(o.text(u, "T")) }
	var opLines []linePart
	for _, o := range ops {
		opLines = append(opLines, opLine(o))
	}
	newLine := split(fmt.Sprintf("NEW T %s %s", u.kind, orDash(u.variant)))
	var batch []linePart
	for _, l := range closureBatch(u, profile, lo, hi) {
		batch = append(batch, split(l))
	}
	put := func(tid string, l linePart) {
		g.st.Ops[l.tag]++
		g.w.WriteString(l.tag)
		g.w.WriteByte(' ')
		g.w.WriteString(tid)
		g.w.WriteString(l.rest)
		g.w.WriteByte('\n')
	}
	tidN, part := 0, 0
	history := func(path []int16, o linePart) {
		if tidN > 0 && tidN%closurePartHistories == 0 && nextPart != nil {
			part++
			nextPart(part)
		}
		tid := "c" + strconv.Itoa(tidN)
		tidN++
		g.st.Histories++
		put(tid, newLine)
		for _, po := range path {
			put(tid, opLines[po])
		}
		put(tid, o)
		for _, l := range batch {
			put(tid, l)
		}
	}
	order := make([]int, len(ops))
	// breadth first: states are appended in order of discovery, so s walks the levels in turn
	for s := 0; s < len(states); s++ {
		if states[s].dead {
			continue
		}
		path := pathOf(s)
		depth := int(states[s].depth)
		present := presentOf(path)
		for i := range order {
			order[i] = i
		}
		for i := len(order) - 1; i > 0; i-- {
			j := g.r.n(i + 1)
			order[i], order[j] = order[j], order[i]
		}
		for _, oi := range order {
			o := ops[oi]
			t := build(path)
			pan := closureApply(t, u, o)
			next := closureDump(t)
			if pan != "" {
				next = "PANIC " + pan + " after " + next
			}
			transitions++
			if ns, seen := index[next]; seen {
				if ns == s {
					selfLoops++
				}
			} else {
				switch {
				case depth >= depthBound:
					complete = false
					cutByDepth++
				case len(states) >= maxStates:
					complete = false
					cutByStates++
				default:
					index[next] = len(states)
					states = append(states, closureState{parent: int32(s), op: int16(oi), depth: int16(depth + 1), dead: pan != ""})
					maxDepth = max(maxDepth, depth+1)
					perDepth[depth+1]++
					np := append([]bool{}, present...)
					np[o.key] = o.cmd == "I"
					rawPerKeySet[keySetOf(np)]++
				}
			}
			history(path, opLines[oi])
		}
		// one-step observation of the overwrite with another value, for every key the state holds
		var here string
		for _, oi := range order {
			if o := ops[oi]; o.cmd == "I" && present[o.key] {
				alt := closureOp{"I", o.key, o.val + altDelta}
				if here == "" {
					here = stripValues(closureDump(build(path)))
				}
				t := build(path)
				if pan := closureApply(t, u, alt); pan != "" || stripValues(closureDump(t)) != here {
					probeChanged++
				}
				probes++
				history(path, opLine(alt))
			}
		}
	}

	// statistics
	maxRaw, maxRawKs := 0, ""
	hist := map[int]int{} // raw states per key set -> number of key sets
	for ks, n := range rawPerKeySet {
		hist[n]++
		if n > maxRaw || (n == maxRaw && ks < maxRawKs) {
			maxRaw, maxRawKs = n, ks
		}
	}
	show := func(m map[int]int) string {
		var ds []int
		for d := range m {
			ds = append(ds, d)
		}
		sort.Ints(ds)
		var out []string
		for _, d := range ds {
			out = append(out, fmt.Sprintf("%d:%d", d, m[d]))
		}
		return strings.Join(out, " ")
	}
	if g.st.Closure == nil {
		g.st.Closure = map[string]map[string]any{}
	}
	g.st.Closure[u.name] = map[string]any{
		"kind":                          u.kind + " " + u.variant,
		"profile":                       map[string]string{"": "full"}[profile] + profile,
		"keys":                          len(u.keys),
		"operations_per_state":          len(ops),
		"closure_states":                len(states),
		"closure_transitions":           transitions,
		"closure_depth":                 maxDepth,
		"closure_complete":              complete,
		"depth_bound":                   depthBound,
		"state_bound":                   maxStates,
		"new_states_cut_by_depth_bound": cutByDepth,
		"new_states_cut_by_state_bound": cutByStates,
		"self_loops":                    selfLoops,
		"states_per_depth":              show(perDepth),
		"overwrite_probes":              probes,
		"overwrite_changed_structure":   probeChanged,
		"histories":                     transitions + probes,
		"part_files":                    part + 1,
		// how many raw states share one key set (= one abstract content: values are fixed inside the search)
		"key_sets_reached":                 len(rawPerKeySet),
		"key_sets_possible":                1 << len(u.keys),
		"max_raw_states_for_one_key_set":   maxRaw,
		"key_set_with_most_raw_states":     closureKeySetText(u, maxRawKs),
		"key_sets_by_number_of_raw_states": show(hist),
	}
}

func closureKeySetText(u *closureUniverse, ks string) string {
	if ks == "" {
		return "{}"
	}
	var out []string
	for _, f := range strings.Split(ks, ",") {
		var i int
		fmt.Sscan(f, &i)
		out = append(out, collOrig(u.keys[i]))
	}
	return "{" + strings.Join(out, " ") + "}"
}

// closureBatch: the observations of the tree after the last operation of a history (tree id T)
func closureBatch(u *closureUniverse, profile, lo, hi string) []string {
	var searches []string
	for _, k := range u.keys {
		searches = append(searches, "S T "+k)
	}
	for _, k := range u.probes {
		searches = append(searches, "S T "+k)
	}
	switch profile {
	case "shape":
		return []string{"DUMP T", "SIZE T"}
	case "map":
		return append([]string{"SIZE T"}, searches...)
	case "", "full":
	default:
		panic("unknown closure profile " + profile)
	}
	out := append([]string{"DUMP T", "SIZE T", "MIN T", "MAX T", "ALL T -", "BWD T -"}, searches...)
	out = append(out, fmt.Sprintf("RNG T %s %s -", lo, hi))
	for _, p := range u.pfx {
		out = append(out, "PFX T "+p+" -")
	}
	return out
}

// closureArgs: `harness gen closure <seed> <count> <outdir> [depth maxstates]` (0 = default)
func closureArgs(args []string) (depth, maxStates int) {
	depth, maxStates = closureDefaultDepth, 0
	if len(args) > 4 {
		var n int
		if _, err := fmt.Sscan(args[4], &n); err == nil && n > 0 {
			depth = n
		}
	}
	if len(args) > 5 {
		var n int
		if _, err := fmt.Sscan(args[5], &n); err == nil && n > 0 {
			maxStates = n
		}
	}
	return
}
