package main

import (
	"fmt"
	"os"

	art "github.com/Clement-Jean/go-art"
)

func runtimeMain(cmd string, args []string) {
	switch cmd {
	case "layouts":
		for _, l := range art.VerifLayouts() {
			fmt.Println(l)
		}
	case "pools":
		seen, dirty := art.VerifPoolAudit(64)
		fmt.Printf("pool-audit seen=%d dirty=%d\n", seen, dirty)
	default:
		fmt.Fprintln(os.Stderr, "not implemented:", cmd)
		os.Exit(2)
	}
}
