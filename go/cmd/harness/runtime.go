package main

import (
	"fmt"
	"os"

	art "github.com/Clement-Jean/go-art"
)

func runtimeMain(cmd string, args []string) {
	switch cmd {
	case "layouts":
		for _, l := range art.VerifLayouts() {
			fmt.Println(l)
		}
	case "pools":
		seen, dirty := art.VerifPoolAudit(64)
		fmt.Printf("pool-audit seen=%d dirty=%d\n", seen, dirty)
	case "race": // C16, see runtime_race.go
		runtimeExit(raceMain(args))
	case "heap": // C17, see runtime_heap.go
		runtimeExit(heapMain(args))
	case "gcstress": // C18, see runtime_gc.go
		runtimeExit(gcMain(args))
	default:
		fmt.Fprintln(os.Stderr, "not implemented:", cmd)
		os.Exit(2)
	}
}
