package main

// Dense scenarios: wide inner nodes (class 48 and 256) NESTED below one another, two or
// three levels deep, on the leftmost and the rightmost path of the tree.  The branch
// bytes of the deeper nodes are chosen independently of the ones above (a deeper node's
// largest byte is often larger, and its smallest byte often smaller, than its parent's),
// and the ends are then eaten away key by key and subtree by subtree, with every kind of
// ordered query after each step.  Added after a seeded change (the scan index of
// maximum() carried over from one level to the next) that needed two nested wide nodes
// on the rightmost path and went unnoticed by every other family.

import (
	"fmt"
	"sort"
	"strconv"
)

var denseKinds = []kindSpec{
	{"alpha", "string"}, {"alpha", "bytes"}, {"u2", "uint16"}, {"u4", "uint32"}, {"u8", "uint64"}, {"s2", "int16"}, {"s4", "int32"}, {"s8", "int64"},
}

func denseSupported(ks kindSpec) bool {
	for _, k := range denseKinds {
		if k == ks {
			return true
		}
	}
	return false
}

func (g *gen) dense(tid string, ks kindSpec, prof string) {
	r := g.r
	p := profiles[prof]
	kind := ks.kind
	g.st.Kinds[kind+" "+ks.variant+" dense"]++
	g.st.Histories++
	g.emit("NEW %s %s %s", tid, kind, orDash(ks.variant))

	depth := 2
	var key func(e [3]int) string
	lo := 0 // smallest usable branch byte
	if kind == "alpha" {
		lo = 1
		if r.chance(50) {
			depth = 3
		}
		stem := make([]byte, pick(r, []int{0, 1, 3, 9, 12}))
		for j := range stem {
			stem[j] = pick(r, boundaryBytes)
		}
		tail := []byte{}
		if r.chance(40) {
			tail = []byte{pick(r, boundaryBytes)}
		}
		key = func(e [3]int) string {
			k := append([]byte{}, stem...)
			for i := 0; i < depth; i++ {
				k = append(k, byte(e[i]))
			}
			return xhex(append(k, tail...))
		}
	} else {
		w, _ := strconv.Atoi(kind[1:])
		if w >= 3 && r.chance(50) {
			depth = 3
		}
		pos := uint(r.n(w - depth + 1)) // the least significant branching byte
		mask := ^uint64(0)
		if w < 8 {
			mask = (uint64(1) << (8 * uint(w))) - 1
		}
		base := r.next() & mask
		key = func(e [3]int) string {
			v := base
			for i := 0; i < depth; i++ {
				sh := 8 * (pos + uint(depth-1-i))
				v = (v &^ (uint64(0xff) << sh)) | uint64(e[i])<<sh
			}
			if kind[0] == 's' { // e is in ENCODED order: the encoding flips the sign bit
				v ^= uint64(1) << (8*uint(w) - 1)
				sh := 64 - 8*uint(w)
				return showS(int64(v<<sh) >> sh)
			}
			return showU(v)
		}
	}

	// n distinct bytes from [from, to)
	bytesOf := func(n, from, to int) []int {
		var all []int
		for b := from; b < to; b++ {
			all = append(all, b)
		}
		for i := len(all) - 1; i > 0; i-- {
			j := r.n(i + 1)
			all[i], all[j] = all[j], all[i]
		}
		if n > len(all) {
			n = len(all)
		}
		s := append([]int{}, all[:n]...)
		sort.Ints(s)
		return s
	}
	window := func() (int, int) {
		switch r.n(4) {
		case 0:
			return lo, 0x70 // everything small: deeper levels reach higher
		case 1:
			return 0x90, 256 // everything large: deeper levels reach lower
		case 2:
			return 0x40, 0xc0
		}
		return lo, 256
	}
	wide := []int{17, 24, 40, 48, 49, 60, 100, 256}

	var keys [][3]int
	fa, ta := window()
	A := bytesOf(pick(r, wide[:7]), fa, ta)
	for ai, a := range A {
		isWideA := ai == 0 || ai == len(A)-1 || r.chance(8)
		nb := 1
		if isWideA {
			nb = pick(r, wide)
		}
		fb, tb := window()
		B := bytesOf(nb, fb, tb)
		for bi, b := range B {
			if depth == 2 {
				keys = append(keys, [3]int{a, b, 0})
				continue
			}
			nc := 1
			if isWideA && (bi == 0 || bi == len(B)-1) && (ai == 0 || ai == len(A)-1) {
				nc = pick(r, wide[:7])
			}
			fc, tc := window()
			for _, c := range bytesOf(nc, fc, tc) {
				keys = append(keys, [3]int{a, b, c})
			}
		}
	}
	if len(keys) > 900 {
		// keep both ends, thin out the middle
		sort.Slice(keys, func(i, j int) bool { return lessE(keys[i], keys[j]) })
		var keep [][3]int
		for i, k := range keys {
			if i < 300 || i >= len(keys)-300 || r.chance(20) {
				keep = append(keep, k)
			}
		}
		keys = keep
	}
	for i := len(keys) - 1; i > 0; i-- {
		j := r.n(i + 1)
		keys[i], keys[j] = keys[j], keys[i]
	}
	live := map[[3]int]bool{}
	sorted := func() [][3]int {
		var l [][3]int
		for k := range live {
			l = append(l, k)
		}
		sort.Slice(l, func(i, j int) bool { return lessE(l[i], l[j]) })
		return l
	}
	stop := func(n int) string {
		if p.multipass || r.chance(20) {
			switch r.n(3) {
			case 0:
				return fmt.Sprintf("%d/-", r.n(n+1))
			case 1:
				return fmt.Sprintf("%d/%d/-", r.n(n+1), r.n(n+2))
			}
			return "-/-"
		}
		if r.chance(70) {
			return "-"
		}
		return strconv.Itoa(r.n(n + 2))
	}
	batch := func(full bool) {
		l := sorted()
		n := len(l)
		g.emit("SIZE %s", tid)
		g.emit("MIN %s", tid)
		g.emit("MAX %s", tid)
		g.emit("TOPK %s %x %s", tid, pick(r, []int{1, 2, 3, 20, n, n + 1}), stop(3))
		g.emit("BOTK %s %x %s", tid, pick(r, []int{1, 2, 3, 20, n, n + 1}), stop(3))
		if n > 0 {
			g.emit("S %s %s", tid, key(l[n-1]))
			g.emit("S %s %s", tid, key(l[0]))
			g.emit("S %s %s", tid, key(pick(r, l)))
			a, b := pick(r, l), pick(r, l)
			g.emit("RNG %s %s %s %s", tid, key(a), key(b), stop(n))
			g.emit("RNG %s %s %s %s", tid, key(l[n-1-r.n(min(n, 4))]), key(l[n-1]), stop(4))
			g.emit("RNG %s %s %s %s", tid, key(l[0]), key(l[r.n(min(n, 4))]), stop(4))
		}
		if full || r.chance(25) {
			g.emit("ALL %s %s", tid, stop(n))
			g.emit("BWD %s %s", tid, stop(n))
			g.emit("DUMP %s", tid)
		} else {
			g.emit("ALL %s %d", tid, 1+r.n(5))
			g.emit("BWD %s %d", tid, 1+r.n(5))
		}
	}
	for i, k := range keys {
		g.emit("I %s %s %d", tid, key(k), 1+r.n(1000))
		live[k] = true
		if i > 0 && (i%97 == 0 || r.chance(1)) {
			batch(false)
		}
	}
	batch(true)
	// eat the ends away
	for round := 0; round < 6 && len(live) > 0; round++ {
		l := sorted()
		n := len(l)
		var victims [][3]int
		switch r.n(6) {
		case 0: // the largest keys, one at a time
			for i := 0; i < 1+r.n(20) && i < n; i++ {
				victims = append(victims, l[n-1-i])
			}
		case 1: // the smallest keys
			for i := 0; i < 1+r.n(20) && i < n; i++ {
				victims = append(victims, l[i])
			}
		case 2: // everything below the largest top-level byte
			for _, k := range l {
				if k[0] == l[n-1][0] {
					victims = append(victims, k)
				}
			}
		case 3: // everything below the smallest top-level byte
			for _, k := range l {
				if k[0] == l[0][0] {
					victims = append(victims, k)
				}
			}
		case 4: // the rightmost second-level subtree
			for _, k := range l {
				if k[0] == l[n-1][0] && k[1] == l[n-1][1] {
					victims = append(victims, k)
				}
			}
		default: // a random third
			for _, k := range l {
				if r.chance(33) {
					victims = append(victims, k)
				}
			}
		}
		for i, k := range victims {
			g.emit("D %s %s", tid, key(k))
			delete(live, k)
			if i%7 == 3 && r.chance(30) {
				g.emit("MAX %s", tid)
				g.emit("MIN %s", tid)
				g.emit("TOPK %s 2 -", tid)
				g.emit("BOTK %s 2 -", tid)
			}
		}
		batch(round%2 == 1)
	}
	g.emit("SIZE %s", tid)
	g.emit("ALL %s -", tid)
	g.emit("DUMP %s", tid)
}

func lessE(a, b [3]int) bool {
	for i := 0; i < 3; i++ {
		if a[i] != b[i] {
			return a[i] < b[i]
		}
	}
	return false
}
