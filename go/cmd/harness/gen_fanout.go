package main

// Scripted fan-out scenarios: one branching position of one tree is taken through the
// size classes 4 -> 16 -> 48 -> 256 and back, with the boundary bytes 0x00/0x01/0x7f/
// 0x80/0xfe/0xff present, deletions in chosen orders (largest first, smallest first,
// middle, random), re-insertion of new bytes right after a deletion (slot reuse), and a
// batch of every kind of query after each step that sits next to a grow/shrink
// threshold.  Probes of the keys deleted most recently (Search and Delete of an absent
// key) look at stale slots.  Added after seeded changes that needed exactly such
// histories (a node16 filled to 16 and emptied from the top, a full node256, the child
// under 0xff when a node256 shrinks or is recycled) went unnoticed by random histories.

import (
	"fmt"
	"strconv"
	"strings"

	"golang.org/x/text/collate"
)

var fanKinds = []kindSpec{
	{"alpha", "string"}, {"alpha", "bytes"}, {"u1", "uint8"}, {"u2", "uint16"}, {"u4", "uint32"},
	{"u8", "uint64"}, {"s1", "int8"}, {"s2", "int16"}, {"s8", "int64"},
}

var nearThreshold = map[int]bool{1: true, 2: true, 3: true, 4: true, 5: true, 11: true, 12: true, 13: true, 15: true, 16: true, 17: true,
	36: true, 37: true, 38: true, 47: true, 48: true, 49: true, 254: true, 255: true, 256: true}

var fanTargets = []int{1, 2, 3, 4, 5, 12, 13, 16, 17, 30, 37, 38, 48, 49, 60, 120, 255, 256}

func fanSupported(ks kindSpec) bool {
	for _, k := range fanKinds {
		if k == ks {
			return true
		}
	}
	return false
}

// fanout writes one scripted history on a fresh tree
func (g *gen) fanout(tid string, ks kindSpec, prof string) {
	r := g.r
	p := profiles[prof]
	kind := ks.kind
	g.st.Kinds[kind+" "+ks.variant+" fanout"]++
	g.st.Histories++
	g.emit("NEW %s %s %s", tid, kind, orDash(ks.variant))

	// the key under branch byte b (b = -1: the stem itself, byte-string trees only)
	var key func(b int) string
	var pfxKey string
	maxB := 256
	twoLevel := r.chance(35) // some children are inner nodes (two keys below them)
	if kind == "alpha" {
		stem := make([]byte, pick(r, stemLens))
		base := pick(r, boundaryBytes)
		for j := range stem {
			stem[j] = base
			if r.chance(10) {
				stem[j] = pick(r, boundaryBytes)
			}
		}
		tail := []byte{}
		if r.chance(40) {
			tail = []byte{pick(r, boundaryBytes)}
		}
		pfxKey = xhex(stem)
		key = func(b int) string {
			if b == 0 { // the terminator child: the stem itself is a key
				return xhex(stem)
			}
			return xhex(append(append(append([]byte{}, stem...), byte(b)), tail...))
		}
	} else {
		w, _ := strconv.Atoi(kind[1:])
		pos := uint(r.n(w)) // which byte (from the least significant) branches
		mask := ^uint64(0)
		if w < 8 {
			mask = (uint64(1) << (8 * uint(w))) - 1
		}
		base := r.next() & mask
		if r.chance(50) {
			base = pick(r, numBoundaries(w, false)) & mask
		}
		key = func(b int) string {
			v := (base &^ (uint64(0xff) << (8 * pos))) | uint64(b)<<(8*pos)
			v &= mask
			if kind[0] == 's' {
				sh := 64 - 8*uint(w)
				return showS(int64(v<<sh) >> sh)
			}
			return showU(v)
		}
	}
	// a second key below the same branch byte (makes that child an inner node)
	key2 := func(b int) (string, bool) {
		if !twoLevel || b%5 != 0 {
			return "", false
		}
		k := key(b)
		if kind == "alpha" {
			if b == 0 {
				return "", false
			}
			return k + "7e", true
		}
		w, _ := strconv.Atoi(kind[1:])
		if w < 2 {
			return "", false
		}
		return "", false
	}

	// candidate bytes in a random order, boundary bytes early
	var order []int
	for b := 0; b < maxB; b++ {
		order = append(order, b)
	}
	for i := len(order) - 1; i > 0; i-- {
		j := r.n(i + 1)
		order[i], order[j] = order[j], order[i]
	}
	special := []int{0x00, 0x01, 0x7f, 0x80, 0xfe, 0xff}
	at := 0
	for _, s := range special {
		if r.chance(70) {
			for i, b := range order {
				if b == s {
					j := at + r.n(4)
					if j >= len(order) {
						j = len(order) - 1
					}
					order[i], order[j] = order[j], order[i]
					at += 1 + r.n(3)
					break
				}
			}
		}
	}
	present := map[int]bool{}
	var recentlyDeleted []int
	var everDeleted []int
	next := 0 // next unused position in order (bytes never inserted so far)
	live := func() []int {
		var l []int
		for b := 0; b < maxB; b++ {
			if present[b] {
				l = append(l, b)
			}
		}
		return l
	}
	stop := func(n int) string {
		if p.multipass || r.chance(20) {
			switch r.n(4) {
			case 0:
				return "0/-"
			case 1:
				return fmt.Sprintf("%d/-", r.n(n+1))
			case 2:
				return fmt.Sprintf("%d/%d/-", r.n(n+1), r.n(n+2))
			}
			return "-/-"
		}
		if r.chance(75) {
			return "-"
		}
		return strconv.Itoa(r.n(n + 2))
	}
	batch := func() {
		l := live()
		n := len(l)
		if n > 0 {
			for i := 0; i < 2; i++ {
				g.emit("S %s %s", tid, key(pick(r, l)))
			}
		}
		probes := append([]int{}, recentlyDeleted...)
		if len(everDeleted) > 0 { // the largest and smallest byte ever removed: what a stale lane or slot would still hold
			mx, mn := everDeleted[0], everDeleted[0]
			for _, d := range everDeleted {
				if d > mx {
					mx = d
				}
				if d < mn {
					mn = d
				}
			}
			probes = append(probes, mx, mn, pick(r, everDeleted))
		}
		for _, b := range probes {
			if !present[b] {
				g.emit("S %s %s", tid, key(b))
				if r.chance(60) {
					g.emit("D %s %s", tid, key(b))
				}
			}
		}
		g.emit("S %s %s", tid, key(r.n(maxB)))
		g.emit("SIZE %s", tid)
		g.emit("MIN %s", tid)
		g.emit("MAX %s", tid)
		g.emit("ALL %s %s", tid, stop(n))
		g.emit("BWD %s %s", tid, stop(n))
		g.emit("TOPK %s %x %s", tid, pick(r, []int{1, 2, 3, n, n + 1}), stop(3))
		g.emit("BOTK %s %x %s", tid, pick(r, []int{1, 2, 3, n, n + 1}), stop(3))
		if n > 0 {
			g.emit("RNG %s %s %s %s", tid, key(l[0]), key(l[n-1]), stop(n))
			a, b := pick(r, l), r.n(maxB)
			g.emit("RNG %s %s %s %s", tid, key(a), key(b), stop(n))
			g.emit("RNG %s %s %s %s", tid, key(r.n(maxB)), key(maxB-1), stop(n))
			if kind == "alpha" {
				g.emit("RNG %s %s x %s", tid, key(pick(r, l)), stop(n))
			}
		}
		if kind == "alpha" {
			g.emit("PFX %s %s %s", tid, pfxKey, stop(n))
			if len(pfxKey) > 3 {
				g.emit("PFX %s %s %s", tid, pfxKey[:len(pfxKey)-2], stop(n))
			}
		}
		g.emit("DUMP %s", tid)
	}
	ins := func(b int) {
		g.emit("I %s %s %d", tid, key(b), 1+r.n(1000))
		if k2, ok := key2(b); ok {
			g.emit("I %s %s %d", tid, k2, 1+r.n(1000))
		}
		present[b] = true
	}
	del := func(b int) {
		if k2, ok := key2(b); ok {
			g.emit("D %s %s", tid, k2)
		}
		g.emit("D %s %s", tid, key(b))
		delete(present, b)
		recentlyDeleted = append(recentlyDeleted, b)
		everDeleted = append(everDeleted, b)
		if len(recentlyDeleted) > 3 {
			recentlyDeleted = recentlyDeleted[1:]
		}
	}
	legs := 3 + r.n(4)
	size := 0
	budget := 1400
	var plan []int
	if r.chance(60) {
		plan = pick(r, [][]int{{16, 3, 16, 2}, {16, 2, 5}, {17, 12, 3, 1}, {48, 13, 48, 12}, {49, 37, 12, 3, 0}, {256, 37, 12, 3},
			{256, 255, 256, 200}, {4, 1, 4}, {5, 3, 1, 5}, {49, 38, 49, 36}, {17, 13, 17, 12, 17}})
		legs = len(plan)
	}
	for leg := 0; leg < legs && budget > 0; leg++ {
		target := pick(r, fanTargets)
		if plan != nil {
			target = plan[leg]
		} else if leg == 0 && r.chance(50) {
			target = pick(r, []int{16, 17, 48, 49, 256})
		}
		if target > maxB {
			target = maxB
		}
		if target > size {
			for size < target && budget > 0 {
				// a byte never used, or (when exhausted) any absent one
				b := -1
				for next < len(order) {
					if !present[order[next]] {
						b = order[next]
						next++
						break
					}
					next++
				}
				if b < 0 {
					for c := 0; c < maxB; c++ {
						if !present[c] {
							b = c
							break
						}
					}
				}
				if b < 0 {
					break
				}
				ins(b)
				size++
				budget--
				if nearThreshold[size] && r.chance(60) || r.chance(3) {
					batch()
					budget -= 12
				}
			}
		} else {
			mode := r.n(4) // 0 largest first, 1 smallest first, 2 random, 3 from the middle
			for size > target && budget > 0 {
				l := live()
				var b int
				switch mode {
				case 0:
					b = l[len(l)-1]
				case 1:
					b = l[0]
				case 2:
					b = pick(r, l)
				default:
					b = l[len(l)/2]
				}
				del(b)
				size--
				budget--
				if r.chance(8) { // slot reuse: a new byte right after a deletion
					for c := r.n(maxB); ; c = (c + 1) % maxB {
						if !present[c] {
							ins(c)
							size++
							break
						}
					}
				}
				if nearThreshold[size] && r.chance(60) || r.chance(3) {
					batch()
					budget -= 12
				}
			}
		}
		batch()
	}
	if g.drain || r.chance(30) {
		for _, b := range live() {
			del(b)
		}
		batch()
		for i := 0; i < 6; i++ {
			ins(r.n(maxB))
		}
		batch()
	}
	g.emit("SIZE %s", tid)
	g.emit("ALL %s -", tid)
	g.emit("DUMP %s", tid)
}

// a probe that the collator cannot tell from s although its bytes differ: the canonically
// decomposed spelling, or s with an ignorable code point (soft hyphen) inserted
func collEquivalent(g *gen, s string) string {
	rs := []rune(s)
	dec := map[rune]string{'á': "á", 'ä': "ä", 'å': "å", 'ç': "ç", 'é': "é", 'ö': "ö", 'ô': "ô", 'ü': "ü"}
	var sb strings.Builder
	changed := false
	for _, c := range rs {
		if d, ok := dec[c]; ok && !changed {
			sb.WriteString(d)
			changed = true
		} else {
			sb.WriteRune(c)
		}
	}
	if changed {
		return sb.String()
	}
	i := g.r.n(len(rs) + 1)
	return string(rs[:i]) + "­" + string(rs[i:])
}

// longpath: keys that share a compressed path longer than the ten inline bytes, and probes
// that differ from a stored key only inside the part of the path the descent skips without
// looking (offsets 10 .. prefixLen-1), or end there.  Search and Delete of such look-alikes
// must report absent/false and must leave the tree alone; only the final comparison of the
// whole key at the leaf protects against them.
func (g *gen) longpath(tid string, ks kindSpec, prof string) {
	r := g.r
	kind := ks.kind
	variant := ks.variant
	var mk func(stem []byte, tail string) string // key text from the variable-length part
	var c *collate.Collator
	buf := &collate.Buffer{}
	switch kind {
	case "alpha":
		mk = func(stem []byte, tail string) string { return xhex(append(append([]byte{}, stem...), tail...)) }
	case "coll":
		c = collatorByName(collNameOf(variant))
		mk = func(stem []byte, tail string) string {
			t, _ := collKeyText(c, buf, string(stem)+tail)
			return t
		}
	default: // compound with a trailing string field
		sch := pick(r, []string{"str", "u1,str", "u2,str", "u8,str", "s4,str", "f4,u2,str", "u8,u8,str"})
		kind = "comp:" + sch
		var nums []string
		for _, f := range strings.Split(sch, ",") {
			if f != "str" {
				nums = append(nums, g.numKeySmall(f))
			}
		}
		mk = func(stem []byte, tail string) string {
			return strings.Join(append(append([]string{}, nums...), xhex(append(append([]byte{}, stem...), tail...))), ",")
		}
		variant = ""
	}
	g.st.Kinds[kind+" "+variant+" longpath"]++
	g.st.Histories++
	g.emit("NEW %s %s %s", tid, kind, orDash(variant))
	letters := []byte("abcdefghijklmnopqrstuvwxyz")
	L := 11 + r.n(20)
	stem := make([]byte, L)
	for i := range stem {
		if ks.kind == "coll" {
			stem[i] = pick(r, letters)
		} else {
			stem[i] = pick(r, boundaryBytes)
		}
	}
	tails := []string{"1", "2", "3x", "4", "zz"}
	if ks.kind == "coll" {
		tails = []string{"b", "c", "dx", "e", "zz"}
	}
	n := 2 + r.n(4)
	var stored []string
	for i := 0; i < n && i < len(tails); i++ {
		k := mk(stem, tails[i])
		stored = append(stored, k)
		g.emit("I %s %s %d", tid, k, 1+r.n(1000))
	}
	// a second long path below the first branch point
	if r.chance(50) {
		sub := append(append([]byte{}, stem...), []byte(tails[0])...)
		for i := 0; i < 12; i++ {
			if ks.kind == "coll" {
				sub = append(sub, pick(r, letters))
			} else {
				sub = append(sub, pick(r, boundaryBytes))
			}
		}
		for _, t := range tails[:2] {
			k := mk(sub, t)
			stored = append(stored, k)
			g.emit("I %s %s %d", tid, k, 1+r.n(1000))
		}
		stem = sub
	}
	g.emit("DUMP %s", tid)
	alt := func(b byte) byte {
		if ks.kind == "coll" {
			for {
				x := pick(r, letters)
				if x != b {
					return x
				}
			}
		}
		x := b ^ byte(1+r.n(3))
		if x == 0 {
			x = 2
		}
		return x
	}
	for round := 0; round < 2; round++ {
		for i := 0; i < len(stem); i++ {
			if i < 8 && !r.chance(20) {
				continue
			}
			look := append([]byte{}, stem...)
			look[i] = alt(look[i])
			t := pick(r, tails[:n])
			lk := mk(look, t)
			g.emit("S %s %s", tid, lk)
			g.emit("D %s %s", tid, lk)
			if r.chance(30) {
				ck := mk(stem[:i], "")
				g.emit("S %s %s", tid, ck)
				g.emit("D %s %s", tid, ck)
			}
			if r.chance(25) {
				g.emit("SIZE %s", tid)
				g.emit("ALL %s -", tid)
			}
		}
		for _, k := range stored {
			g.emit("S %s %s", tid, k)
		}
		g.emit("SIZE %s", tid)
		g.emit("DUMP %s", tid)
		if round == 0 && len(stored) > 2 { // merge on delete lengthens paths further
			g.emit("D %s %s", tid, stored[1])
			stored = append(stored[:1], stored[2:]...)
		}
	}
	g.emit("ALL %s -", tid)
	g.emit("BWD %s -", tid)
	g.emit("MIN %s", tid)
	g.emit("MAX %s", tid)
}
