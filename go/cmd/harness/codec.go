package main

import (
	"bytes"
	"math"
	"strings"

	art "github.com/Clement-Jean/go-art"
)

func rt[K any](c art.BinaryComparableKey[K], k K, show func(K) string) ([]byte, string) {
	_, raw := c.Transform(k)
	enc := append([]byte{}, raw...)
	// what callers do with an encoding: append to it (tuple concatenation) and decode it more than once.  Neither
	// may change what the codec returns afterwards: an encoding served from shared storage, or a decoder that
	// rewrites its input, shows in a later command of the same file (or right here).
	_ = append(raw, 0x5a, 0xa5)
	dec := show(c.Restore(enc))
	if again := show(c.Restore(enc)); again != dec {
		return enc, dec + "!second-decode=" + again
	}
	if _, raw2 := c.Transform(k); !bytes.Equal(raw2, enc) {
		return raw2, dec + "!second-encode-differs"
	}
	return enc, dec
}

// codecRoundTrip runs the exported codec type for (kind, variant) on one key:
// Transform(k) and Restore(Transform(k)).
func codecRoundTrip(kind, variant, key string) ([]byte, string) {
	if strings.HasPrefix(kind, "comp:") {
		sc := parseSchema(kind[5:])
		return rt[string](sc, key, func(s string) string { return s })
	}
	switch variant {
	case "uint8":
		return rt[uint8](art.UnsignedBinaryKey[uint8]{}, uint8(parseU(key)), func(k uint8) string { return showU(uint64(k)) })
	case "uint16":
		return rt[uint16](art.UnsignedBinaryKey[uint16]{}, uint16(parseU(key)), func(k uint16) string { return showU(uint64(k)) })
	case "uint32":
		return rt[uint32](art.UnsignedBinaryKey[uint32]{}, uint32(parseU(key)), func(k uint32) string { return showU(uint64(k)) })
	case "uint64":
		return rt[uint64](art.UnsignedBinaryKey[uint64]{}, parseU(key), showU)
	case "uint":
		return rt[uint](art.UnsignedBinaryKey[uint]{}, uint(parseU(key)), func(k uint) string { return showU(uint64(k)) })
	case "int8":
		return rt[int8](art.SignedBinaryKey[int8]{}, int8(parseS(key)), func(k int8) string { return showS(int64(k)) })
	case "int16":
		return rt[int16](art.SignedBinaryKey[int16]{}, int16(parseS(key)), func(k int16) string { return showS(int64(k)) })
	case "int32":
		return rt[int32](art.SignedBinaryKey[int32]{}, int32(parseS(key)), func(k int32) string { return showS(int64(k)) })
	case "int64":
		return rt[int64](art.SignedBinaryKey[int64]{}, parseS(key), showS)
	case "int":
		return rt[int](art.SignedBinaryKey[int]{}, int(parseS(key)), func(k int) string { return showS(int64(k)) })
	case "float32":
		return rt[float32](art.FloatBinaryKey[float32]{}, math.Float32frombits(uint32(parseU(key))), showF32)
	case "float64":
		return rt[float64](art.FloatBinaryKey[float64]{}, math.Float64frombits(parseU(key)), showF64)
	}
	panic("no codec for " + kind + " " + variant)
}
