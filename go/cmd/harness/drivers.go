package main

// Uniform, text-keyed drivers over every instantiation of art.Tree, plus the
// schema codec used for compound trees (built from the library's own exported
// codecs).

import (
	"bytes"
	"encoding/hex"
	"fmt"
	"iter"
	"math"
	"math/bits"
	"strconv"
	"strings"

	art "github.com/Clement-Jean/go-art"
	"golang.org/x/text/collate"
	"golang.org/x/text/language"
)

type treeDrv interface {
	Insert(key string, v int)
	Search(key string) (int, bool)
	Delete(key string) bool
	Min() (string, int, bool)
	Max() (string, int, bool)
	Size() int
	Seq(tag string, args []string) iter.Seq2[string, int]
	Dump() string
	Raw() any
	TakeAlias() []string
	SetTrack(on bool)
}

type adapter[K any] struct {
	t     art.Tree[K, int]
	parse func(string) K
	show  func(K) string
	// per tree (the race leg runs many sessions at once): observations "a returned key changed afterwards",
	// and the last few []byte keys the tree handed out
	alias     []string
	yielded   *yieldRing
	untracked bool // shared by concurrent readers (race leg): the adapter itself must not write anything
}

func (a *adapter[K]) SetTrack(on bool) { a.untracked = !on }

type yieldRing struct {
	keys [8][]byte
	turn int
}

func (y *yieldRing) aliasOf(b []byte) []byte {
	if y == nil {
		return nil
	}
	for _, k := range y.keys {
		if len(k) > len(b) && len(b) > 0 && bytes.Equal(k[:len(b)], b) {
			return k[:len(b)]
		}
	}
	return nil
}

// TakeAlias returns and clears the observations collected since the last call
func (a *adapter[K]) TakeAlias() []string {
	if a.untracked {
		return nil
	}
	r := a.alias
	a.alias = nil
	return r
}

func (a *adapter[K]) Insert(key string, v int)      { a.t.Insert(a.parse(key), v) }
func (a *adapter[K]) Search(key string) (int, bool) { return a.t.Search(a.parse(key)) }
func (a *adapter[K]) Delete(key string) bool        { return a.t.Delete(a.parse(key)) }
func (a *adapter[K]) Min() (string, int, bool) {
	k, v, ok := a.t.Minimum()
	if !ok {
		return "", 0, false
	}
	return a.show(k), v, true
}
func (a *adapter[K]) Max() (string, int, bool) {
	k, v, ok := a.t.Maximum()
	if !ok {
		return "", 0, false
	}
	// Minimum's key must still read the same after Maximum was called
	if k0, _, ok0 := a.t.Minimum(); ok0 && !a.untracked {
		before := a.show(k0)
		a.t.Maximum()
		if now := a.show(k0); now != before {
			a.alias = append(a.alias, fmt.Sprintf("MAX: the key returned by Minimum() was %s and reads %s after Maximum()", before, now))
		}
	}
	return a.show(k), v, true
}
func (a *adapter[K]) Size() int { return a.t.Size() }
func (a *adapter[K]) Raw() any  { return a.t }
func (a *adapter[K]) Dump() string {
	d, ok := any(a.t).(interface{ VerifDump(func(int) string) string })
	if !ok {
		return "DUMP unavailable"
	}
	return d.VerifDump(func(v int) string { return strconv.Itoa(v) })
}
func (a *adapter[K]) Seq(tag string, args []string) iter.Seq2[string, int] {
	var s iter.Seq2[K, int]
	switch tag {
	case "ALL":
		s = a.t.All()
	case "BWD":
		s = a.t.Backward()
	case "TOPK":
		n, _ := strconv.ParseUint(args[0], 16, 64)
		s = a.t.TopK(uint(n))
	case "BOTK":
		n, _ := strconv.ParseUint(args[0], 16, 64)
		s = a.t.BottomK(uint(n))
	case "RNG":
		s = a.t.Range(a.parse(args[0]), a.parse(args[1]))
	case "PFX":
		s = a.t.Prefix(a.parse(args[0]))
	default:
		panic("bad seq tag " + tag)
	}
	if tag == "RNG" || tag == "PFX" {
		if _, isBytes := any(*new(K)).([]byte); isBytes {
			bufScribble() // Range / Prefix have returned: the bound buffers are the caller's again
		}
	}
	return func(yield func(string, int) bool) {
		// the keys handed to the consumer are kept and looked at again when the pass is over: a key that
		// reads differently then was returned in storage that later yields (or the tree) overwrite
		var ks []K
		var shown []string
		s(func(k K, v int) bool {
			str := a.show(k)
			if len(ks) < 4096 {
				ks, shown = append(ks, k), append(shown, str)
			}
			if kb, ok := any(k).([]byte); ok && len(kb) > 1 && a.yielded != nil && !a.untracked {
				a.yielded.keys[a.yielded.turn%len(a.yielded.keys)] = kb
				a.yielded.turn++
			}
			return yield(str, v)
		})
		for i := range ks {
			if now := a.show(ks[i]); now != shown[i] && !a.untracked {
				a.alias = append(a.alias, fmt.Sprintf("%s: key number %d was yielded as %s and reads %s after the pass", tag, i, shown[i], now))
				break
			}
		}
	}
}

// ---- key text formats ---------------------------------------------------------

func xbytes(s string) []byte {
	if len(s) == 0 || s[0] != 'x' {
		panic("bad byte-string key " + s)
	}
	b, err := hex.DecodeString(s[1:])
	if err != nil {
		panic(err)
	}
	return b
}
func xhex(b []byte) string { return "x" + hex.EncodeToString(b) }

func parseU(s string) uint64 {
	n, err := strconv.ParseUint(s, 16, 64)
	if err != nil {
		panic(err)
	}
	return n
}
func parseS(s string) int64 {
	neg := strings.HasPrefix(s, "-")
	m := parseU(strings.TrimPrefix(s, "-"))
	if neg {
		return -int64(m-1) - 1 // handles 0x8000000000000000
	}
	return int64(m)
}
func showU(n uint64) string { return strconv.FormatUint(n, 16) }
func showS(n int64) string {
	if n < 0 {
		return "-" + strconv.FormatUint(uint64(-(n+1))+1, 16)
	}
	return strconv.FormatUint(uint64(n), 16)
}
func showF64(f float64) string {
	if f != f {
		return "nan"
	}
	return showU(math.Float64bits(f))
}
func showF32(f float32) string {
	if f != f {
		return "nan"
	}
	return showU(uint64(math.Float32bits(f)))
}

func collOrig(s string) string { // "x<orig>:x<col>" -> "x<orig>"
	if i := strings.IndexByte(s, ':'); i >= 0 {
		return s[:i]
	}
	return s
}

func collatorByName(name string) *collate.Collator {
	switch name {
	case "root":
		return collate.New(language.Und)
	case "de":
		return collate.New(language.German)
	case "sv":
		return collate.New(language.Swedish)
	case "ennum":
		return collate.New(language.English, collate.Numeric)
	case "fr":
		return collate.New(language.French)
	}
	panic("unknown collator " + name)
}

func numDrv[K any](t art.Tree[K, int], parse func(string) K, show func(K) string) treeDrv {
	return &adapter[K]{t: t, parse: parse, show: show}
}

// newTree builds the implementation tree for a kind descriptor (alpha, u4, s8, f4,
// coll, comp:<schema>) and a variant (the Go key type, and the collator for coll).
func newTree(kind, variant string) treeDrv {
	switch {
	case kind == "alpha":
		if variant == "bytes" {
			// in -buf mode (C13) the key is a sub-slice of a sentinel-filled, reused caller buffer
			// a key that is a proper prefix of a key the tree yielded recently is passed as a RE-SLICE of that
			// yielded key (what a caller walking "parent directories" of returned keys does): its spare capacity
			// is the tree's own storage
			ring := &yieldRing{}
			d := numDrv(art.NewAlphaSortedTree[[]byte, int](), func(s string) []byte {
				b := xbytes(s)
				if a := ring.aliasOf(b); a != nil {
					return a
				}
				return bufKey(b)
			}, xhex)
			d.(*adapter[[]byte]).yielded = ring
			return d
		}
		return numDrv(art.NewAlphaSortedTree[string, int](),
			func(s string) string { return string(xbytes(s)) }, func(k string) string { return xhex([]byte(k)) })
	case kind == "coll":
		parts := strings.SplitN(variant, ":", 2)
		c := collatorByName(parts[1])
		switch parts[0] {
		case "bytes":
			return numDrv(art.NewCollationSortedTree[[]byte, int](art.WithCollator[[]byte, int](c)),
				func(s string) []byte { return bufKey(xbytes(collOrig(s))) }, xhex)
		case "runes":
			// WithCollator is declared for chars only: []rune trees keep the default (root) collator
			return numDrv(art.NewCollationSortedTree[[]rune, int](),
				func(s string) []rune { return []rune(string(xbytes(collOrig(s)))) },
				func(k []rune) string { return xhex([]byte(string(k))) })
		default:
			return numDrv(art.NewCollationSortedTree[string, int](art.WithCollator[string, int](c)),
				func(s string) string { return string(xbytes(collOrig(s))) },
				func(k string) string { return xhex([]byte(k)) })
		}
	case kind == "raw" && variant == "bytes":
		// the same with []byte keys and a Restore that ALIASES its input, as the library's own
		// AlphabeticalOrderKey[[]byte].Restore does: a key handed out must stay as it was handed out
		return numDrv(art.NewCompoundTree[[]byte, int](rawBytesCodec{}),
			func(s string) []byte { return bufKey(xbytes(s)) }, xhex)
	case kind == "raw":
		// a user codec that is not a tuple schema: the identity on byte strings (the caller keeps the key set prefix-free)
		return numDrv(art.NewCompoundTree[string, int](rawCodec{}),
			func(s string) string { return string(xbytes(s)) }, func(k string) string { return xhex([]byte(k)) })
	case strings.HasPrefix(kind, "comp:"):
		sc := parseSchema(kind[5:])
		return numDrv(art.NewCompoundTree[string, int](sc),
			func(s string) string { return s }, func(k string) string { return k })
	}
	switch variant {
	case "uint8":
		return numDrv(art.NewUnsignedBinaryTree[uint8, int](), func(s string) uint8 { return uint8(parseU(s)) }, func(k uint8) string { return showU(uint64(k)) })
	case "uint16":
		return numDrv(art.NewUnsignedBinaryTree[uint16, int](), func(s string) uint16 { return uint16(parseU(s)) }, func(k uint16) string { return showU(uint64(k)) })
	case "uint32":
		return numDrv(art.NewUnsignedBinaryTree[uint32, int](), func(s string) uint32 { return uint32(parseU(s)) }, func(k uint32) string { return showU(uint64(k)) })
	case "uint64":
		return numDrv(art.NewUnsignedBinaryTree[uint64, int](), func(s string) uint64 { return parseU(s) }, func(k uint64) string { return showU(k) })
	case "uint":
		return numDrv(art.NewUnsignedBinaryTree[uint, int](), func(s string) uint { return uint(parseU(s)) }, func(k uint) string { return showU(uint64(k)) })
	case "int8":
		return numDrv(art.NewSignedBinaryTree[int8, int](), func(s string) int8 { return int8(parseS(s)) }, func(k int8) string { return showS(int64(k)) })
	case "int16":
		return numDrv(art.NewSignedBinaryTree[int16, int](), func(s string) int16 { return int16(parseS(s)) }, func(k int16) string { return showS(int64(k)) })
	case "int32":
		return numDrv(art.NewSignedBinaryTree[int32, int](), func(s string) int32 { return int32(parseS(s)) }, func(k int32) string { return showS(int64(k)) })
	case "int64":
		return numDrv(art.NewSignedBinaryTree[int64, int](), func(s string) int64 { return parseS(s) }, func(k int64) string { return showS(k) })
	case "int":
		return numDrv(art.NewSignedBinaryTree[int, int](), func(s string) int { return int(parseS(s)) }, func(k int) string { return showS(int64(k)) })
	case "float32":
		return numDrv(art.NewFloatBinaryTree[float32, int](), func(s string) float32 { return math.Float32frombits(uint32(parseU(s))) }, showF32)
	case "float64":
		return numDrv(art.NewFloatBinaryTree[float64, int](), func(s string) float64 { return math.Float64frombits(parseU(s)) }, showF64)
	}
	panic("unknown kind/variant " + kind + " " + variant)
}

// ---- compound schema codec, built from the library's exported codecs ----------

type field struct {
	typ byte // 'u','s','f','t'(string)
	w   int
}
type rawCodec struct{}

func (rawCodec) Transform(k string) ([]byte, []byte) { b := []byte(k); return b, b }
func (rawCodec) Restore(b []byte) string             { return string(b) }

type rawBytesCodec struct{}

// (the encoding is a fresh slice: a compound tree keeps what Transform returns as the leaf's key)
func (rawBytesCodec) Transform(k []byte) ([]byte, []byte) { b := append([]byte{}, k...); return b, b }
func (rawBytesCodec) Restore(b []byte) []byte             { return b }

type schemaCodec struct{ fields []field }

func parseSchema(s string) schemaCodec {
	var sc schemaCodec
	for _, p := range strings.Split(s, ",") {
		if p == "str" {
			sc.fields = append(sc.fields, field{'t', 0})
			continue
		}
		w, err := strconv.Atoi(p[1:])
		if err != nil {
			panic(err)
		}
		sc.fields = append(sc.fields, field{p[0], w})
	}
	return sc
}

func encField(f field, txt string) []byte {
	var b []byte
	switch f.typ {
	case 'u':
		n := parseU(txt)
		switch f.w {
		case 1:
			_, b = art.UnsignedBinaryKey[uint8]{}.Transform(uint8(n))
		case 2:
			_, b = art.UnsignedBinaryKey[uint16]{}.Transform(uint16(n))
		case 4:
			_, b = art.UnsignedBinaryKey[uint32]{}.Transform(uint32(n))
		case 8:
			_, b = art.UnsignedBinaryKey[uint64]{}.Transform(n)
		}
	case 's':
		n := parseS(txt)
		switch f.w {
		case 1:
			_, b = art.SignedBinaryKey[int8]{}.Transform(int8(n))
		case 2:
			_, b = art.SignedBinaryKey[int16]{}.Transform(int16(n))
		case 4:
			_, b = art.SignedBinaryKey[int32]{}.Transform(int32(n))
		case 8:
			_, b = art.SignedBinaryKey[int64]{}.Transform(n)
		}
	case 'f':
		n := parseU(txt)
		switch f.w {
		case 4:
			_, b = art.FloatBinaryKey[float32]{}.Transform(math.Float32frombits(uint32(n)))
		case 8:
			_, b = art.FloatBinaryKey[float64]{}.Transform(math.Float64frombits(n))
		}
	case 't':
		_, s := art.AlphabeticalOrderKey[[]byte]{}.Transform(xbytes(txt))
		b = append(append([]byte{}, s...), 0) // terminated string field
	}
	if b == nil {
		panic(fmt.Sprintf("bad field %c%d", f.typ, f.w))
	}
	return b
}

func decField(f field, b []byte) string {
	switch f.typ {
	case 'u':
		switch f.w {
		case 1:
			return showU(uint64(art.UnsignedBinaryKey[uint8]{}.Restore(b)))
		case 2:
			return showU(uint64(art.UnsignedBinaryKey[uint16]{}.Restore(b)))
		case 4:
			return showU(uint64(art.UnsignedBinaryKey[uint32]{}.Restore(b)))
		case 8:
			return showU(art.UnsignedBinaryKey[uint64]{}.Restore(b))
		}
	case 's':
		switch f.w {
		case 1:
			return showS(int64(art.SignedBinaryKey[int8]{}.Restore(b)))
		case 2:
			return showS(int64(art.SignedBinaryKey[int16]{}.Restore(b)))
		case 4:
			return showS(int64(art.SignedBinaryKey[int32]{}.Restore(b)))
		case 8:
			return showS(art.SignedBinaryKey[int64]{}.Restore(b))
		}
	case 'f':
		switch f.w {
		case 4:
			return showF32(art.FloatBinaryKey[float32]{}.Restore(b))
		case 8:
			return showF64(art.FloatBinaryKey[float64]{}.Restore(b))
		}
	case 't':
		return xhex(art.AlphabeticalOrderKey[[]byte]{}.Restore(b[:len(b)-1]))
	}
	panic("bad field")
}

func (sc schemaCodec) Transform(k string) ([]byte, []byte) {
	parts := strings.Split(k, ",")
	var out []byte
	for i, f := range sc.fields {
		out = append(out, encField(f, parts[i])...)
	}
	return out, out
}

func (sc schemaCodec) Restore(b []byte) string {
	var parts []string
	off := 0
	for _, f := range sc.fields {
		if f.typ == 't' {
			parts = append(parts, decField(f, b[off:]))
			off = len(b)
			continue
		}
		parts = append(parts, decField(f, b[off:off+f.w]))
		off += f.w
	}
	return strings.Join(parts, ",")
}

var uintVariant, intVariant = func() (string, string) {
	return fmt.Sprintf("u%d", bits.UintSize/8), fmt.Sprintf("s%d", bits.UintSize/8)
}()
