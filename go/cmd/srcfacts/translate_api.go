// translate_api.go: the translator of the thin public methods of the six trees of /repo —
// restoreKey, Size, All, Backward, Minimum, Maximum, TopK, BottomK, Prefix, Range of
// alphaSortedTree, unsignedSortedTree, signedSortedTree, floatSortedTree, compoundSortedTree
// (trees.go, one template with different branches per kind) and collationSortedTree
// (collation.go) — to Gallina, re-run on every run. Output: Gen/ApiGen.v.
// Proofs/TranslateApiFacts.v proves every regenerated definition equal to the hand-written model
// of the public interface, Model/Api.v (do_range, do_prefix, opt_min / opt_max, restore, step),
// so an edit of one template branch that changes what one of these methods does breaks a theorem.
//
// It extends translate_tree.go / translate_iter.go (same type-checked package, same expression
// and statement translation, same conventions: Model/GoTree.v states what every read stands for)
// through the hooks of treeTr. The methods are short wrappers around functions that are translated
// already (all, backward, filter, rangeScan, topK, bottomK, lowestCommonParent, minimum, maximum,
// the Search methods): a call of one of them is a call of its translation in Gen/TreeGen.v /
// Gen/IterGen.v. What this file adds to the fragment:
//
//	types       the type parameter K of the tree: list N when its constraint is made of byte strings
//	            (chars; `chars | []rune`: read for the byte-string instantiations), else the abstract
//	            type K, a parameter of the definition; string -> list N; func(K, V) bool closures
//	the tree    t.root -> the parameter root : gref; t.size -> the parameter size : Z;
//	            t.<codec>.Transform(k) -> tr k, t.<codec>.Restore(b) -> rs b with the parameters
//	            tr : K -> list N * list N, rs : list N -> K (the codec is NOT translated here)
//	statements  x, y := t.<codec>.Transform(k);  k, v := t.restoreKey(p);  val, ok := t.Search(k);
//	            x, y = y, x;  var ( a K; b V ) never assigned (the zero values of `return a, b, false`);
//	            switch init; { case cond: .. } without tag (an if / else-if chain);
//	            p := func(k K, v V) bool { x := e; ..; return e } (a predicate, passed to filter);
//	            return func(yield func(K, V) bool) { .. } anywhere (the closure body in place, run with
//	            the consumer ans);  return f(.., t.restoreKey) with f one of the translated iterator
//	            functions;  return t.M(..) with M a sequence method translated before;
//	            return k, v, true / return zeroK, zeroV, false;  return e1, e2;  return e
//	expressions []byte(x) string(x) K(x) between byte strings and bytes.Clone(x) (the same bytes),
//	            bytes.Compare / strings.Compare -> bytes_compare, bytes.HasPrefix -> bytes_has_prefix,
//	            s[:hi] s[lo:hi] (checked), yield(k, v), calls of minimum / maximum /
//	            lowestCommonParent (each with its own budget parameter fuel_<name>)
//
// Every budget parameter is untrusted as in Gen/TreeGen.v: running out of it is a visible outcome.
package main

import (
	"fmt"
	"go/ast"
	"go/token"
	"go/types"
	"os"
	"path/filepath"
	"sort"
	"strings"
)

func init() {
	// the package is type-checked against stubs (translate_tree.go); the methods translated here also call bytes.Clone
	treeStubs["bytes"] += "func Clone(b []byte) []byte { return nil }\n"
}

// the sorts this file adds to those of translate_tree.go
const (
	tKey    tKind = 100 + iota // K: the key type of a tree whose keys are not byte strings (a parameter of the definition)
	tPredKV                    // K -> Z -> bool: a local closure func(k K, v V) bool
	tPairs                     // list (K * Z): the pairs yield was called with, last first
)

// names no Go local may take in a translated method
var apiFixedNames = strings.Fields(`K tr rs root size ans kres KDone KPanic KFuel seq_kv restore_list pred_restore
	bytes_has_prefix bytes_compare slice_to slice_from_to ires IDone IPanic IFuel ByReturn ByBreak ByEnd ByFuel
	SFound SAbsent SFuel rev app length`)

// ---------------------------------------------------------------- what is known before a method is translated

type apiIterParam struct {
	kind    string   // "sort", "restore", "pred", "iface"
	sort    tSort    // kind "sort"
	methods []string // kind "iface": its methods func() iter.Seq2[K, V], one Coq parameter each, in this order
}

// a function of tree.go returning an iterator closure, as Gen/IterGen.v defines it
type apiIterCallee struct {
	coq    string
	fuel   bool
	params []apiIterParam
}

// a Search method, as Gen/TreeGen.v defines it
type apiSearch struct {
	callee *treeCallee
	key    string // g_<tree>_search_key
	which  []int  // the results of Transform its key preparation takes (0: the first, 1: the second)
}

type apiResKind int

const (
	arSeq  apiResKind = iota // iter.Seq2[K, V]: kres, run with the consumer ans
	arOpt                    // (K, V, bool): gres (option (K * Z))
	arPair                   // (K, V): gres (K * Z)
	arInt                    // int: gres Z
)

// a method translated before
type apiMethod struct {
	coq     string
	kind    apiResKind
	budgets []string
	useRoot bool
	useSize bool
	params  []tSort
	leaves  string // a sequence method that is `return f(.., t.restoreKey)`: "g_f <budget> <args>", its run on leaves without the consumer
}

type apiTree struct {
	goName, short string
	keyBytes      bool   // K is a byte string
	codecField    string // bck / cok
	methods       map[string]*apiMethod
	search        *apiSearch
}

func (tr *apiTree) kCoq() string {
	if tr.keyBytes {
		return "list N"
	}
	return "K"
}

func (tr *apiTree) codecBinders() string {
	if tr.keyBytes {
		return "(tr : list N -> list N * list N) (rs : list N -> list N)"
	}
	return "(K : Type) (tr : K -> list N * list N) (rs : list N -> K)"
}

func (tr *apiTree) codecArgs() []string {
	if tr.keyBytes {
		return []string{"tr", "rs"}
	}
	return []string{"K", "tr", "rs"}
}

type apiEnv struct {
	sh      *treeSharedState
	callees map[string]*treeCallee
	iters   map[string]*apiIterCallee
}

func (env *apiEnv) find(file, name, recv string) *ast.FuncDecl {
	for _, f := range env.sh.files {
		if filepath.Base(env.sh.fset.Position(f.Pos()).Filename) != file {
			continue
		}
		for _, d := range f.Decls {
			if fd, ok := d.(*ast.FuncDecl); ok && fd.Name.Name == name && recvTypeName(fd) == recv {
				return fd
			}
		}
	}
	return nil
}

// The functions of Gen/IterGen.v are translated again (translate_iter.go, unchanged, into a scratch buffer) to
// learn their Coq signatures: whether they take a budget, and which Go parameter became which Coq parameter.
func newApiEnv(sh *treeSharedState) *apiEnv {
	env := &apiEnv{sh: sh, callees: map[string]*treeCallee{}, iters: map[string]*apiIterCallee{}}
	for k, v := range sh.callees {
		env.callees[k] = v
	}
	consts := map[string]string{}
	for _, fn := range []struct{ file, name, recv string }{{"node.go", "findChild", "nodeRef"}, {"tree.go", "lowestCommonParent", ""}} {
		if fd := env.find(fn.file, fn.name, fn.recv); fd != nil {
			_, warn, self := translateTreeFunc(sh.fset, sh.info, env.callees, consts, treeFuncSpec{fd: fd, coq: "g_" + fn.name, setup: iterSetup(false, nil)})
			if warn == "" && self != nil {
				env.callees[fn.name] = self
			}
		}
	}
	for _, name := range []string{"all", "backward", "filter", "rangeScan", "topK", "bottomK"} {
		fd := env.find("tree.go", name, "")
		if fd == nil {
			continue
		}
		coq := "g_" + name
		text, warn := translateIterFunc(sh, env.callees, consts, fd, coq, nil)
		if warn != "" {
			continue
		}
		ic := &apiIterCallee{coq: coq}
		for _, line := range strings.Split(text, "\n") {
			if strings.HasPrefix(line, "Definition "+coq+" ") {
				ic.fuel = strings.Contains(line, "(fuel : nat)")
			}
		}
		ok := true
		for _, f := range fd.Type.Params.List {
			for _, id := range f.Names {
				obj := sh.info.Defs[id]
				if obj == nil {
					ok = false
					continue
				}
				if s := treeSortOf(obj.Type()); s.k != tBad {
					ic.params = append(ic.params, apiIterParam{kind: "sort", sort: s})
					continue
				}
				switch u := obj.Type().Underlying().(type) {
				case *types.Signature:
					ps, rs := u.Params(), u.Results()
					switch {
					case ps.Len() == 1 && treeSortOf(ps.At(0).Type()).k == tPtr && rs.Len() == 2:
						ic.params = append(ic.params, apiIterParam{kind: "restore"})
						continue
					case ps.Len() == 2 && rs.Len() == 1 && treeSortOf(rs.At(0).Type()).k == tBool:
						ic.params = append(ic.params, apiIterParam{kind: "pred"})
						continue
					}
				case *types.Interface:
					var ms []string
					for i := 0; i < u.NumMethods(); i++ {
						m := u.Method(i)
						sig := m.Type().(*types.Signature)
						if sig.Params().Len() == 0 && sig.Results().Len() == 1 && namedName(sig.Results().At(0).Type()) == "Seq2" {
							ms = append(ms, m.Name())
						}
					}
					if len(ms) > 0 {
						ic.params = append(ic.params, apiIterParam{kind: "iface", methods: ms})
						continue
					}
				}
				ok = false
			}
		}
		if ok {
			env.iters[name] = ic
		}
	}
	return env
}

// ---------------------------------------------------------------- the translator of one method

type apiTr struct {
	t         *treeTr
	env       *apiEnv
	tree      *apiTree
	fd        *ast.FuncDecl
	kind      apiResKind
	recv      types.Object
	kTP, vTP  *types.TypeParam
	budgets   map[string]bool
	useRoot   bool
	useSize   bool
	ans       string
	inClosure bool
	yield     types.Object
	yi, yout  types.Object
	leaves    string
	njoin     int
}

func (a *apiTr) kSort() tSort {
	if a.tree.keyBytes {
		return tSort{tBytes, 0}
	}
	return tSort{tKey, 0}
}

func (a *apiTr) coqType(s tSort) string {
	switch s.k {
	case tKey:
		return "K"
	case tPredKV:
		return a.tree.kCoq() + " -> Z -> bool"
	case tPairs:
		return "list (" + a.tree.kCoq() + " * Z)"
	}
	return s.coqType()
}

func (a *apiTr) sortName(s tSort) string {
	switch s.k {
	case tKey:
		return "K"
	case tPredKV:
		return "func(K, V) bool"
	}
	return s.String()
}

func (a *apiTr) sortOfType(ty types.Type) tSort {
	if ty == nil {
		return tSort{}
	}
	ty = types.Unalias(ty)
	if tp, ok := ty.(*types.TypeParam); ok {
		switch tp {
		case a.kTP:
			return a.kSort()
		case a.vTP:
			return tSort{tVal, 0}
		}
	}
	return treeSortOf(ty)
}

// a Go type whose values are byte strings here: []byte, string, the K of a byte-string tree
func (a *apiTr) isByteString(ty types.Type) bool {
	if ty == nil {
		return false
	}
	ty = types.Unalias(ty)
	if tp, ok := ty.(*types.TypeParam); ok {
		return tp == a.kTP && a.tree.keyBytes
	}
	switch u := ty.Underlying().(type) {
	case *types.Basic:
		return u.Kind() == types.String || u.Kind() == types.UntypedString
	case *types.Slice:
		return isByte(u.Elem())
	}
	return false
}

func (a *apiTr) isRecv(e ast.Expr) bool {
	id, ok := ast.Unparen(e).(*ast.Ident)
	return ok && a.recv != nil && a.t.info.Uses[id] == a.recv
}

func (a *apiTr) budget(name string) string {
	b := "fuel_" + name
	a.budgets[b] = true
	return b
}

func (a *apiTr) pkgFunc(e ast.Expr) (pkg, name string, ok bool) {
	sel, isSel := ast.Unparen(e).(*ast.SelectorExpr)
	if !isSel {
		return "", "", false
	}
	id, isId := ast.Unparen(sel.X).(*ast.Ident)
	if !isId {
		return "", "", false
	}
	pn, isPkg := a.t.info.Uses[id].(*types.PkgName)
	if !isPkg {
		return "", "", false
	}
	return pn.Imported().Path(), sel.Sel.Name, true
}

// t.<codec>.<method>
func (a *apiTr) codecMethod(e ast.Expr) (string, bool) {
	sel, ok := ast.Unparen(e).(*ast.SelectorExpr)
	if !ok {
		return "", false
	}
	in, ok := ast.Unparen(sel.X).(*ast.SelectorExpr)
	if !ok || !a.isRecv(in.X) || in.Sel.Name != a.tree.codecField {
		return "", false
	}
	return sel.Sel.Name, true
}

// t.<method>
func (a *apiTr) ownMethod(e ast.Expr) (string, bool) {
	sel, ok := ast.Unparen(e).(*ast.SelectorExpr)
	if !ok || !a.isRecv(sel.X) {
		return "", false
	}
	if s, ok := a.t.info.Selections[sel]; !ok || s.Kind() != types.MethodVal {
		return "", false
	}
	return sel.Sel.Name, true
}

func (a *apiTr) restoreFn() string {
	m, ok := a.tree.methods["restoreKey"]
	if !ok || m.kind != arPair || len(m.budgets) != 0 || m.useRoot || m.useSize || len(m.params) != 1 || m.params[0].k != tPtr {
		a.t.fail(a.fd.Name, "restoreKey of this tree is not translated (or takes the tree state)")
	}
	return app(m.coq, a.tree.codecArgs()...)
}

// the Coq call of a method of the same tree translated before, without the consumer
func (a *apiTr) ownCall(at ast.Node, name string, args []ast.Expr) (string, *apiMethod) {
	t := a.t
	m, ok := a.tree.methods[name]
	if !ok {
		t.fail(at, "call of a method of the tree that is not translated (before this one)")
	}
	parts := append([]string{}, a.tree.codecArgs()...)
	for _, b := range m.budgets {
		a.budgets[b] = true
		parts = append(parts, b)
	}
	if m.useRoot {
		a.useRoot = true
		parts = append(parts, "root")
	}
	if m.useSize {
		a.useSize = true
		parts = append(parts, "size")
	}
	if len(args) != len(m.params) {
		t.fail(at, "number of arguments")
	}
	for i, arg := range args {
		code, s := t.tExpr(arg)
		if s != m.params[i] {
			t.fail(arg, fmt.Sprintf("argument of sort %s where the method takes %s", a.sortName(s), a.sortName(m.params[i])))
		}
		parts = append(parts, code)
	}
	return app(m.coq, parts...), m
}

// ---------------------------------------------------------------- expressions

func (a *apiTr) expr(e ast.Expr) (string, tSort, bool) {
	t := a.t
	switch x := e.(type) {
	case *ast.SelectorExpr:
		if a.isRecv(x.X) {
			switch {
			case x.Sel.Name == "root" && treeSortOf(t.info.Types[x].Type).k == tRef:
				a.useRoot = true
				return "root", tSort{tRef, 0}, true
			case x.Sel.Name == "size" && treeSortOf(t.info.Types[x].Type).k == tInt:
				a.useSize = true
				return "size", tSort{tInt, 0}, true
			}
			t.fail(x, "field of the tree outside the fragment (only root and size; the codec only through Transform / Restore)")
		}
	case *ast.SliceExpr:
		if _, s, ok := t.local(x.X); ok && s == (tSort{tBytes, 0}) && !x.Slice3 && x.High != nil {
			b, _ := t.tExpr(x.X)
			hi, hs := t.tExpr(x.High)
			hz := t.asZ(hi, hs, x.High)
			if x.Low == nil {
				return t.bindOpt(app("slice_to", b, hz)), s, true
			}
			lo, ls := t.tExpr(x.Low)
			return t.bindOpt(app("slice_from_to", b, t.asZ(lo, ls, x.Low), hz)), s, true
		}
	case *ast.FuncLit:
		t.fail(x, "a closure elsewhere than in `return func(yield ..) {..}` / `p := func(k K, v V) bool {..}`")
	case *ast.CallExpr:
		return a.call(x)
	}
	return "", tSort{}, false
}

func (a *apiTr) call(x *ast.CallExpr) (string, tSort, bool) {
	t := a.t
	fun := ast.Unparen(x.Fun)
	if tv, ok := t.info.Types[fun]; ok && tv.IsType() { // a conversion between byte strings: the same bytes
		if len(x.Args) == 1 && a.isByteString(tv.Type) && a.isByteString(t.info.Types[ast.Unparen(x.Args[0])].Type) {
			if code, s := t.tExpr(x.Args[0]); s == (tSort{tBytes, 0}) {
				return code, s, true
			}
		}
		return "", tSort{}, false
	}
	if x.Ellipsis != token.NoPos {
		return "", tSort{}, false
	}
	if ix, ok := fun.(*ast.IndexExpr); ok { // f[V](..)
		fun = ast.Unparen(ix.X)
	} else if ix, ok := fun.(*ast.IndexListExpr); ok {
		fun = ast.Unparen(ix.X)
	}
	bytesArgs := func(n int) []string {
		if len(x.Args) != n {
			t.fail(x, "number of arguments")
		}
		var out []string
		for _, arg := range x.Args {
			code, s := t.tExpr(arg)
			if s.k != tBytes {
				t.fail(arg, "an argument that is not a byte string")
			}
			out = append(out, code)
		}
		return out
	}
	if pkg, name, ok := a.pkgFunc(fun); ok {
		switch {
		case (pkg == "bytes" || pkg == "strings") && name == "Compare":
			args := bytesArgs(2)
			return app("bytes_compare", args...), tSort{tInt, 0}, true
		case pkg == "bytes" && name == "HasPrefix":
			args := bytesArgs(2)
			return app("bytes_has_prefix", args...), tSort{tBool, 0}, true
		case pkg == "bytes" && name == "Clone": // a copy: the same bytes
			return bytesArgs(1)[0], tSort{tBytes, 0}, true
		}
		return "", tSort{}, false
	}
	if m, ok := a.codecMethod(fun); ok {
		switch m {
		case "Restore":
			args := bytesArgs(1)
			return app("rs", args[0]), a.kSort(), true
		case "Transform":
			t.fail(x, "Transform elsewhere than in `x, y := t."+a.tree.codecField+".Transform(k)`")
		}
		t.fail(x, "method of the codec outside the fragment (only Transform and Restore)")
	}
	if _, ok := a.ownMethod(fun); ok {
		t.fail(x, "a call of a method of the tree in this position")
	}
	if id, ok := fun.(*ast.Ident); ok {
		obj := t.info.Uses[id]
		if a.yield != nil && obj == a.yield {
			return a.yieldCall(x)
		}
		if _, s, isLocal := t.local(id); isLocal && s.k == tPredKV {
			t.fail(x, "a call of a local predicate (it may only be passed to filter)")
		}
		if fn, ok := obj.(*types.Func); ok && fn.Pkg() != nil && fn.Pkg().Name() == "art" {
			if _, isIter := a.env.iters[fn.Name()]; isIter {
				t.fail(x, "a call of an iterator function elsewhere than in `return f(..)`")
			}
			c, ok := a.env.callees[fn.Name()]
			if !ok {
				t.fail(x, "call of a function that is not translated")
			}
			var args []string
			if c.fuel {
				args = append(args, a.budget(fn.Name()))
			}
			if len(c.params) != len(x.Args) {
				t.fail(x, "number of arguments")
			}
			for i, arg := range x.Args {
				code, s := t.tExpr(arg)
				if s.k != c.params[i].k || (c.params[i].n != 0 && s.n != c.params[i].n) {
					t.fail(arg, fmt.Sprintf("argument of sort %s where the callee takes %s", a.sortName(s), c.params[i]))
				}
				args = append(args, code)
			}
			code := app(c.coq, args...)
			if c.total {
				return code, c.res, true
			}
			n := t.fresh("r")
			t.pre = append(t.pre, tBind{name: n, code: code, gres: true})
			return n, c.res, true
		}
	}
	return "", tSort{}, false
}

// yield(k, v): the consumer is asked, the pair recorded
func (a *apiTr) yieldCall(x *ast.CallExpr) (string, tSort, bool) {
	t := a.t
	if len(x.Args) != 2 {
		t.fail(x, "yield")
	}
	k, ks := t.tExpr(x.Args[0])
	v, vs := t.tExpr(x.Args[1])
	if ks != a.kSort() || vs.k != tVal {
		t.fail(x, "the arguments of yield are not a key and a value")
	}
	yi, yout := t.nameOf(a.yi), t.nameOf(a.yout)
	yr := t.fresh("yr")
	t.pre = append(t.pre, tBind{name: yr, code: app(a.ans, yi), let: true})
	t.pre = append(t.pre, tBind{name: yout, code: "((" + top(k) + ", " + top(v) + ") :: " + yout + ")", let: true})
	t.pre = append(t.pre, tBind{name: yi, code: app("S", yi), let: true})
	return yr, tSort{tBool, 0}, true
}

// ---------------------------------------------------------------- statements

func (a *apiTr) containsYield(n ast.Node) bool {
	if a.yield == nil || n == nil {
		return false
	}
	found := false
	ast.Inspect(n, func(m ast.Node) bool {
		if id, ok := m.(*ast.Ident); ok && a.t.info.Uses[id] == a.yield {
			found = true
		}
		return !found
	})
	return found
}

// a call of yield assigns the two threaded variables
func (a *apiTr) assigned(n ast.Node) []types.Object {
	if !a.inClosure || !a.containsYield(n) {
		return nil
	}
	return []types.Object{a.yi, a.yout}
}

func (a *apiTr) synthetic(name string, s tSort) types.Object {
	t := a.t
	obj := types.NewVar(token.NoPos, nil, name, types.Typ[types.Int])
	t.sorts[obj] = s
	t.names[obj] = t.fresh(name)
	return obj
}

// join of translate_tree.go, with the sorts of this file (REST is needed on several paths)
func (a *apiTr) join(at ast.Node, rest string, ind string) (def string, use func() string) {
	t := a.t
	trimmed := strings.TrimSpace(rest)
	if !strings.Contains(trimmed, "\n") && len(trimmed) <= 100 {
		return "", func() string { return trimmed }
	}
	a.njoin++
	k := t.fresh(fmt.Sprintf("k%d", a.njoin))
	var binders, args []string
	for _, o := range t.assignedIn(at) {
		if s, ok := t.sorts[o]; ok {
			binders = append(binders, "("+t.nameOf(o)+" : "+a.coqType(s)+")")
			args = append(args, t.nameOf(o))
		}
	}
	if len(binders) == 0 {
		return ind + "let " + k + " := fun (_ : unit) =>\n" + rest + " in\n", func() string { return k + " tt" }
	}
	return ind + "let " + k + " := fun " + strings.Join(binders, " ") + " =>\n" + rest + " in\n",
		func() string { return k + " " + strings.Join(args, " ") }
}

// the if statement of translate_tree.go, with the join of this file
func (a *apiTr) ifStmt(s *ast.IfStmt, rest []ast.Stmt, c *tCtx, ind string) string {
	t := a.t
	if s.Init != nil {
		inner := *s
		inner.Init = nil
		return t.tStmts(concatStmts([]ast.Stmt{s.Init, &inner}, rest), c, ind)
	}
	cond, cs := t.tExpr(s.Cond)
	if cs.k != tBool {
		t.fail(s.Cond, "condition")
	}
	pre := t.takePre()
	var elseList []ast.Stmt
	switch e := s.Else.(type) {
	case nil:
	case *ast.BlockStmt:
		elseList = e.List
	case *ast.IfStmt:
		elseList = []ast.Stmt{e}
	default:
		t.fail(s, "else")
	}
	thenFalls, elseFalls := !neverFalls(s.Body.List), !neverFalls(elseList)
	var def string
	inner := *c
	switch {
	case len(rest) == 0 || (!thenFalls && !elseFalls):
	case !thenFalls && s.Else == nil:
		restC := t.tStmts(rest, c, ind+"  ")
		inner.fall = func() string { return strings.TrimSpace(restC) }
	default:
		var use func() string
		def, use = a.join(s, t.tStmts(rest, c, ind+"  "), ind)
		inner.fall = use
	}
	thenC := t.tStmts(s.Body.List, &inner, ind+"  ")
	elseC := t.tStmts(elseList, &inner, ind+"  ")
	return t.wrap(c, pre, def+ind+"if "+top(cond)+" then (\n"+thenC+"\n"+ind+") else (\n"+elseC+"\n"+ind+")", ind)
}

// switch [init;] { case c1: ..; case c2: ..; default: .. } without tag: an if / else-if chain
func (a *apiTr) taglessSwitch(s *ast.SwitchStmt, rest []ast.Stmt, c *tCtx, ind string) string {
	t := a.t
	ast.Inspect(s.Body, func(n ast.Node) bool {
		if br, ok := n.(*ast.BranchStmt); ok && (br.Tok == token.BREAK || br.Tok == token.FALLTHROUGH || br.Tok == token.GOTO) {
			t.fail(br, "branch statement inside a switch without tag")
		}
		return true
	})
	var chain, last *ast.IfStmt
	var deflt *ast.CaseClause
	for _, cl := range s.Body.List {
		cc := cl.(*ast.CaseClause)
		if cc.List == nil {
			if deflt != nil || cc != s.Body.List[len(s.Body.List)-1] {
				t.fail(cc, "default clause that is not the last one")
			}
			deflt = cc
			continue
		}
		if len(cc.List) != 1 {
			t.fail(cc, "case with several expressions")
		}
		is := &ast.IfStmt{If: cc.Pos(), Cond: cc.List[0], Body: &ast.BlockStmt{Lbrace: cc.Colon, List: cc.Body, Rbrace: cc.End()}}
		if chain == nil {
			chain = is
		} else {
			last.Else = is
		}
		last = is
	}
	var list []ast.Stmt
	if s.Init != nil {
		list = append(list, s.Init)
	}
	switch {
	case chain == nil && deflt != nil:
		list = append(list, deflt.Body...)
	case chain != nil:
		if deflt != nil {
			last.Else = &ast.BlockStmt{Lbrace: deflt.Colon, List: deflt.Body, Rbrace: deflt.End()}
		}
		list = append(list, chain)
	}
	return t.tStmts(concatStmts(list, rest), c, ind)
}

func (a *apiTr) stmt(st ast.Stmt, rest []ast.Stmt, c *tCtx, ind string) (string, bool) {
	t := a.t
	switch s := st.(type) {
	case *ast.IfStmt:
		return a.ifStmt(s, rest, c, ind), true
	case *ast.SwitchStmt:
		if s.Tag == nil {
			return a.taglessSwitch(s, rest, c, ind), true
		}
	case *ast.ForStmt, *ast.RangeStmt:
		t.fail(st, "loop in a method of the public interface")
	case *ast.DeclStmt:
		return a.declStmt(s, rest, c, ind)
	case *ast.AssignStmt:
		return a.assignStmt(s, rest, c, ind)
	case *ast.ReturnStmt:
		return a.returnStmt(s, c, ind), true
	}
	return "", false
}

// var ( a K; b V ) never assigned: the zero values, which only `return a, b, false` may mention
func (a *apiTr) declStmt(s *ast.DeclStmt, rest []ast.Stmt, c *tCtx, ind string) (string, bool) {
	t := a.t
	gd, ok := s.Decl.(*ast.GenDecl)
	if !ok || gd.Tok != token.VAR {
		return "", false
	}
	var objs []types.Object
	for _, sp := range gd.Specs {
		vs := sp.(*ast.ValueSpec)
		if len(vs.Values) != 0 {
			return "", false
		}
		for _, id := range vs.Names {
			obj := t.info.Defs[id]
			if obj == nil || id.Name == "_" {
				return "", false
			}
			srt := a.sortOfType(obj.Type())
			if (srt != a.kSort() && srt.k != tVal) || len(t.assignedAnywhere(obj)) != 0 {
				return "", false
			}
			objs = append(objs, obj)
		}
	}
	for _, obj := range objs {
		t.sorts[obj] = a.sortOfType(obj.Type())
		t.zeroVars[obj] = true
	}
	return t.tStmts(rest, c, ind), true
}

// the targets of an assignment: new variables (:=) or locals (=); "" for the blank identifier
func (a *apiTr) targets(s *ast.AssignStmt, sorts []tSort) []string {
	t := a.t
	names := make([]string, len(s.Lhs))
	for i, l := range s.Lhs {
		id, ok := ast.Unparen(l).(*ast.Ident)
		if !ok {
			t.fail(l, "assignment target outside the fragment")
		}
		if id.Name == "_" {
			continue
		}
		if s.Tok == token.DEFINE {
			if obj := t.info.Defs[id]; obj != nil {
				if want := a.sortOfType(obj.Type()); want != sorts[i] {
					t.fail(s, fmt.Sprintf("a value of sort %s for a variable of sort %s", a.sortName(sorts[i]), a.sortName(want)))
				}
				names[i] = t.declareT(obj, sorts[i], s)
				continue
			}
		}
		obj, ls, ok := t.local(id)
		if !ok || t.zeroVars[obj] {
			t.fail(s, "assignment to something else than a local variable")
		}
		if ls != sorts[i] {
			t.fail(s, fmt.Sprintf("assignment between different types (%s, %s)", a.sortName(ls), a.sortName(sorts[i])))
		}
		names[i] = t.nameOf(obj)
	}
	return names
}

func (a *apiTr) assignStmt(s *ast.AssignStmt, rest []ast.Stmt, c *tCtx, ind string) (string, bool) {
	t := a.t
	if s.Tok != token.DEFINE && s.Tok != token.ASSIGN {
		return "", false
	}
	// p := func(k K, v V) bool { .. }
	if s.Tok == token.DEFINE && len(s.Lhs) == 1 && len(s.Rhs) == 1 {
		if fl, ok := ast.Unparen(s.Rhs[0]).(*ast.FuncLit); ok {
			return a.predicate(s, fl, rest, c, ind), true
		}
	}
	// x, y := call
	if len(s.Lhs) == 2 && len(s.Rhs) == 1 {
		call, ok := ast.Unparen(s.Rhs[0]).(*ast.CallExpr)
		if !ok {
			t.fail(s, "assignment outside the fragment")
		}
		if m, ok := a.codecMethod(call.Fun); ok && m == "Transform" {
			if len(call.Args) != 1 {
				t.fail(s, "Transform")
			}
			k, ks := t.tExpr(call.Args[0])
			if ks != a.kSort() {
				t.fail(call.Args[0], "the argument of Transform is not a key")
			}
			pre := t.takePre()
			names := a.targets(s, []tSort{{tBytes, 0}, {tBytes, 0}})
			var lets strings.Builder
			for i, n := range names {
				if n != "" {
					lets.WriteString(ind + "let " + n + " := " + []string{"fst", "snd"}[i] + " " + app("tr", k) + " in\n")
				}
			}
			return t.wrap(c, pre, lets.String()+t.tStmts(rest, c, ind), ind), true
		}
		if m, ok := a.ownMethod(call.Fun); ok {
			switch m {
			case "restoreKey":
				code, meth := a.ownCall(call, m, call.Args)
				if meth.kind != arPair {
					t.fail(s, "restoreKey")
				}
				r := t.fresh("r")
				t.pre = append(t.pre, tBind{name: r, code: code, gres: true})
				pre := t.takePre()
				names := a.targets(s, []tSort{a.kSort(), {tVal, 0}})
				var lets strings.Builder
				for i, n := range names {
					if n != "" {
						lets.WriteString(ind + "let " + n + " := " + []string{"fst", "snd"}[i] + " " + r + " in\n")
					}
				}
				return t.wrap(c, pre, lets.String()+t.tStmts(rest, c, ind), ind), true
			case "Search":
				return a.searchBind(s, call, rest, c, ind), true
			}
		}
		t.fail(s, "assignment of two results of something else than Transform / restoreKey / Search")
	}
	// x, y = e1, e2: every ei is evaluated before any assignment
	if len(s.Lhs) >= 2 && len(s.Lhs) == len(s.Rhs) {
		var codes []string
		var sorts []tSort
		for _, r := range s.Rhs {
			code, rs := t.tExpr(r)
			codes, sorts = append(codes, top(code)), append(sorts, rs)
		}
		pre := t.takePre()
		names := a.targets(s, sorts)
		for i, n := range names {
			if n == "" {
				names[i] = "_"
			}
		}
		return t.wrap(c, pre, ind+"let '("+strings.Join(names, ", ")+") := ("+strings.Join(codes, ", ")+") in\n"+t.tStmts(rest, c, ind), ind), true
	}
	// x := e / x = e with x a key
	if len(s.Lhs) == 1 && len(s.Rhs) == 1 {
		if id, ok := ast.Unparen(s.Lhs[0]).(*ast.Ident); ok && id.Name != "_" {
			var ty types.Type
			if obj := t.info.Defs[id]; obj != nil {
				ty = obj.Type()
			} else if obj := t.info.Uses[id]; obj != nil {
				ty = obj.Type()
			}
			if ty != nil && a.sortOfType(ty) == a.kSort() && treeSortOf(ty) != a.kSort() {
				code, rs := t.tExpr(s.Rhs[0])
				pre := t.takePre()
				names := a.targets(s, []tSort{rs})
				return t.wrap(c, pre, ind+"let "+names[0]+" := "+top(code)+" in\n"+t.tStmts(rest, c, ind), ind), true
			}
		}
	}
	return "", false
}

// val, ok := t.Search(k): the translated Search of Gen/TreeGen.v on the prepared key; (v, true) is SFound v,
// (the zero value, false) is SAbsent
func (a *apiTr) searchBind(s *ast.AssignStmt, call *ast.CallExpr, rest []ast.Stmt, c *tCtx, ind string) string {
	t := a.t
	sr := a.tree.search
	if sr == nil || len(sr.which) != 1 {
		t.fail(s, "Search of this tree is not translated (or prepares two keys)")
	}
	if len(call.Args) != 1 {
		t.fail(s, "Search")
	}
	k, ks := t.tExpr(call.Args[0])
	if ks != a.kSort() {
		t.fail(call.Args[0], "the argument of Search is not a key")
	}
	var args []string
	if sr.callee.fuel {
		args = append(args, a.budget("Search"))
	}
	ps := sr.callee.params
	if len(ps) > 0 && ps[0].k == tRef {
		a.useRoot = true
		args = append(args, "root")
		ps = ps[1:]
	}
	if len(ps) != 1 {
		t.fail(s, "Search of this tree takes several keys")
	}
	args = append(args, app(sr.key, app([]string{"fst", "snd"}[sr.which[0]], app("tr", k))))
	r := t.fresh("r")
	t.pre = append(t.pre, tBind{name: r, code: app(sr.callee.coq, args...), gres: true})
	pre := t.takePre()
	names := a.targets(s, []tSort{{tVal, 0}, {tBool, 0}})
	binders := []string{"(_ : Z)", "(_ : bool)"}
	for i, n := range names {
		if n != "" {
			binders[i] = "(" + n + " : " + []string{"Z", "bool"}[i] + ")"
		}
	}
	a.njoin++
	kn := t.fresh(fmt.Sprintf("k%d", a.njoin))
	v := t.fresh("v")
	body := ind + "let " + kn + " := fun " + strings.Join(binders, " ") + " =>\n" + t.tStmts(rest, c, ind+"  ") + " in\n" +
		ind + "match " + r + " with\n" +
		ind + "| SFound " + v + " => " + kn + " " + v + " true\n" +
		ind + "| SAbsent => " + kn + " 0%Z false\n" +
		ind + "| SFuel => " + t.fuelC(c) + "\n" +
		ind + "end"
	return t.wrap(c, pre, body, ind)
}

// p := func(k K, v V) bool { x := e; ..; return e }: a pure predicate on the restored pair
func (a *apiTr) predicate(s *ast.AssignStmt, fl *ast.FuncLit, rest []ast.Stmt, c *tCtx, ind string) string {
	t := a.t
	id, ok := ast.Unparen(s.Lhs[0]).(*ast.Ident)
	if !ok || id.Name == "_" || t.info.Defs[id] == nil {
		t.fail(s, "assignment target outside the fragment")
	}
	pobj := t.info.Defs[id]
	ps := fl.Type.Params
	if ps == nil || ps.NumFields() != 2 || fl.Type.Results == nil || fl.Type.Results.NumFields() != 1 {
		t.fail(fl.Type, "the closure is not func(k K, v V) bool")
	}
	var pobjs []types.Object
	for _, f := range ps.List {
		if len(f.Names) == 0 {
			t.fail(f.Type, "unnamed parameter")
		}
		for _, n := range f.Names {
			pobjs = append(pobjs, t.info.Defs[n])
		}
	}
	if len(pobjs) != 2 || pobjs[0] == nil || pobjs[1] == nil || a.sortOfType(pobjs[0].Type()) != a.kSort() || a.sortOfType(pobjs[1].Type()).k != tVal ||
		a.sortOfType(t.info.Types[fl.Type.Results.List[0].Type].Type).k != tBool {
		t.fail(fl.Type, "the closure is not func(k K, v V) bool")
	}
	// a captured variable is read when the sequence runs: it must never be assigned after its declaration
	ast.Inspect(fl.Body, func(n ast.Node) bool {
		switch x := n.(type) {
		case *ast.FuncLit:
			t.fail(x.Type, "nested closure")
		case *ast.Ident:
			obj := t.info.Uses[x]
			if _, isLocal := t.sorts[obj]; isLocal && !(obj.Pos() >= fl.Pos() && obj.Pos() < fl.End()) && len(t.assignedAnywhere(obj)) != 0 {
				t.fail(x, "the closure captures the variable "+obj.Name()+", which is assigned after its declaration")
			}
			if obj != nil && obj == a.recv {
				t.fail(x, "the closure reads the tree")
			}
		}
		return true
	})
	kn := t.declareT(pobjs[0], a.kSort(), fl)
	vn := "_"
	if pobjs[1].Name() != "_" {
		vn = t.declareT(pobjs[1], tSort{tVal, 0}, fl)
	}
	if pobjs[0].Name() == "_" {
		kn = "_"
	}
	saved := t.takePre()
	var sb strings.Builder
	sb.WriteString("fun (" + kn + " : " + a.tree.kCoq() + ") (" + vn + " : Z) => ")
	list := fl.Body.List
	if len(list) == 0 {
		t.fail(fl, "empty closure")
	}
	for _, st := range list[:len(list)-1] {
		as, ok := st.(*ast.AssignStmt)
		if !ok || as.Tok != token.DEFINE || len(as.Lhs) != 1 || len(as.Rhs) != 1 {
			t.fail(st, "statement outside the fragment in a predicate (only x := e and a final return e)")
		}
		lid, ok := as.Lhs[0].(*ast.Ident)
		if !ok || lid.Name == "_" || t.info.Defs[lid] == nil {
			t.fail(st, "assignment target outside the fragment")
		}
		code, rs := t.tExpr(as.Rhs[0])
		if want := a.sortOfType(t.info.Defs[lid].Type()); want != rs {
			t.fail(st, "a value of another sort")
		}
		sb.WriteString("let " + t.declareT(t.info.Defs[lid], rs, st) + " := " + top(code) + " in ")
	}
	rt, ok := list[len(list)-1].(*ast.ReturnStmt)
	if !ok || len(rt.Results) != 1 {
		t.fail(list[len(list)-1], "a predicate does not end with `return e`")
	}
	code, rs := t.tExpr(rt.Results[0])
	if rs.k != tBool {
		t.fail(rt, "the result of a predicate is not a bool")
	}
	if len(t.pre) != 0 {
		t.fail(fl, "a checked read (index, slice, conversion, call) inside a predicate")
	}
	t.pre = saved
	sb.WriteString(top(code))
	name := t.declareT(pobj, tSort{tPredKV, 0}, s)
	return ind + "let " + name + " := (" + sb.String() + ") in\n" + t.tStmts(rest, c, ind)
}

// ---------------------------------------------------------------- return

func (a *apiTr) returnStmt(s *ast.ReturnStmt, c *tCtx, ind string) string {
	t := a.t
	if a.inClosure {
		if len(s.Results) != 0 {
			t.fail(s, "return with a value inside an iterator closure")
		}
		return ind + "KDone ByReturn " + t.nameOf(a.yi) + " " + t.nameOf(a.yout)
	}
	zero := func(e ast.Expr, want tSort) bool {
		obj, srt, ok := t.local(e)
		return ok && t.zeroVars[obj] && srt == want
	}
	var code string
	switch a.kind {
	case arSeq:
		if len(s.Results) != 1 {
			t.fail(s, "return")
		}
		code = a.returnSeq(s, ast.Unparen(s.Results[0]), ind)
	case arOpt:
		if len(s.Results) != 3 {
			t.fail(s, "return")
		}
		b, bs := t.tExpr(s.Results[2])
		switch {
		case bs.k == tBool && b == "true":
			k, ks := t.tExpr(s.Results[0])
			v, vs := t.tExpr(s.Results[1])
			if ks != a.kSort() || vs.k != tVal {
				t.fail(s, "return type")
			}
			code = ind + "GRet (Some (" + top(k) + ", " + top(v) + "))"
		case bs.k == tBool && b == "false" && zero(s.Results[0], a.kSort()) && zero(s.Results[1], tSort{tVal, 0}):
			code = ind + "GRet None"
		default:
			t.fail(s, "a return that is neither `return k, v, true` nor `return zeroK, zeroV, false` with never-assigned variables")
		}
	case arPair:
		if len(s.Results) != 2 {
			t.fail(s, "return")
		}
		k, ks := t.tExpr(s.Results[0])
		v, vs := t.tExpr(s.Results[1])
		if ks != a.kSort() || vs.k != tVal {
			t.fail(s, "return type")
		}
		code = ind + "GRet (" + top(k) + ", " + top(v) + ")"
	case arInt:
		if len(s.Results) != 1 {
			t.fail(s, "return")
		}
		v, vs := t.tExpr(s.Results[0])
		if vs.k != tInt {
			t.fail(s, "return type")
		}
		code = ind + "GRet " + v
	}
	return t.wrap(c, t.takePre(), code, ind)
}

func (a *apiTr) returnSeq(s *ast.ReturnStmt, e ast.Expr, ind string) string {
	t := a.t
	if fl, ok := e.(*ast.FuncLit); ok {
		return a.closure(fl, ind)
	}
	call, ok := e.(*ast.CallExpr)
	if !ok {
		t.fail(s, "a sequence that is neither a closure nor a call")
	}
	fun := ast.Unparen(call.Fun)
	if m, ok := a.ownMethod(fun); ok { // return t.M(..)
		code, meth := a.ownCall(call, m, call.Args)
		if meth.kind != arSeq {
			t.fail(s, "the method does not return a sequence")
		}
		return ind + top(code) + " " + a.ans
	}
	if ix, ok := fun.(*ast.IndexExpr); ok {
		fun = ast.Unparen(ix.X)
	} else if ix, ok := fun.(*ast.IndexListExpr); ok {
		fun = ast.Unparen(ix.X)
	}
	id, ok := fun.(*ast.Ident)
	if !ok {
		t.fail(s, "a sequence that is neither a closure nor a call of a translated function")
	}
	fn, ok := t.info.Uses[id].(*types.Func)
	if !ok || fn.Pkg() == nil || fn.Pkg().Name() != "art" {
		t.fail(s, "a sequence that is neither a closure nor a call of a translated function")
	}
	ic, ok := a.env.iters[fn.Name()]
	if !ok {
		t.fail(s, "call of an iterator function that is not translated")
	}
	if len(call.Args) != len(ic.params) || call.Ellipsis != token.NoPos {
		t.fail(call, "number of arguments")
	}
	parts := []string{ic.coq}
	if ic.fuel {
		parts = append(parts, a.budget(fn.Name()))
	}
	restore := a.restoreFn()
	sawRestore := false
	for i, arg := range call.Args {
		p := ic.params[i]
		switch p.kind {
		case "sort":
			code, srt := t.tExpr(arg)
			if srt.k != p.sort.k || (p.sort.n != 0 && srt.n != p.sort.n) {
				t.fail(arg, fmt.Sprintf("argument of sort %s where the callee takes %s", a.sortName(srt), p.sort))
			}
			parts = append(parts, code)
		case "restore": // the callee passes every leaf through it: seq_kv
			if m, ok := a.ownMethod(arg); !ok || m != "restoreKey" {
				t.fail(arg, "the restore function passed is not t.restoreKey")
			}
			sawRestore = true
		case "pred":
			obj, srt, ok := t.local(arg)
			if !ok || srt.k != tPredKV {
				t.fail(arg, "the predicate passed is not a local closure func(k K, v V) bool")
			}
			parts = append(parts, app("pred_restore", restore, t.nameOf(obj)))
		case "iface": // the tree itself: its sequence methods, as they run on leaves
			if !a.isRecv(arg) {
				t.fail(arg, "the tree passed is not the receiver")
			}
			for _, mn := range p.methods {
				m, ok := a.tree.methods[mn]
				if !ok || m.leaves == "" {
					t.fail(arg, "method "+mn+" of the tree is not of the form `return f(.., t.restoreKey)` with f a translated iterator function")
				}
				for _, b := range m.budgets {
					a.budgets[b] = true
				}
				a.useRoot = a.useRoot || m.useRoot
				a.useSize = a.useSize || m.useSize
				parts = append(parts, "("+m.leaves+")")
			}
			sawRestore = true // the elements come from the methods of the tree, which restore them
		}
	}
	if !sawRestore {
		t.fail(call, "an iterator function that is given neither t.restoreKey nor the tree")
	}
	run := strings.Join(parts, " ")
	if len(a.fd.Body.List) == 1 && len(t.pre) == 0 {
		a.leaves = run
	}
	return ind + "seq_kv " + restore + " (" + run + " " + a.ans + ")"
}

// return func(yield func(K, V) bool) { .. }: the closure body in place, run with the consumer ans
func (a *apiTr) closure(fl *ast.FuncLit, ind string) string {
	t := a.t
	ps := fl.Type.Params
	if ps == nil || len(ps.List) != 1 || len(ps.List[0].Names) != 1 || fl.Type.Results != nil {
		t.fail(fl.Type, "the closure is not func(yield func(K, V) bool)")
	}
	yobj := t.info.Defs[ps.List[0].Names[0]]
	sig, ok := yobj.Type().Underlying().(*types.Signature)
	if !ok || sig.Params().Len() != 2 || sig.Results().Len() != 1 || treeSortOf(sig.Results().At(0).Type()).k != tBool ||
		a.sortOfType(sig.Params().At(0).Type()) != a.kSort() || a.sortOfType(sig.Params().At(1).Type()).k != tVal {
		t.fail(fl.Type, "the closure is not func(yield func(K, V) bool)")
	}
	for _, o := range t.assignedIn(fl.Body) {
		t.fail(fl.Type, "the closure assigns the variable "+o.Name()+" of the enclosing function (state shared between the runs of the iterator)")
	}
	ast.Inspect(fl.Body, func(n ast.Node) bool {
		switch x := n.(type) {
		case *ast.FuncLit:
			t.fail(x.Type, "nested closure")
		case *ast.UnaryExpr:
			if x.Op == token.AND {
				t.fail(x, "address-of inside an iterator closure")
			}
		}
		return true
	})
	savedYield, savedYi, savedYout, savedIn := a.yield, a.yi, a.yout, a.inClosure
	a.yield = yobj
	t.sorts[yobj] = tSort{tYield, 0}
	t.names[yobj] = a.ans
	a.yi = a.synthetic("yi", tSort{tNat, 0})
	a.yout = a.synthetic("yout", tSort{tPairs, 0})
	a.inClosure = true
	yi, yout := t.nameOf(a.yi), t.nameOf(a.yout)
	cc := &tCtx{res: &tResNames{panicC: "KPanic", fuelC: "KFuel"}}
	cc.fall = func() string { return "KDone ByEnd " + yi + " " + yout }
	savedPre := t.takePre()
	body := t.tStmts(fl.Body.List, cc, ind)
	if len(t.pre) != 0 {
		t.fail(fl, "internal: pending checked reads")
	}
	t.pre = savedPre
	a.yield, a.yi, a.yout, a.inClosure = savedYield, savedYi, savedYout, savedIn
	return ind + "let " + yi + " := O in\n" + ind + "let " + yout + " := (@nil (" + a.tree.kCoq() + " * Z)) in\n" + body
}

// ---------------------------------------------------------------- one method

func (env *apiEnv) translateMethod(tree *apiTree, fd *ast.FuncDecl, coq string) (text, warn string, self *apiMethod) {
	sh := env.sh
	t := &treeTr{
		fnTr:     &fnTr{fset: sh.fset, info: sh.info, consts: map[types.Object]string{}, names: map[types.Object]string{}, used: map[string]bool{}},
		sorts:    map[types.Object]tSort{},
		callees:  env.callees,
		consts:   map[string]string{},
		base:     coq,
		zeroVars: map[types.Object]bool{},
		fd:       fd,
	}
	a := &apiTr{t: t, env: env, tree: tree, fd: fd, budgets: map[string]bool{}}
	t.hooks = &treeHooks{expr: a.expr, stmt: a.stmt, assigned: a.assigned}
	for _, w := range apiFixedNames {
		t.used[w] = true
	}
	for n := range env.callees {
		t.used["fuel_"+n] = true
	}
	for n := range env.iters {
		t.used["fuel_"+n] = true
	}
	t.used["fuel_Search"] = true
	header := t.signature(fd)
	defer func() {
		if r := recover(); r != nil {
			u, ok := r.(trUnsupported)
			if !ok {
				panic(r)
			}
			warn = coq + ": " + u.msg
			text = header + "Definition " + coq + " : untranslated := UNSUPPORTED \"" + strings.ReplaceAll(u.msg, "\"", "\"\"") + "\".\n"
			self = nil
		}
	}()
	if fd.Body == nil || fd.Recv == nil || len(fd.Recv.List) != 1 || len(fd.Recv.List[0].Names) != 1 {
		t.fail(fd.Name, "not a method with a named receiver and a body")
	}
	fobj, _ := sh.info.Defs[fd.Name].(*types.Func)
	if fobj == nil {
		t.fail(fd.Name, "no type recorded (the package does not type-check here)")
	}
	sig := fobj.Type().(*types.Signature)
	if tps := sig.RecvTypeParams(); tps != nil && tps.Len() == 2 {
		a.kTP, a.vTP = tps.At(0), tps.At(1)
	} else {
		t.fail(fd.Name, "the receiver does not have the two type parameters K, V")
	}
	a.recv = sh.info.Defs[fd.Recv.List[0].Names[0]]
	t.recv = a.recv
	// results
	var rs []tSort
	if fd.Type.Results != nil {
		for _, f := range fd.Type.Results.List {
			if len(f.Names) != 0 {
				t.fail(f.Type, "named result")
			}
			ty := sh.info.Types[f.Type].Type
			if namedName(ty) == "Seq2" {
				rs = append(rs, tSort{tYield, 0}) // marks a sequence
			} else {
				rs = append(rs, a.sortOfType(ty))
			}
		}
	}
	kT := tree.kCoq()
	switch {
	case len(rs) == 1 && rs[0].k == tYield:
		a.kind, t.resCoq = arSeq, "kres ("+kT+")"
	case len(rs) == 3 && rs[0] == a.kSort() && rs[1].k == tVal && rs[2].k == tBool:
		a.kind, t.resCoq = arOpt, "option ("+kT+" * Z)"
	case len(rs) == 2 && rs[0] == a.kSort() && rs[1].k == tVal:
		a.kind, t.resCoq = arPair, kT+" * Z"
	case len(rs) == 1 && rs[0].k == tInt:
		a.kind, t.resCoq = arInt, "Z"
	default:
		t.fail(fd.Name, "result type outside the fragment")
	}
	// parameters
	var binders []string
	var psorts []tSort
	for _, f := range fd.Type.Params.List {
		if len(f.Names) == 0 {
			t.fail(f.Type, "unnamed parameter")
		}
		for _, id := range f.Names {
			obj := sh.info.Defs[id]
			if obj == nil || id.Name == "_" {
				t.fail(id, "blank parameter")
			}
			s := a.sortOfType(obj.Type())
			if s.k == tBad {
				t.fail(f.Type, fmt.Sprintf("parameter type %s outside the fragment", obj.Type()))
			}
			binders = append(binders, "("+t.declareT(obj, s, id)+" : "+a.coqType(s)+")")
			psorts = append(psorts, s)
		}
	}
	var ctx *tCtx
	if a.kind == arSeq {
		a.ans = "ans"
		ctx = &tCtx{res: &tResNames{panicC: "KPanic", fuelC: "KFuel"}}
	} else {
		ctx = &tCtx{}
	}
	ctx.fall = func() string { t.fail(fd.Name, "control can reach the end of the method"); return "" }
	code := t.tStmts(fd.Body.List, ctx, "  ")
	if len(t.pre) != 0 {
		t.fail(fd.Name, "internal: pending checked reads")
	}
	var budgets []string
	for b := range a.budgets {
		budgets = append(budgets, b)
	}
	sort.Strings(budgets)
	all := []string{tree.codecBinders()}
	for _, b := range budgets {
		all = append(all, "("+b+" : nat)")
	}
	if a.useRoot {
		all = append(all, "(root : gref)")
	}
	if a.useSize {
		all = append(all, "(size : Z)")
	}
	all = append(all, binders...)
	resT := "gres (" + t.resCoq + ")"
	if a.kind == arSeq {
		all = append(all, "(ans : nat -> bool)")
		resT = t.resCoq
		header += "(* the sequence it returns, run with the consumer ans *)\n"
	}
	text = header + "Definition " + coq + " " + strings.Join(all, " ") + " : " + resT + " :=\n" + code + ".\n"
	return text, "", &apiMethod{coq: coq, kind: a.kind, budgets: budgets, useRoot: a.useRoot, useSize: a.useSize, params: psorts, leaves: a.leaves}
}

// ---------------------------------------------------------------- the file

const apiConventions = `   Conventions: those of Gen/TreeGen.v and Gen/IterGen.v (go/cmd/srcfacts/translate_tree.go, translate_iter.go; the
   vocabulary and its stated Go meaning: Model/GoTree.v), and (go/cmd/srcfacts/translate_api.go):
   The tree t is what its methods read of it: t.root is the parameter root : gref, t.size the parameter size : Z
   (each only where the method reads it). The codec field (bck / cok) is NOT translated: t.<codec>.Transform(k) is
   tr k and t.<codec>.Restore(b) is rs b, with tr and rs PARAMETERS of every definition. The key type K of a
   tree is list N when its constraint consists of byte strings (alphaSortedTree: chars; collationSortedTree:
   chars | []rune, read for its byte-string instantiations: len(k), []byte(k), string(k), K(s) count and copy
   BYTES) and otherwise an abstract type K, the first parameter. []byte(x), string(x), K(x) between byte strings
   and bytes.Clone(x) are x (the value model has no aliasing); bytes.Compare and strings.Compare are bytes_compare.
   A called function takes its own budget parameter fuel_<its Go name> (untrusted, as in Gen/TreeGen.v); the
   parameters of a definition are: [K] tr rs, the budgets in alphabetical order, [root] [size], the Go parameters,
   [ans].
   A method returning (K, V) is gres (K * Z); one returning (K, V, bool) is gres (option (K * Z)): (k, v, true) is
   Some (k, v), (zero values, false) is None; val, ok := t.Search(k) reads the sres of the translated Search:
   SFound v is (v, true), SAbsent is (0, false) (the zero value of V is written 0).
   A method returning iter.Seq2[K, V] is the sequence it returns RUN with the consumer ans : nat -> bool (the
   statements before the return come first, as in Gen/IterGen.v); its result is kres K (below). "return f(..,
   t.restoreKey)" with f a translated iterator function is seq_kv (g_<tree>_restoreKey ..) (g_f .. ans): g_f has
   no parameter for restore and passes LEAVES to its consumer; seq_kv passes each of them through restoreKey.
   A predicate given to filter receives the restored pair: pred_restore. topK(t, k) / bottomK(t, k) receive the
   sequences of the tree t itself: the runs on leaves of its methods All and Backward (which must be of the form
   "return f(.., t.restoreKey)"). A returned closure func(yield ..) {..} is translated in place: yield(k, v) is
   "let yr := ans yi in let yout := (k, v) :: yout in let yi := S yi" with value yr.`

const apiVocabulary = `
(* ---- vocabulary of this file (emitted verbatim by go/cmd/srcfacts/translate_api.go; trusted, no algorithm) ---- *)
(* a sequence iter.Seq2[K, V] run to its end with a consumer:
     KDone how calls out   how as in ires (Model/GoTree.v); calls = number of calls of yield; out = the pairs yield
                           was called with, LAST FIRST
     KPanic / KFuel        a Go panic or a stuck read / an inner loop out of the budget the translator gave it *)
Inductive kres (K : Type) : Type := KDone (how : iend) (calls : nat) (out : list (K * Z)) | KPanic | KFuel.
Arguments KDone {K}. Arguments KPanic {K}. Arguments KFuel {K}.
(* all / backward / filter / rangeScan / topK / bottomK called with restore: every leaf is passed through restore
   before yield sees it; a panic of restore on a leaf that is passed on is a panic of the run *)
Fixpoint restore_list {K} (restore : gref -> gres (K * Z)) (acc : list xtree) : option (list (K * Z)) :=
  match acc with
  | [] => Some []
  | x :: acc' =>
    match restore (Some x), restore_list restore acc' with
    | GRet kv, Some l => Some (kv :: l)
    | _, _ => None
    end
  end.
Definition seq_kv {K} (restore : gref -> gres (K * Z)) (r : ires) : kres K :=
  match r with
  | IDone how c acc => match restore_list restore acc with Some l => KDone how c l | None => KPanic end
  | IPanic => KPanic
  | IFuel => KFuel
  end.
(* filter(root, predicate, restore): predicate is called with restore(leaf). A panic of restore on a leaf the
   predicate then REJECTS cannot be expressed in xtree -> bool and reads as false: Proofs/TranslateApiFacts.v
   shows separately that restoreKey does not panic on the leaves of the trees its theorems speak of. *)
Definition pred_restore {K} (restore : gref -> gres (K * Z)) (p : K -> Z -> bool) (leaf : xtree) : bool :=
  match restore (Some leaf) with GRet kv => p (fst kv) (snd kv) | _ => false end.
(* bytes.HasPrefix(s, prefix) *)
Definition bytes_has_prefix (s prefix : list N) : bool := has_prefix s prefix.
`

var apiMethodOrder = []string{"restoreKey", "Size", "All", "Backward", "Minimum", "Maximum", "TopK", "BottomK", "Prefix", "Range"}

func emitApiTranslations(repo, outdir string) {
	var sb strings.Builder
	sb.WriteString("(* REGENERATED by go/cmd/srcfacts (translate_api.go) from /repo's trees.go and collation.go on every run — do not edit.\n")
	sb.WriteString("   The thin public methods restoreKey, Size, All, Backward, Minimum, Maximum, TopK, BottomK, Prefix, Range of the six\n")
	sb.WriteString("   trees, over the translated functions of Gen/TreeGen.v and Gen/IterGen.v; Proofs/TranslateApiFacts.v proves them\n")
	sb.WriteString("   equal to the model of the public interface, Model/Api.v.\n")
	sb.WriteString(apiConventions + " *)\n")
	sb.WriteString("From GoArt Require Import Model.GoTree Gen.Node4Gen Gen.Node16Gen Gen.TreeGen Gen.IterGen.\nFrom Coq Require Import String.\nImport ListNotations.\nOpen Scope N_scope.\n")
	sb.WriteString(apiVocabulary)
	defer func() { writeIfChanged(filepath.Join(outdir, "ApiGen.v"), sb.String()) }()

	sh := treeShared
	if sh == nil {
		fmt.Fprintln(os.Stderr, "srcfacts: translate api: the tree translation did not run")
		sb.WriteString("\n(* the tree translation did not run *)\n")
		return
	}
	env := newApiEnv(sh)
	for _, goName := range treeOrder {
		short := treeShort[goName]
		file := "trees.go"
		if goName == "collationSortedTree" {
			file = "collation.go"
		}
		tree := &apiTree{goName: goName, short: short, methods: map[string]*apiMethod{}}
		sb.WriteString("\n(* ================= " + goName + " (" + file + ") ================= *)\n")
		// the struct: which field is the codec, what K is
		var st *types.Struct
		var kTP *types.TypeParam
		if obj, ok := sh.info.Defs[findTypeIdent(sh.files, goName)].(*types.TypeName); ok && obj != nil {
			if n, ok := obj.Type().(*types.Named); ok {
				st, _ = n.Underlying().(*types.Struct)
				if n.TypeParams() != nil && n.TypeParams().Len() == 2 {
					kTP = n.TypeParams().At(0)
				}
			}
		}
		if st == nil || kTP == nil {
			fmt.Fprintln(os.Stderr, "srcfacts: translate api: type "+goName+" not found")
			sb.WriteString("(* type " + goName + " not found *)\n")
			continue
		}
		for i := 0; i < st.NumFields(); i++ {
			f := st.Field(i)
			if hasMethod(f.Type(), "Transform") || hasMethod(types.NewPointer(f.Type()), "Transform") {
				tree.codecField = f.Name()
			}
		}
		tree.keyBytes = byteStringConstraint(kTP.Constraint())
		// its Search, as Gen/TreeGen.v has it
		if fd := env.find(file, "Search", goName); fd != nil {
			_, warn, self := translateTreeFunc(sh.fset, sh.info, env.callees, map[string]string{}, treeFuncSpec{fd: fd, coq: "g_" + short + "_search", search: true})
			if warn == "" && self != nil {
				if which, ok := searchKeyResults(fd); ok {
					tree.search = &apiSearch{callee: self, key: "g_" + short + "_search_key", which: which}
				}
			}
		}
		for _, mn := range apiMethodOrder {
			coq := "g_" + short + "_" + mn
			fd := env.find(file, mn, goName)
			if fd == nil {
				fmt.Fprintln(os.Stderr, "srcfacts: translate api: "+file+": method "+goName+"."+mn+" not found")
				sb.WriteString("\n(* " + file + ": method " + goName + "." + mn + " not found *)\nDefinition " + coq + " : untranslated := UNSUPPORTED \"not found\".\n")
				continue
			}
			for _, te := range sh.typeErrs {
				if te.Pos >= fd.Pos() && te.Pos < fd.End() {
					fmt.Fprintf(os.Stderr, "srcfacts: translate api: type error in %s: %s\n", coq, te.Msg)
				}
			}
			text, warn, self := env.translateMethod(tree, fd, coq)
			if warn != "" {
				fmt.Fprintln(os.Stderr, "srcfacts: translate api: UNSUPPORTED", warn)
			}
			if self != nil {
				tree.methods[mn] = self
			}
			sb.WriteString("\n" + text)
		}
	}
}

func findTypeIdent(files []*ast.File, name string) *ast.Ident {
	for _, f := range files {
		for _, d := range f.Decls {
			gd, ok := d.(*ast.GenDecl)
			if !ok || gd.Tok != token.TYPE {
				continue
			}
			for _, sp := range gd.Specs {
				if ts := sp.(*ast.TypeSpec); ts.Name.Name == name {
					return ts.Name
				}
			}
		}
	}
	return nil
}

// is every type of the constraint a byte string (string, []byte; []rune is tolerated, see the conventions)?
func byteStringConstraint(c types.Type) bool {
	it, ok := types.Unalias(c).Underlying().(*types.Interface)
	if !ok || it.NumMethods() != 0 || it.NumEmbeddeds() == 0 {
		return false
	}
	sawBytes := false
	var term func(ty types.Type) bool
	term = func(ty types.Type) bool {
		ty = types.Unalias(ty)
		switch u := ty.(type) {
		case *types.Union:
			for i := 0; i < u.Len(); i++ {
				if !term(u.Term(i).Type()) {
					return false
				}
			}
			return true
		}
		switch u := ty.Underlying().(type) {
		case *types.Interface:
			if u.NumMethods() != 0 || u.NumEmbeddeds() == 0 {
				return false
			}
			for i := 0; i < u.NumEmbeddeds(); i++ {
				if !term(u.EmbeddedType(i)) {
					return false
				}
			}
			return true
		case *types.Basic:
			if u.Kind() == types.String {
				sawBytes = true
				return true
			}
		case *types.Slice:
			if isByte(u.Elem()) {
				sawBytes = true
				return true
			}
			if b, ok := u.Elem().Underlying().(*types.Basic); ok && b.Kind() == types.Int32 { // []rune
				return true
			}
		}
		return false
	}
	for i := 0; i < it.NumEmbeddeds(); i++ {
		if !term(it.EmbeddedType(i)) {
			return false
		}
	}
	return sawBytes
}

// the first statement of a Search method, `x, y := t.<codec>.Transform(key)`: which results it keeps
func searchKeyResults(fd *ast.FuncDecl) ([]int, bool) {
	if fd.Body == nil || len(fd.Body.List) == 0 {
		return nil, false
	}
	as, ok := fd.Body.List[0].(*ast.AssignStmt)
	if !ok || len(as.Lhs) != 2 {
		return nil, false
	}
	var which []int
	for i, l := range as.Lhs {
		if id, ok := l.(*ast.Ident); ok && id.Name != "_" {
			which = append(which, i)
		}
	}
	return which, len(which) > 0
}
