// translate_tree.go: the translator of the read-only descent code of /repo's
// tree.go (longestCommonPrefix, checkPrefix, minimum, maximum, prefixMismatch),
// trees.go (the Search methods of the five generated trees) and collation.go
// (Search of collationSortedTree) to Gallina, re-run on every run.
// Output: Gen/TreeGen.v. Proofs/TranslateTreeFacts.v proves each regenerated
// definition equal to the hand-written models Model/Tree.v / Model/PoolTree.v
// on its domain, so an edit of the Go text that changes what one of these
// routines computes breaks a theorem.
//
// The functions read the Go heap (node references, the four node layouts, the
// leaves). What one field read, array read or pointer conversion stands for is
// the small hand-written vocabulary Model/GoTree.v (trusted); everything else —
// control flow, arithmetic, which field is read where — is translated.
//
// Typing. The whole package (every non-test file of the repository root whose
// //go:build line holds with no tag set: node16_other.go, not node16.go) is
// type-checked by go/types against stubs of the imported packages (signatures
// only; unknown imports are empty packages, errors outside the translated
// functions are ignored). Generic functions are translated from their generic
// bodies: the type parameter V is the sort "value", a type parameter
// constrained by nodeLeaf[V] is the sort "leaf pointer".
//
// Supported fragment (anything else makes the whole function UNSUPPORTED):
//
//	types       int -> Z (unbounded); uint8/byte, uint32 -> N; bool; []byte, [n]byte, *[n]byte -> list N;
//	            nodeRef, unsafe.Pointer -> gref; [n]nodeRef -> list gref; nodeKind -> gkind;
//	            *node4 *node16 *node48 *node256 -> xnode xtree; *node -> xhdr;
//	            pointers to the leaf structs and type parameters constrained by nodeLeaf -> xtree;
//	            a type parameter constrained by any (V) -> Z; results (V, bool) -> sres
//	statements  x := e   var x T [= e]   x = e   x op= e (+ -)   x++   x--
//	            if [init;] c {..} [else ..]   switch tag {case nodeKindK: ..; default: ..}   { .. }
//	            for [init]; [c]; [post] {..}  (a Fixpoint on fuel)   break   continue
//	            return e   return v, true   return zero, false   panic(..)
//	expressions identifiers, constants, + - on int / uint8 / uint32 (wrap written out), == != < <= > >=,
//	            && || !, int(e) and the other integer conversions, len(e), min(..), bytes.Equal(a, b),
//	            a[i] (checked: out of range is the visible outcome *Panic), &a, x.pointer x.tag,
//	            x.pointer ==/!= nil, x.node(), the fields prefixLen childrenLen prefix keys children value,
//	            (*nodeK)(p), (*leaf)(p), (L)(p), l.getKey() l.getTransformKey(),
//	            calls of searchNode4 / searchNode16 (their translations in Gen/Node4Gen.v, Gen/Node16Gen.v)
//	            and of the functions translated here; in the key preparation of Search also
//	            append(x[:len(x):len(x)], c)
//
// translate_iter.go extends the fragment through the hooks of treeTr (treeHooks) and the sorts listed
// after tVal; for it this file also translates x++ / x-- on unsigned variables, a loop condition
// `a && b` with a checked read in b (b is evaluated only when a holds), zero-valued slice
// declarations, and gives counting-down loops (a >= b, a > b) and unsigned a < b their own budgets.
package main

import (
	"bytes"
	"fmt"
	"go/ast"
	"go/build/constraint"
	"go/constant"
	"go/parser"
	"go/printer"
	"go/token"
	"go/types"
	"os"
	"path/filepath"
	"sort"
	"strings"
)

// ---------------------------------------------------------------- stubs of the imported packages

var treeStubs = map[string]string{
	"bytes": `package bytes
func Equal(a, b []byte) bool { return false }
func Compare(a, b []byte) int { return 0 }
func HasPrefix(s, prefix []byte) bool { return false }
`,
	"strings": `package strings
func Compare(a, b string) int { return 0 }
func HasPrefix(s, prefix string) bool { return false }
`,
	"iter": `package iter
type Seq[V any] func(yield func(V) bool)
type Seq2[K, V any] func(yield func(K, V) bool)
`,
	"sync": `package sync
type Pool struct { New func() any }
func (p *Pool) Get() any { return nil }
func (p *Pool) Put(x any) {}
`,
	"strconv": `package strconv
func Itoa(i int) string { return "" }
func FormatInt(i int64, base int) string { return "" }
`,
	"golang.org/x/text/language": `package language
type Tag struct{}
var Und Tag
`,
	"golang.org/x/text/collate": `package collate
import "golang.org/x/text/language"
type Option struct{}
type Collator struct{}
type Buffer struct{}
func New(t language.Tag, o ...Option) *Collator { return nil }
func (c *Collator) Key(buf *Buffer, str []byte) []byte { return nil }
func (c *Collator) KeyFromString(buf *Buffer, str string) []byte { return nil }
func (b *Buffer) Reset() {}
`,
	"encoding/binary": keyBinaryStubSrc,
	"math":            keyMathStubSrc,
	"math/bits":       bitsStubSrc,
}

type treeImporter struct {
	fset *token.FileSet
	pkgs map[string]*types.Package
}

func (im *treeImporter) Import(path string) (*types.Package, error) {
	if p, ok := im.pkgs[path]; ok {
		return p, nil
	}
	if path == "unsafe" {
		return types.Unsafe, nil
	}
	src, ok := treeStubs[path]
	if !ok { // an import the translated functions do not use: an empty package
		name := path
		if i := strings.LastIndex(path, "/"); i >= 0 {
			name = path[i+1:]
		}
		p := types.NewPackage(path, name)
		p.MarkComplete()
		im.pkgs[path] = p
		return p, nil
	}
	f, err := parser.ParseFile(im.fset, strings.ReplaceAll(path, "/", "_")+"_stub.go", src, 0)
	if err != nil {
		return nil, err
	}
	p, err := (&types.Config{Importer: im}).Check(path, im.fset, []*ast.File{f}, nil)
	if err != nil {
		return nil, err
	}
	im.pkgs[path] = p
	return p, nil
}

func init() {
	for _, w := range strings.Fields(`fuel root gres lres GRet GPanic GFuel LRet LDone LPanic LFuel
		gkind Kind4 Kind16 Kind48 Kind256 KindLeaf gkind_eqb gref ref_is_nil ref_pointer ref_tag ref_node
		cast_node4 cast_node16 cast_node48 cast_node256 cast_leaf xleaf_gk xleaf_tk xleaf_v hdr_prefixLen
		idx_bytes idx_refs xword xbytes xch xh xlen xplen xprefix beq sres SFound SAbsent SFuel Some None
		xtree xnode xhdr option unit r s O S`) {
		coqReserved[w] = true
	}
}

// ---------------------------------------------------------------- sorts

type tKind int

const (
	tBad   tKind = iota
	tBool        // bool
	tInt         // Z, unbounded
	tU8          // N, < 2^8
	tU32         // N, < 2^32
	tBytes       // list N: []byte (n = 0), [n]byte, *[n]byte
	tRef         // gref: nodeRef
	tPtr         // gref: unsafe.Pointer
	tRefs        // list gref: [n]nodeRef
	tNode        // xnode xtree: *node4 (n = 4) ... *node256 (n = 256)
	tHdr         // xhdr: *node
	tLeaf        // xtree: a pointer to a leaf struct, a type parameter constrained by nodeLeaf
	tKindT       // gkind: nodeKind
	tVal         // Z: the type parameter V
	// the sorts of translate_iter.go
	tU64     // N, < 2^64: uint
	tRefPtr  // option gref: *nodeRef (None: the nil pointer)
	tEntry   // gref * Z: a local struct {nodeRef; int}
	tEntries // list (gref * Z): a slice of them
	tKV      // xtree: the pair restore(p) returns / an element a range loop receives, as the leaf it stands for
	tYield   // nat -> bool: the parameter yield of an iterator closure
	tPred    // xtree -> bool: a parameter func(K, V) bool
	tNat     // nat: the number of calls of yield made so far
	tLeaves  // list xtree: the leaves yield was called with, last first
)

type tSort struct {
	k tKind
	n int
}

func (s tSort) coqType() string {
	switch s.k {
	case tBool:
		return "bool"
	case tInt, tVal:
		return "Z"
	case tU8, tU32, tU64:
		return "N"
	case tRefPtr:
		return "option gref"
	case tEntry:
		return "(gref * Z)"
	case tEntries:
		return "list (gref * Z)"
	case tKV:
		return "xtree"
	case tYield:
		return "nat -> bool"
	case tPred:
		return "xtree -> bool"
	case tNat:
		return "nat"
	case tLeaves:
		return "list xtree"
	case tBytes:
		return "list N"
	case tRef, tPtr:
		return "gref"
	case tRefs:
		return "list gref"
	case tNode:
		return "xnode xtree"
	case tHdr:
		return "xhdr"
	case tLeaf:
		return "xtree"
	case tKindT:
		return "gkind"
	}
	return "?"
}

func (s tSort) String() string {
	names := map[tKind]string{tBool: "bool", tInt: "int", tU8: "uint8", tU32: "uint32", tBytes: "bytes", tRef: "nodeRef",
		tPtr: "unsafe.Pointer", tRefs: "[n]nodeRef", tNode: "*nodeK", tHdr: "*node", tLeaf: "leaf pointer", tKindT: "nodeKind", tVal: "V",
		tU64: "uint", tRefPtr: "*nodeRef", tEntry: "struct{nodeRef; int}", tEntries: "[]struct{nodeRef; int}", tKV: "restored pair", tYield: "yield",
		tPred: "func(K, V) bool", tNat: "nat", tLeaves: "leaves"}
	if s.k == tNode || ((s.k == tBytes || s.k == tRefs) && s.n != 0) {
		return fmt.Sprintf("%s(%d)", names[s.k], s.n)
	}
	if n, ok := names[s.k]; ok {
		return n
	}
	return "?"
}

func (s tSort) width() string { // of the unsigned sorts
	switch s.k {
	case tU8:
		return "8"
	case tU64:
		return "64"
	}
	return "32"
}

func namedName(t types.Type) string {
	if n, ok := types.Unalias(t).(*types.Named); ok {
		return n.Obj().Name()
	}
	return ""
}

func hasMethod(t types.Type, name string) bool {
	obj, _, _ := types.LookupFieldOrMethod(t, true, nil, name)
	if obj == nil { // unexported methods need the package
		if n, ok := types.Unalias(t).(*types.Named); ok {
			obj, _, _ = types.LookupFieldOrMethod(t, true, n.Obj().Pkg(), name)
		} else if p, ok := t.(*types.Pointer); ok {
			if n, ok := types.Unalias(p.Elem()).(*types.Named); ok {
				obj, _, _ = types.LookupFieldOrMethod(t, true, n.Obj().Pkg(), name)
			}
		}
	}
	_, isFunc := obj.(*types.Func)
	return isFunc
}

var nodeStructs = map[string]int{"node4": 4, "node16": 16, "node48": 48, "node256": 256}

func treeSortOf(t types.Type) tSort {
	if t == nil {
		return tSort{}
	}
	t = types.Unalias(t)
	if tp, ok := t.(*types.TypeParam); ok {
		c := tp.Constraint()
		if namedName(c) == "nodeLeaf" {
			return tSort{tLeaf, 0}
		}
		if it, ok := c.Underlying().(*types.Interface); ok && it.Empty() {
			return tSort{tVal, 0}
		}
		return tSort{}
	}
	switch namedName(t) {
	case "nodeRef":
		return tSort{tRef, 0}
	case "nodeKind":
		return tSort{tKindT, 0}
	}
	switch u := t.Underlying().(type) {
	case *types.Basic:
		switch u.Kind() {
		case types.Bool, types.UntypedBool:
			return tSort{tBool, 0}
		case types.Int, types.UntypedInt, types.UntypedRune:
			return tSort{tInt, 0}
		case types.Uint8:
			return tSort{tU8, 0}
		case types.Uint32:
			return tSort{tU32, 0}
		case types.Uint, types.Uint64:
			return tSort{tU64, 0}
		case types.UnsafePointer:
			return tSort{tPtr, 0}
		}
	case *types.Slice:
		if isByte(u.Elem()) {
			return tSort{tBytes, 0}
		}
		if namedName(u.Elem()) == "nodeRef" {
			return tSort{tRefs, 0}
		}
		if treeSortOf(u.Elem()).k == tEntry {
			return tSort{tEntries, 0}
		}
	case *types.Struct: // struct {nodeRef; int}, whatever the field names
		if u.NumFields() == 2 && namedName(u.Field(0).Type()) == "nodeRef" && treeSortOf(u.Field(1).Type()).k == tInt {
			return tSort{tEntry, 0}
		}
	case *types.Array:
		if isByte(u.Elem()) {
			return tSort{tBytes, int(u.Len())}
		}
		if namedName(u.Elem()) == "nodeRef" {
			return tSort{tRefs, int(u.Len())}
		}
	case *types.Pointer:
		e := types.Unalias(u.Elem())
		if n, ok := nodeStructs[namedName(e)]; ok {
			return tSort{tNode, n}
		}
		if namedName(e) == "node" {
			return tSort{tHdr, 0}
		}
		if namedName(e) == "nodeRef" {
			return tSort{tRefPtr, 0}
		}
		if a, ok := e.Underlying().(*types.Array); ok && isByte(a.Elem()) {
			return tSort{tBytes, int(a.Len())}
		}
		if _, ok := e.Underlying().(*types.Struct); ok && hasMethod(t, "getKey") && hasMethod(t, "getTransformKey") {
			return tSort{tLeaf, 0}
		}
	}
	return tSort{}
}

// ---------------------------------------------------------------- the translator of one function

type tBind struct {
	name string // the bound name
	code string // an option (gres == false) or a gres (gres == true) term; a plain term when let is set
	gres bool
	let  bool // let name := code in (a call of yield: no failure case)
}

// the result constructors of a context that does not return gres / lres (translate_iter.go: iterator closures)
type tResNames struct {
	panicC, fuelC string
}

// extension points used by translate_iter.go (nil: none)
type treeHooks struct {
	expr     func(e ast.Expr) (string, tSort, bool)
	stmt     func(st ast.Stmt, rest []ast.Stmt, c *tCtx, ind string) (string, bool)
	assigned func(n ast.Node) []types.Object
	ret      func(s *ast.ReturnStmt, c *tCtx) (string, bool)
}

// a translated callee
type treeCallee struct {
	coq    string
	params []tSort
	res    tSort
	fuel   bool // takes the iteration budget as its first argument
	total  bool // a plain function (no gres)
}

type tCtx struct {
	res    *tResNames    // non-nil: the term under construction has the result type of an iterator closure (ires)
	inLoop bool          // the term under construction has type lres (else gres)
	fall   func() string // control falls off the end of the statement list
	brk    func() string // break (nil: not allowed here)
	cont   func() string // continue (nil: not allowed here)
}

type treeTr struct {
	*fnTr
	sorts    map[types.Object]tSort
	pre      []tBind
	callees  map[string]*treeCallee
	consts   map[string]string // named package constants used: name -> Coq definition text
	recv     types.Object      // the receiver of a Search method (its field root is the parameter root)
	useRoot  bool
	needFuel bool
	base     string   // g_<name>
	aux      []string // the loop Fixpoints, innermost first
	nloops   int
	njoin    int
	resCoq   string // Coq type of the function result
	resSorts []tSort
	zeroVars map[types.Object]bool // `var x V` never assigned: the zero value
	fd       *ast.FuncDecl
	hooks    *treeHooks
}

func (t *treeTr) panicC(c *tCtx) string {
	if c.res != nil {
		return c.res.panicC
	}
	if c.inLoop {
		return "LPanic"
	}
	return "GPanic"
}
func (t *treeTr) fuelC(c *tCtx) string {
	if c.res != nil {
		return c.res.fuelC
	}
	if c.inLoop {
		return "LFuel"
	}
	return "GFuel"
}
func (t *treeTr) retC(c *tCtx) string {
	if c.res != nil { // the value is the result
		return ""
	}
	if c.inLoop {
		return "LRet"
	}
	return "GRet"
}

func (t *treeTr) bindOpt(code string) string {
	n := t.fresh("v")
	t.pre = append(t.pre, tBind{name: n, code: code})
	return n
}

func (t *treeTr) local(e ast.Expr) (types.Object, tSort, bool) {
	id, ok := ast.Unparen(e).(*ast.Ident)
	if !ok {
		return nil, tSort{}, false
	}
	obj := t.info.Uses[id]
	if obj == nil {
		obj = t.info.Defs[id]
	}
	s, ok := t.sorts[obj]
	return obj, s, ok
}

func tLit(v constant.Value, s tSort) (string, bool) {
	if v == nil {
		return "", false
	}
	switch s.k {
	case tBool:
		if v.Kind() == constant.Bool {
			if constant.BoolVal(v) {
				return "true", true
			}
			return "false", true
		}
	case tU8, tU32, tU64:
		return natLit(v)
	case tInt:
		iv := constant.ToInt(v)
		if iv.Kind() != constant.Int {
			return "", false
		}
		if constant.Sign(iv) < 0 {
			l, ok := natLit(constant.UnaryOp(token.SUB, iv, 0))
			return "(-" + l + ")%Z", ok
		}
		l, ok := natLit(iv)
		return l + "%Z", ok
	}
	return "", false
}

// a package-level constant of the repository (not a nodeKind): emitted once as g_<name> : N
func (t *treeTr) namedConst(e ast.Expr) (*types.Const, bool) {
	id, ok := ast.Unparen(e).(*ast.Ident)
	if !ok {
		return nil, false
	}
	c, ok := t.info.Uses[id].(*types.Const)
	if !ok || c.Pkg() == nil || c.Parent() != c.Pkg().Scope() {
		return nil, false
	}
	return c, true
}

func (t *treeTr) mentionsPkgConst(e ast.Expr) bool {
	found := false
	ast.Inspect(e, func(n ast.Node) bool {
		if id, ok := n.(*ast.Ident); ok {
			if c, ok := t.info.Uses[id].(*types.Const); ok && c.Pkg() != nil && c.Parent() == c.Pkg().Scope() && c.Pkg().Name() == "art" {
				found = true
			}
		}
		return !found
	})
	return found
}

func (t *treeTr) asZ(code string, s tSort, at ast.Node) string {
	switch s.k {
	case tInt:
		return code
	case tU8, tU32, tU64:
		return app("Z.of_N", code)
	}
	t.fail(at, "not an integer")
	return ""
}

func (t *treeTr) tExpr(e ast.Expr) (string, tSort) {
	e = ast.Unparen(e)
	if t.hooks != nil && t.hooks.expr != nil {
		if code, s, ok := t.hooks.expr(e); ok {
			return code, s
		}
	}
	tv, ok := t.info.Types[e]
	if !ok {
		if id, isId := e.(*ast.Ident); !isId || (t.info.Uses[id] == nil && t.info.Defs[id] == nil) {
			t.fail(e, "no type recorded (the package does not type-check here)")
		}
	}
	if tv.IsNil() {
		t.fail(e, "nil outside `x.pointer == nil`, `x.pointer != nil` and `return nil`")
	}
	if tv.Value != nil {
		s := treeSortOf(tv.Type)
		if c, ok := t.namedConst(e); ok {
			if s.k == tKindT {
				if k, ok := map[string]string{"nodeKind4": "Kind4", "nodeKind16": "Kind16", "nodeKind48": "Kind48",
					"nodeKind256": "Kind256", "nodeKindLeaf": "KindLeaf"}[c.Name()]; ok {
					return k, s
				}
				t.fail(e, "nodeKind constant outside the fragment")
			}
			if l, ok := natLit(c.Val()); ok && constant.Compare(constant.ToInt(c.Val()), token.EQL, constant.ToInt(tv.Value)) {
				name := "g_" + c.Name()
				t.consts[c.Name()] = fmt.Sprintf("(* const %s = %s (node.go), used at the integer type of each occurrence *)\nDefinition %s : N := %s.\n",
					c.Name(), c.Val().ExactString(), name, l)
				switch s.k {
				case tU8, tU32, tU64:
					return name, s
				case tInt:
					return app("Z.of_N", name), s
				}
			}
			t.fail(e, "named constant outside the fragment")
		}
		if !t.mentionsPkgConst(e) {
			if l, ok := tLit(tv.Value, s); ok {
				return l, s
			}
			t.fail(e, "constant outside the fragment")
		}
	}
	switch x := e.(type) {
	case *ast.Ident:
		if obj, s, ok := t.local(x); ok {
			if t.zeroVars[obj] {
				t.fail(e, "use of a zero-value variable other than in `return zero, false`")
			}
			return t.nameOf(obj), s
		}
		t.fail(e, "identifier outside the fragment")
	case *ast.SelectorExpr:
		return t.selector(x)
	case *ast.UnaryExpr:
		if x.Op == token.AND { // &n16.keys: a pointer to an array is the array
			a, s := t.tExpr(x.X)
			if s.k == tBytes && s.n != 0 {
				return a, s
			}
			t.fail(e, "address-of outside the fragment (only of a byte array)")
		}
		a, s := t.tExpr(x.X)
		switch {
		case x.Op == token.NOT && s.k == tBool:
			return app("negb", a), s
		case x.Op == token.SUB && s.k == tInt:
			return app("Z.opp", a), s
		case x.Op == token.ADD && (s.k == tInt || s.k == tU8 || s.k == tU32 || s.k == tU64):
			return a, s
		}
		t.fail(e, "unary operator outside the fragment")
	case *ast.BinaryExpr:
		return t.tBinary(x)
	case *ast.CallExpr:
		return t.tCall(x)
	case *ast.IndexExpr:
		a, s := t.tExpr(x.X)
		i, is := t.tExpr(x.Index)
		iz := t.asZ(i, is, x.Index)
		switch s.k {
		case tBytes:
			return t.bindOpt(app("idx_bytes", a, iz)), tSort{tU8, 0}
		case tRefs:
			return t.bindOpt(app("idx_refs", a, iz)), tSort{tRef, 0}
		}
		t.fail(e, "index of something else than a byte slice / byte array / array of nodeRef")
	case *ast.SliceExpr: // x[:len(x):len(x)] is x with its capacity cut: the same bytes
		if a, s := t.tExpr(x.X); s == (tSort{tBytes, 0}) && x.Low == nil && x.Slice3 && t.isLenOf(x.High, x.X) && t.isLenOf(x.Max, x.X) {
			return a, s
		}
		t.fail(e, "slice expression outside the fragment (only x[:len(x):len(x)])")
	}
	t.fail(e, "expression outside the fragment")
	return "", tSort{}
}

func (t *treeTr) isLenOf(e, x ast.Expr) bool {
	c, ok := ast.Unparen(e).(*ast.CallExpr)
	if !ok || len(c.Args) != 1 {
		return false
	}
	id, ok := ast.Unparen(c.Fun).(*ast.Ident)
	if !ok {
		return false
	}
	if b, ok := t.info.Uses[id].(*types.Builtin); !ok || b.Name() != "len" {
		return false
	}
	o1, _, ok1 := t.local(c.Args[0])
	o2, _, ok2 := t.local(x)
	return ok1 && ok2 && o1 == o2
}

func (t *treeTr) checkSort(e ast.Expr, s tSort) {
	if got := treeSortOf(t.info.Types[e].Type); got != s {
		t.fail(e, fmt.Sprintf("the Go type of this field (%s) is not the one the vocabulary of Model/GoTree.v reads (%s)", got, s))
	}
}

func (t *treeTr) selector(x *ast.SelectorExpr) (string, tSort) {
	f := x.Sel.Name
	if id, ok := ast.Unparen(x.X).(*ast.Ident); ok && t.recv != nil && t.info.Uses[id] == t.recv {
		if f == "root" && treeSortOf(t.info.Types[x].Type).k == tRef {
			t.useRoot = true
			return "root", tSort{tRef, 0}
		}
		t.fail(x, "field of the tree outside the fragment (only root)")
	}
	if sel, ok := t.info.Selections[x]; !ok || sel.Kind() != types.FieldVal {
		t.fail(x, "selector outside the fragment")
	}
	a, s := t.tExpr(x.X)
	var code string
	var rs tSort
	switch {
	case s.k == tRef && f == "pointer":
		code, rs = app("ref_pointer", a), tSort{tPtr, 0}
	case s.k == tRef && f == "tag":
		t.checkSort(x, tSort{tKindT, 0})
		return t.bindOpt(app("ref_tag", a)), tSort{tKindT, 0}
	case s.k == tHdr && f == "prefixLen":
		code, rs = app("hdr_prefixLen", a), tSort{tU32, 0}
	case s.k == tHdr && f == "childrenLen":
		code, rs = app("xlen", a), tSort{tU8, 0}
	case s.k == tHdr && f == "prefix":
		code, rs = app("xprefix", a), treeSortOf(t.info.Types[x].Type)
		if rs.k != tBytes || rs.n == 0 {
			t.fail(x, "prefix is not a byte array")
		}
	case s.k == tNode && f == "prefixLen":
		code, rs = app("hdr_prefixLen", app("xh", a)), tSort{tU32, 0}
	case s.k == tNode && f == "childrenLen":
		code, rs = app("xlen", app("xh", a)), tSort{tU8, 0}
	case s.k == tNode && f == "prefix":
		code, rs = app("xprefix", app("xh", a)), treeSortOf(t.info.Types[x].Type)
		if rs.k != tBytes || rs.n == 0 {
			t.fail(x, "prefix is not a byte array")
		}
	case s.k == tNode && f == "keys" && s.n == 4:
		code, rs = app("xword", a), tSort{tU32, 0}
	case s.k == tNode && f == "keys" && (s.n == 16 || s.n == 48):
		code, rs = app("xbytes", a), tSort{tBytes, map[int]int{16: 16, 48: 256}[s.n]}
	case s.k == tNode && f == "children":
		code, rs = app("xch", a), tSort{tRefs, s.n}
	case s.k == tLeaf && f == "value":
		code, rs = app("xleaf_v", a), tSort{tVal, 0}
	default:
		t.fail(x, fmt.Sprintf("field %s of a %s", f, s))
	}
	t.checkSort(x, rs)
	return code, rs
}

func (t *treeTr) tBinary(x *ast.BinaryExpr) (string, tSort) {
	bo := tSort{tBool, 0}
	// x.pointer == nil, x.pointer != nil
	if x.Op == token.EQL || x.Op == token.NEQ {
		for _, pair := range [][2]ast.Expr{{x.X, x.Y}, {x.Y, x.X}} {
			if tv, ok := t.info.Types[ast.Unparen(pair[1])]; ok && tv.IsNil() {
				a, s := t.tExpr(pair[0])
				if s.k != tPtr {
					t.fail(x, "comparison with nil of something else than an unsafe.Pointer")
				}
				c := app("ref_is_nil", a)
				if x.Op == token.NEQ {
					c = app("negb", c)
				}
				return c, bo
			}
		}
	}
	if x.Op == token.LAND || x.Op == token.LOR {
		a, s := t.tExpr(x.X)
		npre := len(t.pre)
		b, sb := t.tExpr(x.Y)
		if len(t.pre) != npre {
			t.fail(x, "a checked read (index, tag, conversion, call) in the right operand of && / ||")
		}
		if s.k != tBool || sb.k != tBool {
			t.fail(x, "logical operator at this type")
		}
		if x.Op == token.LAND {
			return app("andb", a, b), bo
		}
		return app("orb", a, b), bo
	}
	a, s := t.tExpr(x.X)
	b, sb := t.tExpr(x.Y)
	if s != sb {
		t.fail(x, fmt.Sprintf("operands of different types (%s, %s)", s, sb))
	}
	switch x.Op {
	case token.ADD, token.SUB:
		f := map[token.Token]string{token.ADD: "add", token.SUB: "sub"}[x.Op]
		switch s.k {
		case tInt:
			return app("Z."+f, a, b), s // unbounded
		case tU8, tU32, tU64:
			return app(f+"w", s.width(), a, b), s // wraps at the operand width
		}
		t.fail(x, "arithmetic at this type")
	case token.EQL, token.NEQ, token.LSS, token.LEQ, token.GTR, token.GEQ:
		pre := ""
		switch s.k {
		case tInt:
			pre = "Z."
		case tU8, tU32, tU64:
			pre = "N."
		case tKindT:
			switch x.Op {
			case token.EQL:
				return app("gkind_eqb", a, b), bo
			case token.NEQ:
				return app("negb", app("gkind_eqb", a, b)), bo
			}
			t.fail(x, "order comparison of nodeKind values")
		default:
			t.fail(x, "comparison at this type")
		}
		switch x.Op {
		case token.EQL:
			return app(pre+"eqb", a, b), bo
		case token.NEQ:
			return app("negb", app(pre+"eqb", a, b)), bo
		case token.LSS:
			return app(pre+"ltb", a, b), bo
		case token.LEQ:
			return app(pre+"leb", a, b), bo
		case token.GTR:
			return app(pre+"ltb", b, a), bo
		case token.GEQ:
			return app(pre+"leb", b, a), bo
		}
	}
	t.fail(x, "binary operator outside the fragment")
	return "", tSort{}
}

func (t *treeTr) fuelArg() string { t.needFuel = true; return "fuel" }

func (t *treeTr) tCall(x *ast.CallExpr) (string, tSort) {
	if x.Ellipsis != token.NoPos {
		t.fail(x, "call outside the fragment")
	}
	fun := ast.Unparen(x.Fun)
	if tv, ok := t.info.Types[fun]; ok && tv.IsType() { // conversion
		if len(x.Args) != 1 {
			t.fail(x, "conversion")
		}
		to := treeSortOf(tv.Type)
		a, from := t.tExpr(x.Args[0])
		switch {
		case to.k == tBad || from.k == tBad:
		case to == from:
			return a, to
		case to.k == tInt && (from.k == tU8 || from.k == tU32 || from.k == tU64):
			return app("Z.of_N", a), to // always fits
		case to.k == tU32 && from.k == tU8:
			return a, to // widening: the value is unchanged
		case to.k == tU8 && from.k == tU32:
			return app("wrapw", "8", a), to
		case to.k == tNode && from.k == tPtr:
			return t.bindOpt(app(fmt.Sprintf("cast_node%d", to.n), a)), to
		case to.k == tLeaf && from.k == tPtr:
			return t.bindOpt(app("cast_leaf", a)), to
		}
		t.fail(x, fmt.Sprintf("conversion of %s to %s", from, to))
	}
	if ix, ok := fun.(*ast.IndexExpr); ok { // f[V](...)
		fun = ast.Unparen(ix.X)
	} else if ix, ok := fun.(*ast.IndexListExpr); ok {
		fun = ast.Unparen(ix.X)
	}
	switch f := fun.(type) {
	case *ast.Ident:
		switch o := t.info.Uses[f].(type) {
		case *types.Builtin:
			switch o.Name() {
			case "len":
				if len(x.Args) == 1 {
					if a, s := t.tExpr(x.Args[0]); s.k == tBytes || s.k == tRefs || s.k == tEntries {
						return app("Z.of_nat", app("List.length", a)), tSort{tInt, 0}
					}
				}
			case "min":
				if len(x.Args) >= 2 {
					acc, s := t.tExpr(x.Args[0])
					for _, y := range x.Args[1:] {
						b, sb := t.tExpr(y)
						if sb != s {
							t.fail(x, fmt.Sprintf("min of different types (%s, %s)", s, sb))
						}
						switch s.k {
						case tInt:
							acc = app("Z.min", acc, b)
						case tU8, tU32, tU64:
							acc = app("N.min", acc, b)
						default:
							t.fail(x, "min at this type")
						}
					}
					return acc, s
				}
			case "append": // append(x, c) on bytes
				if len(x.Args) == 2 {
					a, s := t.tExpr(x.Args[0])
					c, sc := t.tExpr(x.Args[1])
					if s == (tSort{tBytes, 0}) && sc.k == tU8 {
						return "(" + a + " ++ [" + top(c) + "])", s
					}
				}
			}
			t.fail(x, "builtin outside the fragment")
		case *types.Func:
			if o.Pkg() != nil && o.Pkg().Name() == "art" {
				return t.callee(x, o.Name(), nil)
			}
		}
	case *ast.SelectorExpr:
		if id, ok := ast.Unparen(f.X).(*ast.Ident); ok {
			if pn, ok := t.info.Uses[id].(*types.PkgName); ok {
				if pn.Imported().Path() == "bytes" && f.Sel.Name == "Equal" && len(x.Args) == 2 {
					a, s := t.tExpr(x.Args[0])
					b, sb := t.tExpr(x.Args[1])
					if s.k == tBytes && sb.k == tBytes {
						return app("beq", a, b), tSort{tBool, 0}
					}
				}
				t.fail(x, "call of an imported function outside the fragment")
			}
		}
		if sel, ok := t.info.Selections[f]; ok && sel.Kind() == types.MethodVal {
			a, s := t.tExpr(f.X)
			m := f.Sel.Name
			switch {
			case s.k == tRef && m == "node" && len(x.Args) == 0:
				return t.bindOpt(app("ref_node", a)), tSort{tHdr, 0}
			case s.k == tLeaf && m == "getKey" && len(x.Args) == 0:
				return app("xleaf_gk", a), tSort{tBytes, 0}
			case s.k == tLeaf && m == "getTransformKey" && len(x.Args) == 0:
				return app("xleaf_tk", a), tSort{tBytes, 0}
			case s.k == tHdr || s.k == tNode:
				if s.k == tNode {
					a = app("xh", a)
				}
				return t.callee(x, m, &a)
			}
		}
	}
	t.fail(x, "call outside the fragment")
	return "", tSort{}
}

func (t *treeTr) callee(x *ast.CallExpr, name string, recv *string) (string, tSort) {
	c, ok := t.callees[name]
	if !ok {
		t.fail(x, "call of a function that is not translated")
	}
	var args []string
	if c.fuel {
		args = append(args, t.fuelArg())
	}
	ps := c.params
	if recv != nil {
		if len(ps) == 0 || ps[0].k != tHdr {
			t.fail(x, "method call")
		}
		args = append(args, *recv)
		ps = ps[1:]
	}
	if len(ps) != len(x.Args) {
		t.fail(x, "number of arguments")
	}
	for i, a := range x.Args {
		code, s := t.tExpr(a)
		if s.k != ps[i].k || (ps[i].n != 0 && s.n != ps[i].n) {
			t.fail(a, fmt.Sprintf("argument of sort %s where the callee takes %s", s, ps[i]))
		}
		args = append(args, code)
	}
	code := app(c.coq, args...)
	if c.total {
		return code, c.res
	}
	n := t.fresh("r")
	t.pre = append(t.pre, tBind{name: n, code: code, gres: true})
	return n, c.res
}

// ---------------------------------------------------------------- statements

func (t *treeTr) takePre() []tBind { p := t.pre; t.pre = nil; return p }

// wrap: the checked reads of a statement, outermost first, around the term body
func (t *treeTr) wrap(c *tCtx, pre []tBind, body string, ind string) string {
	for i := len(pre) - 1; i >= 0; i-- {
		b := pre[i]
		if b.let {
			body = ind + "let " + b.name + " := " + top(b.code) + " in\n" + body
		} else if b.gres {
			body = ind + "match " + top(b.code) + " with\n" + ind + "| GRet " + b.name + " =>\n" + body + "\n" +
				ind + "| GPanic => " + t.panicC(c) + "\n" + ind + "| GFuel => " + t.fuelC(c) + "\n" + ind + "end"
		} else {
			body = ind + "match " + top(b.code) + " with None => " + t.panicC(c) + " | Some " + b.name + " =>\n" + body + "\n" + ind + "end"
		}
	}
	return body
}

func (t *treeTr) declareT(obj types.Object, s tSort, at ast.Node) string {
	if obj == nil {
		t.fail(at, "declaration")
	}
	if s.k == tBad {
		t.fail(at, fmt.Sprintf("variable of type %s", obj.Type()))
	}
	t.sorts[obj] = s
	return t.nameOf(obj)
}

// does control never fall off the end of the list?
func neverFalls(list []ast.Stmt) bool {
	if len(list) == 0 {
		return false
	}
	switch s := list[len(list)-1].(type) {
	case *ast.ReturnStmt:
		return true
	case *ast.BranchStmt:
		return s.Tok == token.BREAK || s.Tok == token.CONTINUE
	case *ast.ExprStmt:
		if c, ok := s.X.(*ast.CallExpr); ok {
			if id, ok := c.Fun.(*ast.Ident); ok && id.Name == "panic" {
				return true
			}
		}
	case *ast.BlockStmt:
		return neverFalls(s.List)
	case *ast.IfStmt:
		if s.Else == nil {
			return false
		}
		var el []ast.Stmt
		switch e := s.Else.(type) {
		case *ast.BlockStmt:
			el = e.List
		default:
			el = []ast.Stmt{e}
		}
		return neverFalls(s.Body.List) && neverFalls(el)
	}
	return false
}

// the local variables declared outside n and assigned inside it, in order of first assignment
func (t *treeTr) assignedIn(n ast.Node) []types.Object {
	var out []types.Object
	seen := map[types.Object]bool{}
	add := func(e ast.Expr) {
		id, ok := ast.Unparen(e).(*ast.Ident)
		if !ok {
			t.fail(e, "assignment target outside the fragment")
		}
		obj := t.info.Uses[id]
		if obj == nil || (obj.Pos() >= n.Pos() && obj.Pos() < n.End()) {
			return
		}
		if !seen[obj] {
			seen[obj] = true
			out = append(out, obj)
		}
	}
	ast.Inspect(n, func(m ast.Node) bool {
		switch s := m.(type) {
		case *ast.AssignStmt:
			for _, l := range s.Lhs {
				add(l)
			}
		case *ast.IncDecStmt:
			add(s.X)
		}
		return true
	})
	if t.hooks != nil && t.hooks.assigned != nil {
		for _, o := range t.hooks.assigned(n) {
			if !seen[o] {
				seen[o] = true
				out = append(out, o)
			}
		}
	}
	return out
}

// the local variables declared outside n and mentioned inside it, in order of declaration
func (t *treeTr) freeIn(n ast.Node) []types.Object {
	var out []types.Object
	seen := map[types.Object]bool{}
	ast.Inspect(n, func(m ast.Node) bool {
		if id, ok := m.(*ast.Ident); ok {
			obj := t.info.Uses[id]
			if _, isLocal := t.sorts[obj]; isLocal && !seen[obj] && !(obj.Pos() >= n.Pos() && obj.Pos() < n.End()) {
				seen[obj] = true
				out = append(out, obj)
			}
		}
		return true
	})
	sort.Slice(out, func(i, j int) bool { return out[i].Pos() < out[j].Pos() })
	return out
}

func (t *treeTr) tupleT(objs []types.Object) (pat, val, typ string) {
	if len(objs) == 0 {
		return "_", "tt", "unit"
	}
	var ns, ts []string
	for _, o := range objs {
		ns = append(ns, t.nameOf(o))
		ts = append(ts, t.sorts[o].coqType())
	}
	if len(ns) == 1 {
		return ns[0], ns[0], ts[0]
	}
	return "(" + strings.Join(ns, ", ") + ")", "(" + strings.Join(ns, ", ") + ")", strings.Join(ts, " * ")
}

// join: REST is needed in several places. A short REST is repeated; a long one is bound once as a
// local function of the variables the branches assign.
func (t *treeTr) join(at ast.Node, rest string, ind string) (def string, use func() string) {
	trimmed := strings.TrimSpace(rest)
	if !strings.Contains(trimmed, "\n") && len(trimmed) <= 100 {
		return "", func() string { return trimmed }
	}
	t.njoin++
	k := t.fresh(fmt.Sprintf("k%d", t.njoin))
	vars := t.assignedIn(at)
	var known []types.Object
	for _, o := range vars {
		if _, ok := t.sorts[o]; ok {
			known = append(known, o)
		}
	}
	if len(known) == 0 {
		return ind + "let " + k + " := fun (_ : unit) =>\n" + rest + " in\n", func() string { return k + " tt" }
	}
	var binders, args []string
	for _, o := range known {
		binders = append(binders, "("+t.nameOf(o)+" : "+t.sorts[o].coqType()+")")
		args = append(args, t.nameOf(o))
	}
	return ind + "let " + k + " := fun " + strings.Join(binders, " ") + " =>\n" + rest + " in\n",
		func() string { return k + " " + strings.Join(args, " ") }
}

func (t *treeTr) tStmts(list []ast.Stmt, c *tCtx, ind string) string {
	if len(list) == 0 {
		return ind + c.fall()
	}
	st, rest := list[0], list[1:]
	let := func(name, code string) string {
		pre := t.takePre()
		return t.wrap(c, pre, ind+"let "+name+" := "+top(code)+" in\n"+t.tStmts(rest, c, ind), ind)
	}
	if t.hooks != nil && t.hooks.stmt != nil {
		if code, ok := t.hooks.stmt(st, rest, c, ind); ok {
			return code
		}
	}
	switch s := st.(type) {
	case *ast.EmptyStmt:
		return t.tStmts(rest, c, ind)
	case *ast.BlockStmt:
		return t.tStmts(concatStmts(s.List, rest), c, ind)
	case *ast.ReturnStmt: // statements after a return are unreachable
		code := t.ret(s, c)
		return t.wrap(c, t.takePre(), ind+code, ind)
	case *ast.BranchStmt:
		if s.Label != nil {
			t.fail(s, "labelled branch")
		}
		switch {
		case s.Tok == token.BREAK && c.brk != nil:
			return ind + c.brk()
		case s.Tok == token.CONTINUE && c.cont != nil:
			return ind + c.cont()
		}
		t.fail(s, "branch statement outside the fragment")
	case *ast.ExprStmt:
		if call, ok := s.X.(*ast.CallExpr); ok {
			if id, ok := call.Fun.(*ast.Ident); ok {
				if b, ok := t.info.Uses[id].(*types.Builtin); ok && b.Name() == "panic" {
					return ind + t.panicC(c)
				}
			}
		}
		t.fail(s, "expression statement outside the fragment")
	case *ast.DeclStmt:
		gd, ok := s.Decl.(*ast.GenDecl)
		if !ok || gd.Tok != token.VAR || len(gd.Specs) != 1 {
			t.fail(s, "declaration outside the fragment")
		}
		vs := gd.Specs[0].(*ast.ValueSpec)
		if len(vs.Names) != 1 || len(vs.Values) > 1 || vs.Names[0].Name == "_" {
			t.fail(s, "declaration of several variables")
		}
		obj := t.info.Defs[vs.Names[0]]
		if obj == nil {
			t.fail(s, "declaration")
		}
		ds := treeSortOf(obj.Type())
		if len(vs.Values) == 1 {
			code, rs := t.tExpr(vs.Values[0])
			if rs != ds {
				t.fail(s, "declaration with a value of a different type")
			}
			return let(t.declareT(obj, ds, s), code)
		}
		switch ds.k {
		case tInt:
			return let(t.declareT(obj, ds, s), "0%Z")
		case tU8, tU32:
			return let(t.declareT(obj, ds, s), "0")
		case tBool:
			return let(t.declareT(obj, ds, s), "false")
		case tBytes, tRefs, tEntries:
			if ds.n == 0 { // a nil slice: no elements
				return let(t.declareT(obj, ds, s), "(@nil "+map[tKind]string{tBytes: "N", tRefs: "gref", tEntries: "(gref * Z)"}[ds.k]+")")
			}
		case tVal:
			if len(t.assignedAnywhere(obj)) == 0 { // the zero value of V: only `return zero, false` may mention it
				t.sorts[obj] = ds
				t.zeroVars[obj] = true
				return t.tStmts(rest, c, ind)
			}
		}
		t.fail(s, "declaration without a value at this type")
	case *ast.IncDecStmt:
		obj, ls, ok := t.local(s.X)
		if ok && (ls.k == tU8 || ls.k == tU32 || ls.k == tU64) { // wraps at the width of the variable
			op := "addw"
			if s.Tok == token.DEC {
				op = "subw"
			}
			return let(t.nameOf(obj), app(op, ls.width(), t.nameOf(obj), "1"))
		}
		if !ok || ls.k != tInt {
			t.fail(s, "++ / -- of something else than an integer variable")
		}
		op := "Z.add"
		if s.Tok == token.DEC {
			op = "Z.sub"
		}
		return let(t.nameOf(obj), app(op, t.nameOf(obj), "1%Z"))
	case *ast.AssignStmt:
		if len(s.Lhs) != 1 || len(s.Rhs) != 1 {
			t.fail(s, "multiple assignment")
		}
		id, ok := ast.Unparen(s.Lhs[0]).(*ast.Ident)
		if !ok || id.Name == "_" {
			t.fail(s, "assignment target outside the fragment")
		}
		if s.Tok == token.DEFINE {
			obj := t.info.Defs[id]
			if obj == nil {
				t.fail(s, "redeclaration by :=")
			}
			code, rs := t.tExpr(s.Rhs[0])
			if want := treeSortOf(obj.Type()); want != rs {
				t.fail(s, fmt.Sprintf("a value of sort %s for a variable of sort %s", rs, want))
			}
			return let(t.declareT(obj, rs, s), code)
		}
		obj, ls, ok := t.local(id)
		if !ok {
			t.fail(s, "assignment to something else than a local variable")
		}
		switch s.Tok {
		case token.ASSIGN:
			code, rs := t.tExpr(s.Rhs[0])
			if rs != ls {
				t.fail(s, fmt.Sprintf("assignment between different types (%s, %s)", ls, rs))
			}
			return let(t.nameOf(obj), code)
		case token.ADD_ASSIGN, token.SUB_ASSIGN:
			code, rs := t.tExpr(s.Rhs[0])
			if rs != ls {
				t.fail(s, fmt.Sprintf("assignment between different types (%s, %s)", ls, rs))
			}
			f := map[token.Token]string{token.ADD_ASSIGN: "add", token.SUB_ASSIGN: "sub"}[s.Tok]
			switch ls.k {
			case tInt:
				return let(t.nameOf(obj), app("Z."+f, t.nameOf(obj), code))
			case tU8, tU32, tU64:
				return let(t.nameOf(obj), app(f+"w", ls.width(), t.nameOf(obj), code))
			}
		}
		t.fail(s, "assignment operator outside the fragment")
	case *ast.IfStmt:
		if s.Init != nil {
			inner := *s
			inner.Init = nil
			return t.tStmts(concatStmts([]ast.Stmt{s.Init, &inner}, rest), c, ind)
		}
		cond, cs := t.tExpr(s.Cond)
		if cs.k != tBool {
			t.fail(s.Cond, "condition")
		}
		pre := t.takePre()
		var elseList []ast.Stmt
		switch e := s.Else.(type) {
		case nil:
		case *ast.BlockStmt:
			elseList = e.List
		case *ast.IfStmt:
			elseList = []ast.Stmt{e}
		default:
			t.fail(s, "else")
		}
		thenFalls, elseFalls := !neverFalls(s.Body.List), !neverFalls(elseList)
		var def string
		inner := *c
		switch {
		case len(rest) == 0 || (!thenFalls && !elseFalls): // nothing to continue with, or nothing continues
		case !thenFalls && s.Else == nil: // if c { ...; return }; REST
			restC := t.tStmts(rest, c, ind+"  ")
			inner.fall = func() string { return strings.TrimSpace(restC) }
		default:
			var use func() string
			def, use = t.join(s, t.tStmts(rest, c, ind+"  "), ind)
			inner.fall = use
		}
		thenC := t.tStmts(s.Body.List, &inner, ind+"  ")
		elseC := t.tStmts(elseList, &inner, ind+"  ")
		return t.wrap(c, pre, def+ind+"if "+top(cond)+" then (\n"+thenC+"\n"+ind+") else (\n"+elseC+"\n"+ind+")", ind)
	case *ast.SwitchStmt:
		if s.Init != nil || s.Tag == nil {
			t.fail(s, "switch with an init statement or without a tag")
		}
		tag, ts := t.tExpr(s.Tag)
		if ts.k != tKindT {
			t.fail(s.Tag, "switch on something else than a nodeKind")
		}
		pre := t.takePre()
		clauses := map[string][]ast.Stmt{}
		var deflt []ast.Stmt
		hasDefault := false
		for _, cl := range s.Body.List {
			cc := cl.(*ast.CaseClause)
			if cc.List == nil {
				deflt, hasDefault = cc.Body, true
				continue
			}
			for _, ce := range cc.List {
				k, ks := t.tExpr(ce)
				if ks.k != tKindT || !strings.HasPrefix(k, "Kind") || len(t.pre) != 0 {
					t.fail(ce, "case expression outside the fragment (only the nodeKind constants)")
				}
				if _, dup := clauses[k]; dup {
					t.fail(ce, "duplicate case")
				}
				clauses[k] = cc.Body
			}
		}
		var def string
		inner := *c
		if len(rest) == 0 {
			inner.brk = c.fall
		} else {
			var use func() string
			def, use = t.join(s, t.tStmts(rest, c, ind+"  "), ind)
			inner.fall, inner.brk = use, use
		}
		var sb strings.Builder
		sb.WriteString(def + ind + "match " + top(tag) + " with\n")
		for _, k := range []string{"Kind4", "Kind16", "Kind48", "Kind256", "KindLeaf"} {
			body, ok := clauses[k]
			if !ok && hasDefault {
				body = deflt
			}
			for _, b := range body {
				ast.Inspect(b, func(n ast.Node) bool {
					if br, ok := n.(*ast.BranchStmt); ok && br.Tok == token.FALLTHROUGH {
						t.fail(br, "fallthrough")
					}
					return true
				})
			}
			sb.WriteString(ind + "| " + k + " =>\n" + t.tStmts(body, &inner, ind+"    ") + "\n")
		}
		sb.WriteString(ind + "end")
		return t.wrap(c, pre, sb.String(), ind)
	case *ast.ForStmt:
		return t.loop(s, rest, c, ind)
	}
	t.fail(st, "statement outside the fragment")
	return ""
}

func (t *treeTr) assignedAnywhere(obj types.Object) []ast.Node {
	var out []ast.Node
	ast.Inspect(t.fd.Body, func(m ast.Node) bool {
		check := func(e ast.Expr, at ast.Node) {
			if id, ok := ast.Unparen(e).(*ast.Ident); ok && t.info.Uses[id] == obj {
				out = append(out, at)
			}
		}
		switch s := m.(type) {
		case *ast.AssignStmt:
			for _, l := range s.Lhs {
				check(l, s)
			}
		case *ast.IncDecStmt:
			check(s.X, s)
		case *ast.UnaryExpr:
			if s.Op == token.AND {
				check(s.X, s)
			}
		}
		return true
	})
	return out
}

func (t *treeTr) ret(s *ast.ReturnStmt, c *tCtx) string {
	if t.hooks != nil && t.hooks.ret != nil {
		if code, ok := t.hooks.ret(s, c); ok {
			return code
		}
	}
	if len(s.Results) != len(t.resSorts) {
		t.fail(s, "return")
	}
	if len(t.resSorts) == 2 { // (V, bool) as sres
		b, bs := t.tExpr(s.Results[1])
		if bs.k != tBool || (b != "true" && b != "false") {
			t.fail(s, "the bool result is not a constant")
		}
		if b == "true" {
			v, vs := t.tExpr(s.Results[0])
			if vs.k != tVal {
				t.fail(s, "return type")
			}
			return t.retC(c) + " (SFound " + v + ")"
		}
		if obj, _, ok := t.local(s.Results[0]); ok && t.zeroVars[obj] {
			return t.retC(c) + " SAbsent"
		}
		t.fail(s, "`return x, false` with x something else than a never-assigned `var x V`")
	}
	if tv, ok := t.info.Types[ast.Unparen(s.Results[0])]; ok && tv.IsNil() && (t.resSorts[0].k == tPtr || t.resSorts[0].k == tRefPtr) {
		return t.retC(c) + " None" // the nil pointer
	}
	v, vs := t.tExpr(s.Results[0])
	if vs != t.resSorts[0] {
		t.fail(s, fmt.Sprintf("return type (%s, %s)", vs, t.resSorts[0]))
	}
	return t.retC(c) + " " + v
}

// the iteration budget of a loop. It is NOT trusted: running out of it is the visible outcome *Fuel,
// which the theorems exclude.
//
//	for ..; a < b; ..     Z.to_nat (b - a) at loop entry  (a >= b: a - b + 1;  a > b: a - b)
//	a condition reading an array of static length L      L
//	anything else         the budget `fuel` of the enclosing function (which then takes it as a parameter)
func (t *treeTr) loopFuel(s *ast.ForStmt) string {
	if be, ok := ast.Unparen(s.Cond).(*ast.BinaryExpr); ok && be.Op == token.LSS {
		npre := len(t.pre)
		a, sa := t.tExpr(be.X)
		b, sb := t.tExpr(be.Y)
		if sa.k == tInt && sb.k == tInt && len(t.pre) == npre {
			return app("Z.to_nat", app("Z.sub", b, a))
		}
		if sa == sb && (sa.k == tU8 || sa.k == tU32 || sa.k == tU64) && len(t.pre) == npre { // for ..; a < b; .. on unsigned
			return app("N.to_nat", app("N.sub", b, a))
		}
		t.pre = t.pre[:npre]
	}
	if be, ok := ast.Unparen(s.Cond).(*ast.BinaryExpr); ok && (be.Op == token.GEQ || be.Op == token.GTR) { // counting down
		npre := len(t.pre)
		a, sa := t.tExpr(be.X)
		b, sb := t.tExpr(be.Y)
		if sa.k == tInt && sb.k == tInt && len(t.pre) == npre {
			if be.Op == token.GEQ {
				return app("Z.to_nat", app("Z.add", app("Z.sub", a, b), "1%Z"))
			}
			return app("Z.to_nat", app("Z.sub", a, b))
		}
		t.pre = t.pre[:npre]
	}
	n := 0
	if s.Cond != nil {
		ast.Inspect(s.Cond, func(m ast.Node) bool {
			if ix, ok := m.(*ast.IndexExpr); ok {
				if tv, ok := t.info.Types[ix.X]; ok && tv.Type != nil {
					if a, ok := tv.Type.Underlying().(*types.Array); ok && int(a.Len()) > n {
						n = int(a.Len())
					}
				}
			}
			return true
		})
	}
	if n > 0 {
		return fmt.Sprint(n)
	}
	return t.fuelArg()
}

// does translating e bind a checked read? (translated and discarded)
func (t *treeTr) hasCheckedRead(e ast.Expr) bool {
	saved := t.pre
	t.pre = nil
	usedBefore := map[string]bool{}
	for k, v := range t.used {
		usedBefore[k] = v
	}
	t.tExpr(e)
	n := len(t.pre)
	t.pre = saved
	t.used = usedBefore // the fresh names of the discarded translation are free again
	return n > 0
}

func (t *treeTr) loop(s *ast.ForStmt, rest []ast.Stmt, c *tCtx, ind string) string {
	if s.Init != nil { // the init statement runs once, before the loop
		inner := *s
		inner.Init = nil
		inner.For = s.Init.End() // a variable the init statement declares is declared outside the loop that remains
		return t.tStmts(concatStmts([]ast.Stmt{s.Init, &inner}, rest), c, ind)
	}
	t.nloops++
	number := t.nloops
	name := fmt.Sprintf("%s_loop%d", t.base, number)
	state := t.assignedIn(s)
	sort.Slice(state, func(i, j int) bool { return state[i].Pos() < state[j].Pos() })
	for _, o := range state {
		if _, ok := t.sorts[o]; !ok {
			t.fail(s, "the loop assigns something else than a local variable")
		}
	}
	isState := map[types.Object]bool{}
	for _, o := range state {
		isState[o] = true
	}
	var params []types.Object
	for _, o := range t.freeIn(s) {
		if !isState[o] && !t.zeroVars[o] {
			params = append(params, o)
		}
	}
	pat, val, typ := t.tupleT(state)
	var binders, args []string
	for _, o := range append(append([]types.Object{}, params...), state...) {
		binders = append(binders, "("+t.nameOf(o)+" : "+t.sorts[o].coqType()+")")
		args = append(args, t.nameOf(o))
	}
	fuelExpr := t.loopFuel(s)
	call := func(f string) string { return strings.TrimSpace(name + " " + f + " " + strings.Join(args, " ")) }

	// the loop function
	lc := &tCtx{inLoop: true}
	next := func() string { // the post statement, then the next iteration
		var post []ast.Stmt
		if s.Post != nil {
			post = []ast.Stmt{s.Post}
		}
		pc := &tCtx{inLoop: true, fall: func() string { return call("fuel") }}
		return strings.TrimSpace(t.tStmts(post, pc, "        "))
	}
	lc.fall, lc.cont = next, next
	lc.brk = func() string { return "LDone " + val }
	savedPre := t.takePre()
	body := "    match fuel with\n    | O => LFuel\n    | S fuel =>\n" + t.tStmts(s.Body.List, lc, "      ") + "\n    end"
	var fn string
	if be, ok := ast.Unparen(s.Cond).(*ast.BinaryExpr); s.Cond != nil && ok && be.Op == token.LAND && t.hasCheckedRead(be.Y) {
		// a && b with a checked read in b: b is evaluated only when a holds
		a, as := t.tExpr(be.X)
		preA := t.takePre()
		b, bs := t.tExpr(be.Y)
		preB := t.takePre()
		if as.k != tBool || bs.k != tBool {
			t.fail(s.Cond, "condition")
		}
		inner := t.wrap(lc, preB, "    if "+top(b)+" then (\n"+body+"\n    ) else LDone "+val, "    ")
		fn = t.wrap(lc, preA, "  if "+top(a)+" then (\n"+inner+"\n  ) else LDone "+val, "  ")
	} else if s.Cond != nil {
		cond, cs := t.tExpr(s.Cond)
		if cs.k != tBool {
			t.fail(s.Cond, "condition")
		}
		fn = t.wrap(lc, t.takePre(), "  if "+top(cond)+" then (\n"+body+"\n  ) else LDone "+val, "  ")
	} else {
		fn = body
	}
	t.pre = savedPre
	var src bytes.Buffer
	printer.Fprint(&src, t.fset, &ast.ForStmt{Cond: s.Cond, Post: s.Post, Body: &ast.BlockStmt{}})
	hdr := "(* loop " + fmt.Sprint(number) + " of " + t.fd.Name.Name + ": " + coqCommentSafe(strings.Join(strings.Fields(strings.TrimSuffix(strings.TrimSpace(src.String()), "}")), " ")) + " ... }\n" +
		"   result: LRet r (the function returns r), LDone " + val + " (the loop ends with these values) *)\n"
	t.aux = append(t.aux, hdr+"Fixpoint "+name+" (fuel : nat) "+strings.Join(binders, " ")+" {struct fuel} : lres ("+t.resCoq+") ("+typ+") :=\n"+fn+".\n")

	// the call site
	restC := t.tStmts(rest, c, ind+"    ")
	return ind + "match " + call(fuelExpr) + " with\n" +
		ind + "| LRet r => " + strings.TrimSpace(t.retC(c)+" r") + "\n" +
		ind + "| LDone " + pat + " =>\n" + restC + "\n" +
		ind + "| LPanic => " + t.panicC(c) + "\n" +
		ind + "| LFuel => " + t.fuelC(c) + "\n" +
		ind + "end"
}

// ---------------------------------------------------------------- functions

type treeFuncSpec struct {
	fd     *ast.FuncDecl
	coq    string          // g_<name>
	search bool            // a Search method: translated from `n := t.root` on, the key preparation separately
	setup  func(t *treeTr) // translate_iter.go: installs its hooks
}

func (t *treeTr) signature(fd *ast.FuncDecl) string {
	var sig bytes.Buffer
	printer.Fprint(&sig, t.fset, &ast.FuncDecl{Name: fd.Name, Type: fd.Type, Recv: fd.Recv})
	return "(* " + coqCommentSafe(strings.Join(strings.Fields(sig.String()), " ")) + " *)\n"
}

func translateTreeFunc(fset *token.FileSet, info *types.Info, callees map[string]*treeCallee, consts map[string]string, spec treeFuncSpec) (text, warn string, self *treeCallee) {
	fd := spec.fd
	t := &treeTr{
		fnTr:     &fnTr{fset: fset, info: info, consts: map[types.Object]string{}, names: map[types.Object]string{}, used: map[string]bool{}},
		sorts:    map[types.Object]tSort{},
		callees:  callees,
		consts:   consts,
		base:     spec.coq,
		zeroVars: map[types.Object]bool{},
		fd:       fd,
	}
	if spec.setup != nil {
		spec.setup(t)
	}
	header := t.signature(fd)
	defer func() {
		if r := recover(); r != nil {
			u, ok := r.(trUnsupported)
			if !ok {
				panic(r)
			}
			warn = spec.coq + ": " + u.msg
			text = header + "Definition " + spec.coq + " : untranslated := UNSUPPORTED \"" + strings.ReplaceAll(u.msg, "\"", "\"\"") + "\".\n"
			if spec.search {
				text += "Definition " + spec.coq + "_loop1 : untranslated := UNSUPPORTED \"see " + spec.coq + "\".\n"
				text += "Definition " + spec.coq + "_key : untranslated := UNSUPPORTED \"see " + spec.coq + "\".\n"
			}
			self = nil
		}
	}()
	if fd.Body == nil {
		t.fail(fd.Name, "function without body")
	}
	var binders []string
	var psorts []tSort
	if fd.Recv != nil && len(fd.Recv.List) == 1 && len(fd.Recv.List[0].Names) == 1 {
		robj := info.Defs[fd.Recv.List[0].Names[0]]
		if spec.search {
			t.recv = robj
		} else {
			s := treeSortOf(robj.Type())
			if s.k == tRefPtr { // a method of *nodeRef called on an addressable nodeRef: the receiver is that nodeRef (read only)
				s = tSort{tRef, 0}
			}
			if s.k != tHdr && s.k != tRef {
				t.fail(fd.Recv.List[0].Type, "receiver type outside the fragment")
			}
			binders = append(binders, "("+t.declareT(robj, s, fd.Name)+" : "+s.coqType()+")")
			psorts = append(psorts, s)
		}
	} else if fd.Recv != nil {
		t.fail(fd.Name, "receiver")
	}
	body := fd.Body.List
	var keyText string
	if spec.search {
		body, keyText, binders, psorts = t.searchPrefix(fd, header)
	} else {
		for _, f := range fd.Type.Params.List {
			if len(f.Names) == 0 {
				t.fail(f.Type, "unnamed parameter")
			}
			for _, id := range f.Names {
				obj := info.Defs[id]
				if obj == nil || id.Name == "_" {
					t.fail(id, "blank parameter")
				}
				s := treeSortOf(obj.Type())
				if s.k == tBad {
					t.fail(f.Type, fmt.Sprintf("parameter type %s outside the fragment", obj.Type()))
				}
				binders = append(binders, "("+t.declareT(obj, s, id)+" : "+s.coqType()+")")
				psorts = append(psorts, s)
			}
		}
	}
	// results
	if fd.Type.Results == nil {
		t.fail(fd.Name, "no result")
	}
	for _, f := range fd.Type.Results.List {
		if len(f.Names) != 0 {
			t.fail(f.Type, "named result")
		}
		t.resSorts = append(t.resSorts, treeSortOf(info.Types[f.Type].Type))
	}
	switch {
	case len(t.resSorts) == 1 && t.resSorts[0].k != tBad && t.resSorts[0].k != tBool:
		t.resCoq = t.resSorts[0].coqType()
	case len(t.resSorts) == 2 && t.resSorts[0].k == tVal && t.resSorts[1].k == tBool:
		t.resCoq = "sres"
	default:
		t.fail(fd.Name, "result type outside the fragment")
	}
	ctx := &tCtx{fall: func() string { t.fail(fd.Name, "control can reach the end of the function"); return "" }}
	code := t.tStmts(body, ctx, "  ")
	if len(t.pre) != 0 {
		t.fail(fd.Name, "internal: pending checked reads")
	}
	if spec.search && t.useRoot {
		binders = append([]string{"(root : gref)"}, binders...)
		psorts = append([]tSort{{tRef, 0}}, psorts...)
	}
	if t.needFuel {
		binders = append([]string{"(fuel : nat)"}, binders...)
	}
	text = keyText + strings.Join(t.aux, "\n")
	if len(t.aux) > 0 {
		text += "\n"
	}
	text += header + "Definition " + spec.coq + " " + strings.Join(binders, " ") + " : gres (" + t.resCoq + ") :=\n" + code + ".\n"
	res := t.resSorts[0]
	return text, "", &treeCallee{coq: spec.coq, params: psorts, res: res, fuel: t.needFuel}
}

// The key preparation of a Search method: everything before `n := t.root`.
//
//	[_|x], [_|y] := t.<codec>.Transform(key)     x, y become the parameters of g_<tree>_search_key
//	x = append(x[:len(x):len(x)], c) ...          translated
//	var notFound V                                the zero value
//
// g_<tree>_search_key maps the results of Transform to the values of x, y the loop runs with.
func (t *treeTr) searchPrefix(fd *ast.FuncDecl, header string) (tail []ast.Stmt, keyText string, binders []string, psorts []tSort) {
	split := -1
	for i, st := range fd.Body.List {
		if as, ok := st.(*ast.AssignStmt); ok && as.Tok == token.DEFINE && len(as.Rhs) == 1 {
			if sel, ok := ast.Unparen(as.Rhs[0]).(*ast.SelectorExpr); ok && sel.Sel.Name == "root" {
				if id, ok := ast.Unparen(sel.X).(*ast.Ident); ok && t.info.Uses[id] == t.recv {
					split = i
					break
				}
			}
		}
	}
	if split < 1 {
		t.fail(fd.Name, "no `n := t.root` after the key preparation")
	}
	first, ok := fd.Body.List[0].(*ast.AssignStmt)
	if !ok || first.Tok != token.DEFINE || len(first.Rhs) != 1 || len(first.Lhs) != 2 {
		t.fail(fd.Body.List[0], "the first statement is not `x, y := t.<codec>.Transform(key)`")
	}
	call, ok := ast.Unparen(first.Rhs[0]).(*ast.CallExpr)
	okCall := false
	if ok && len(call.Args) == 1 {
		if sel, ok := ast.Unparen(call.Fun).(*ast.SelectorExpr); ok && sel.Sel.Name == "Transform" {
			if in, ok := ast.Unparen(sel.X).(*ast.SelectorExpr); ok {
				if id, ok := ast.Unparen(in.X).(*ast.Ident); ok && t.info.Uses[id] == t.recv {
					if a, ok := ast.Unparen(call.Args[0]).(*ast.Ident); ok && len(fd.Type.Params.List) == 1 && len(fd.Type.Params.List[0].Names) == 1 &&
						t.info.Uses[a] == t.info.Defs[fd.Type.Params.List[0].Names[0]] {
						okCall = true
					}
				}
			}
		}
	}
	if !okCall {
		t.fail(fd.Body.List[0], "the first statement is not `x, y := t.<codec>.Transform(key)` on the parameter")
	}
	var keys []types.Object
	var which []string
	for i, l := range first.Lhs {
		id, ok := l.(*ast.Ident)
		if !ok {
			t.fail(l, "assignment target")
		}
		if id.Name == "_" {
			continue
		}
		obj := t.info.Defs[id]
		s := treeSortOf(obj.Type())
		if s != (tSort{tBytes, 0}) {
			t.fail(l, "a result of Transform that is not a []byte")
		}
		t.declareT(obj, s, l)
		keys = append(keys, obj)
		which = append(which, []string{"first", "second"}[i])
	}
	if len(keys) == 0 {
		t.fail(first, "no result of Transform is used")
	}
	for _, o := range keys {
		binders = append(binders, "("+t.nameOf(o)+" : list N)")
		psorts = append(psorts, tSort{tBytes, 0})
	}
	_, val, typ := t.tupleT(keys)
	// the statements between: they may only assign the key variables / declare the zero value
	t.resCoq = typ
	kc := &tCtx{fall: func() string { return val }}
	var mid []ast.Stmt
	for _, st := range fd.Body.List[1:split] {
		ok := false
		switch s := st.(type) {
		case *ast.DeclStmt:
			ok = true
		case *ast.AssignStmt:
			ok = s.Tok == token.ASSIGN
		}
		if !ok {
			t.fail(st, "statement outside the fragment in the key preparation")
		}
		mid = append(mid, st)
	}
	code := t.tStmts(mid, kc, "  ")
	if len(t.pre) != 0 || len(t.aux) != 0 {
		t.fail(fd.Name, "checked reads or loops in the key preparation")
	}
	keyText = header + "(* the key preparation: " + strings.Join(which, " and ") + " result of " + coqCommentSafe(t.text(first.Rhs[0])) +
		" as the statements before `n := t.root` leave them *)\n" +
		"Definition " + t.base + "_key " + strings.Join(binders, " ") + " : " + typ + " :=\n" + code + ".\n\n"
	return fd.Body.List[split:], keyText, binders, psorts
}

// ---------------------------------------------------------------- the file

const treeConventions = `   Conventions (go/cmd/srcfacts/translate_tree.go; the vocabulary and its stated Go meaning: Model/GoTree.v).
   A function is a Definition returning gres R, a for loop a Fixpoint on fuel returning lres R S:
     GRet r / LRet r  the function returns r        LDone s  the loop ends (condition false or break), s = its variables
     GPanic / LPanic  the Go code panics here (index out of range, nil dereference, panic(..)) or reads something
                      the value model has no value for (the tag of a nil reference, a pointer converted to a node
                      of another kind)
     GFuel / LFuel    the iteration budget is used up. The budget is chosen by the translator and is NOT trusted
                      (for ..; a < b; ..: b - a;  a condition reading an array of length L: L;  otherwise the
                      parameter fuel of the function); one unit is consumed per executed loop body.
   int is Z and UNBOUNDED; uint8 / uint32 are N with the wrap of + and - written out (addw subw of Model/GoArith.v);
   []byte and byte arrays are list N, EVERY index a[i] is the checked read idx_bytes / idx_refs (None: LPanic / GPanic);
   a nodeRef and an unsafe.Pointer are gref = option xtree (None: nil); x.tag, x.node(), the conversions ( *node4)(p) ...
   ( *leaf)(p) are checked reads too. (V, bool) results are Model/Tree.sres: (v, true) = SFound v,
   (the never-assigned zero value, false) = SAbsent. A long continuation needed on several paths is bound once
   (let kN := fun .. => ..). Calls of searchNode4 / searchNode16 are calls of their translations in
   Gen/Node4Gen.v / Gen/Node16Gen.v. A Search method is translated from "n := t.root" on; the values the
   statements before leave in the key variables are its parameters and g_<tree>_search_key.`

var treeShort = map[string]string{
	"alphaSortedTree": "alpha", "unsignedSortedTree": "unsigned", "signedSortedTree": "signed",
	"floatSortedTree": "float", "compoundSortedTree": "compound", "collationSortedTree": "collation",
}
var treeOrder = []string{"alphaSortedTree", "unsignedSortedTree", "signedSortedTree", "floatSortedTree", "compoundSortedTree", "collationSortedTree"}

func buildTagsHold(f *ast.File) bool {
	for _, cg := range f.Comments {
		if cg.Pos() >= f.Package {
			break
		}
		for _, c := range cg.List {
			if constraint.IsGoBuild(c.Text) {
				x, err := constraint.Parse(c.Text)
				if err != nil {
					return true
				}
				return x.Eval(func(tag string) bool { return false })
			}
		}
	}
	return true
}

func recvTypeName(fd *ast.FuncDecl) string {
	if fd.Recv == nil || len(fd.Recv.List) != 1 {
		return ""
	}
	rt := fd.Recv.List[0].Type
	if st, ok := rt.(*ast.StarExpr); ok {
		rt = st.X
	}
	switch x := rt.(type) {
	case *ast.Ident:
		return x.Name
	case *ast.IndexExpr:
		if id, ok := x.X.(*ast.Ident); ok {
			return id.Name
		}
	case *ast.IndexListExpr:
		if id, ok := x.X.(*ast.Ident); ok {
			return id.Name
		}
	}
	return ""
}

func emitTreeTranslations(repo, outdir string) {
	var sb strings.Builder
	sb.WriteString("(* REGENERATED by go/cmd/srcfacts (translate_tree.go) from /repo's tree.go, trees.go and collation.go on every run — do not edit.\n")
	sb.WriteString("   longestCommonPrefix, checkPrefix, minimum, maximum, prefixMismatch and the six Search methods, read over the raw\n")
	sb.WriteString("   trees of Model/PoolTree.v; Proofs/TranslateTreeFacts.v proves them equal to the hand-written models.\n")
	sb.WriteString(treeConventions + " *)\n")
	sb.WriteString("From GoArt Require Import Model.GoTree Gen.Node4Gen Gen.Node16Gen.\nFrom Coq Require Import String.\nImport ListNotations.\nOpen Scope N_scope.\n")
	defer func() { writeIfChanged(filepath.Join(outdir, "TreeGen.v"), sb.String()) }()

	fset := token.NewFileSet()
	matches, _ := filepath.Glob(filepath.Join(repo, "*.go"))
	sort.Strings(matches)
	var files []*ast.File
	for _, p := range matches {
		if strings.HasSuffix(p, "_test.go") {
			continue
		}
		f, err := parser.ParseFile(fset, p, nil, parser.ParseComments)
		must(err)
		if f.Name.Name != "art" || !buildTagsHold(f) {
			continue
		}
		files = append(files, f)
	}
	info := &types.Info{
		Types:      map[ast.Expr]types.TypeAndValue{},
		Defs:       map[*ast.Ident]types.Object{},
		Uses:       map[*ast.Ident]types.Object{},
		Selections: map[*ast.SelectorExpr]*types.Selection{},
	}
	var typeErrs []types.Error
	conf := types.Config{
		Importer: &treeImporter{fset: fset, pkgs: map[string]*types.Package{}},
		Error: func(err error) {
			if te, ok := err.(types.Error); ok {
				typeErrs = append(typeErrs, te)
			}
		},
	}
	conf.Check("art", fset, files, info)

	// the functions, callees before callers
	var specs []treeFuncSpec
	find := func(file, name, recv string) *ast.FuncDecl {
		for _, f := range files {
			if filepath.Base(fset.Position(f.Pos()).Filename) != file {
				continue
			}
			for _, d := range f.Decls {
				if fd, ok := d.(*ast.FuncDecl); ok && fd.Name.Name == name && recvTypeName(fd) == recv {
					return fd
				}
			}
		}
		return nil
	}
	missing := func(what string) {
		fmt.Fprintln(os.Stderr, "srcfacts: translate tree: "+what+" not found")
		sb.WriteString("\n(* " + what + " not found *)\n")
	}
	for _, fn := range []struct{ name, recv string }{{"longestCommonPrefix", ""}, {"checkPrefix", "node"}, {"minimum", ""}, {"maximum", ""}, {"prefixMismatch", ""}} {
		if fd := find("tree.go", fn.name, fn.recv); fd != nil {
			specs = append(specs, treeFuncSpec{fd: fd, coq: "g_" + fn.name})
		} else {
			missing("tree.go: func " + fn.name)
		}
	}
	for _, tr := range treeOrder {
		file := "trees.go"
		if tr == "collationSortedTree" {
			file = "collation.go"
		}
		if fd := find(file, "Search", tr); fd != nil {
			specs = append(specs, treeFuncSpec{fd: fd, coq: "g_" + treeShort[tr] + "_search", search: true})
		} else {
			missing(file + ": method " + tr + ".Search")
		}
	}

	callees := map[string]*treeCallee{
		// their own translations (translate.go), proved equal to Model/Node4.v, Model/Node16.v in Proofs/TranslateFacts.v
		"searchNode4":  {coq: "g_searchNode4", params: []tSort{{tU32, 0}, {tU8, 0}}, res: tSort{tInt, 0}, total: true},
		"searchNode16": {coq: "g_searchNode16", params: []tSort{{tBytes, 16}, {tU8, 0}, {tU8, 0}}, res: tSort{tInt, 0}, total: true},
	}
	consts := map[string]string{}
	var defs []string
	for _, sp := range specs {
		for _, te := range typeErrs { // a type error inside a translated function: its expressions have no types
			if te.Pos >= sp.fd.Pos() && te.Pos < sp.fd.End() {
				fmt.Fprintf(os.Stderr, "srcfacts: translate tree: type error in %s: %s\n", sp.coq, te.Msg)
			}
		}
		text, warn, self := translateTreeFunc(fset, info, callees, consts, sp)
		if warn != "" {
			fmt.Fprintln(os.Stderr, "srcfacts: translate tree: UNSUPPORTED", warn)
		}
		if self != nil && !sp.search {
			callees[sp.fd.Name.Name] = self
		}
		defs = append(defs, text)
	}
	var cnames []string
	for n := range consts {
		cnames = append(cnames, n)
	}
	sort.Strings(cnames)
	for _, n := range cnames {
		sb.WriteString("\n" + consts[n])
	}
	for _, d := range defs {
		sb.WriteString("\n" + d)
	}
	treeShared = &treeSharedState{fset: fset, files: files, info: info, callees: callees, consts: consts, typeErrs: typeErrs}
}

// what emitTreeTranslations leaves for emitIterTranslations (translate_iter.go): the type-checked package and
// the functions translated so far
type treeSharedState struct {
	fset     *token.FileSet
	files    []*ast.File
	info     *types.Info
	callees  map[string]*treeCallee
	consts   map[string]string // the named constants Gen/TreeGen.v defines
	typeErrs []types.Error
}

var treeShared *treeSharedState
