// translate_mut.go: the translator of the MUTATING methods Delete and Insert of the
// six trees (trees.go: alpha, unsigned, signed, float, compound; collation.go) to
// heap-passing Gallina, re-run on every run. Output: Gen/MutGen.v.
// Proofs/TranslateMutFacts.v ties the regenerated definitions to the hand-written
// model Model/PoolTree.v (xdo_delete / xdo_insert).
//
// The methods mutate through pointers (ref := &t.root; child := n.findChild(b);
// ref = child; *ref = nodeRef{..}; node.prefixLen -= ..; nl.value = val;
// newNode.addChild(ref, b, n); ref.deleteChild(b)). The translation is LITERAL:
// one Coq let per Go statement, in source order, over an explicit heap
// (Model/GoHeap.v, the trusted vocabulary). Nothing is reordered.
//
// Supported fragment (anything else makes the method UNSUPPORTED):
//
//	sorts       int -> Z; uint8/byte, uint32 -> N; bool; []byte, [n]byte -> list N; nodeRef, unsafe.Pointer -> href;
//	            *nodeRef -> slot; *node4 .. *node256, *node, pointers to leaf structs -> addr; nodeKind -> gkind; V -> Z;
//	            the unsafe.Pointer minimum() returns -> gref (a leaf VALUE, read only)
//	statements  x, y := t.<codec>.Transform(key) (once: x, y become parameters)   createLeaf := func() unsafe.Pointer {..}
//	            x := e   x = e   x op= e   x++   x--   t.size++   t.size--   var x T
//	            x := nodePools[nodeKindK].Get().(*nodeK)
//	            x | *ref | t.root  =  nodeRef{} | nodeRef{pointer: unsafe.Pointer(n), tag: nodeKindK} | nodeRef{pointer: createLeaf(), tag: nodeKindLeaf}
//	            l.value = e   n.prefixLen = e   n.prefixLen op= e   n.prefix = e   copy(n.prefix[:], e)
//	            n4.addChild(ref, b, c)   ref.addChild(b, c)   ref.deleteChild(b)
//	            if / else, { .. }, for cond { .. } (at the top level of the method: a Fixpoint on fuel), break, continue,
//	            return, panic(..), goto L with L: a later statement of an enclosing statement list (a local function)
//	expressions as translate_tree.go, plus *x, &t.root, x == nil on *nodeRef, a[lo:], uint32(int),
//	            x.findChild(b), x.node(), prefixMismatch, minimum, longestCommonPrefix, checkPrefix (their regenerated
//	            translations in Gen/TreeGen.v, on the tree the heap holds)
package main

import (
	"bytes"
	"fmt"
	"go/ast"
	"go/constant"
	"go/parser"
	"go/printer"
	"go/token"
	"go/types"
	"os"
	"path/filepath"
	"sort"
	"strings"
)

// names of the vocabulary and of the threaded state: never given to a Go local (kept per translator: the
// global table coqReserved is shared with the other translators, whose output must not change)
var mutReserved = strings.Fields(`h root size os p fuel mres MDone MPanic MFuel slot SNil SRoot SCell load store alloc heap href addr
	hpool hobj HLeaf HNode slot_read slot_write slot_is_nil href_is_nil h_tag h_cast_leaf h_leaf_gk h_leaf_tk h_set_leaf_value
	h_mk_leaf h_ref_node h_hdr h_prefixLen h_prefix h_set_prefixLen h_set_prefix slice_from h_findChild h_addChild
	h_node4_addChild h_deleteChild h_prefixMismatch h_minimum gcopy skipn firstn length choice tl K4 K16 K48 K256
	gres lres GRet GPanic GFuel gkind Kind4 Kind16 Kind48 Kind256 KindLeaf gkind_eqb gref cast_leaf xleaf_gk xleaf_tk
	idx_bytes beq Some None xtree xnode xhdr option unit r s O S`)

type mKind int

const (
	mBad   mKind = iota
	mBool        // bool
	mInt         // Z
	mU8          // N
	mU32         // N
	mBytes       // list N
	mRef         // href: nodeRef
	mPtr         // href: unsafe.Pointer
	mSlot        // slot: *nodeRef
	mNode        // addr: *node4 (n = 4) .. *node256
	mHdr         // addr: *node
	mLeaf        // addr: pointer to a leaf struct in the heap
	mPtrV        // gref: the unsafe.Pointer minimum() returns (a value)
	mLeafV       // xtree: a leaf value
	mKindT       // gkind
	mVal         // Z: V
)

type mSort struct {
	k mKind
	n int
}

func (s mSort) coqType() string {
	switch s.k {
	case mBool:
		return "bool"
	case mInt, mVal:
		return "Z"
	case mU8, mU32:
		return "N"
	case mBytes:
		return "list N"
	case mRef, mPtr:
		return "href"
	case mSlot:
		return "slot"
	case mNode, mHdr, mLeaf:
		return "addr"
	case mPtrV:
		return "gref"
	case mLeafV:
		return "xtree"
	case mKindT:
		return "gkind"
	}
	return "?"
}

func (s mSort) String() string {
	names := map[mKind]string{mBool: "bool", mInt: "int", mU8: "uint8", mU32: "uint32", mBytes: "bytes", mRef: "nodeRef",
		mPtr: "unsafe.Pointer", mSlot: "*nodeRef", mNode: "*nodeK", mHdr: "*node", mLeaf: "leaf pointer", mPtrV: "leaf value pointer",
		mLeafV: "leaf value", mKindT: "nodeKind", mVal: "V"}
	if n, ok := names[s.k]; ok {
		if s.n != 0 {
			return fmt.Sprintf("%s(%d)", n, s.n)
		}
		return n
	}
	return "?"
}

func mSortOf(t types.Type) mSort {
	if t == nil {
		return mSort{}
	}
	t = types.Unalias(t)
	if tp, ok := t.(*types.TypeParam); ok {
		c := tp.Constraint()
		if it, ok := c.Underlying().(*types.Interface); ok && it.Empty() {
			return mSort{mVal, 0}
		}
		return mSort{}
	}
	switch namedName(t) {
	case "nodeRef":
		return mSort{mRef, 0}
	case "nodeKind":
		return mSort{mKindT, 0}
	}
	switch u := t.Underlying().(type) {
	case *types.Basic:
		switch u.Kind() {
		case types.Bool, types.UntypedBool:
			return mSort{mBool, 0}
		case types.Int, types.UntypedInt, types.UntypedRune:
			return mSort{mInt, 0}
		case types.Uint8:
			return mSort{mU8, 0}
		case types.Uint32:
			return mSort{mU32, 0}
		case types.UnsafePointer:
			return mSort{mPtr, 0}
		}
	case *types.Slice:
		if isByte(u.Elem()) {
			return mSort{mBytes, 0}
		}
	case *types.Array:
		if isByte(u.Elem()) {
			return mSort{mBytes, int(u.Len())}
		}
	case *types.Pointer:
		e := types.Unalias(u.Elem())
		if namedName(e) == "nodeRef" {
			return mSort{mSlot, 0}
		}
		if n, ok := nodeStructs[namedName(e)]; ok {
			return mSort{mNode, n}
		}
		if namedName(e) == "node" {
			return mSort{mHdr, 0}
		}
		if _, ok := e.Underlying().(*types.Struct); ok && hasMethod(t, "getKey") && hasMethod(t, "getTransformKey") {
			return mSort{mLeaf, 0}
		}
	}
	return mSort{}
}

// which fields of a leaf struct getKey() / getTransformKey() read: unsafe.Slice(n.<data>, n.<len>)
type leafFields struct{ key, keyLen, tk, tkLen string }

type mBind struct {
	pat  string
	code string
	gres bool
}

type mCtx struct {
	top    bool
	fall   func() string
	brk    func() string
	cont   func() string
	labels map[string]func() string
}

type mutTr struct {
	*fnTr
	sorts     map[types.Object]mSort
	pre       []mBind
	recv      types.Object
	keyArg    types.Object
	base      string
	aux       []string
	nloops    int
	njoin     int
	resCoq    string
	fd        *ast.FuncDecl
	keyParams []types.Object
	sawTrans  bool
	closure   types.Object
	closLit   *ast.CompositeLit
	closFree  []types.Object
	consts    map[string]string
	leaves    map[string]leafFields
	needFuel  bool
}

const ambBinders = "(h : heap) (root : href) (size : Z) (os : list choice) (p : hpool)"
const ambArgs = "h root size os p"

func (t *mutTr) bindOpt(code string) string {
	n := t.fresh("v")
	t.pre = append(t.pre, mBind{n, code, false})
	return n
}
func (t *mutTr) bindGres(code string) string {
	n := t.fresh("r")
	t.pre = append(t.pre, mBind{n, code, true})
	return n
}
func (t *mutTr) takePre() []mBind { p := t.pre; t.pre = nil; return p }

func optMatch(ind, pat, code, body string) string {
	return ind + "match " + top(code) + " with None => MPanic | Some " + pat + " =>\n" + body + "\n" + ind + "end"
}

func (t *mutTr) wrap(pre []mBind, body string, ind string) string {
	for i := len(pre) - 1; i >= 0; i-- {
		b := pre[i]
		if b.gres {
			body = ind + "match " + top(b.code) + " with\n" + ind + "| GRet " + b.pat + " =>\n" + body + "\n" +
				ind + "| GPanic => MPanic\n" + ind + "| GFuel => MFuel\n" + ind + "end"
		} else {
			body = optMatch(ind, b.pat, b.code, body)
		}
	}
	return body
}

func (t *mutTr) local(e ast.Expr) (types.Object, mSort, bool) {
	id, ok := ast.Unparen(e).(*ast.Ident)
	if !ok {
		return nil, mSort{}, false
	}
	obj := t.info.Uses[id]
	if obj == nil {
		obj = t.info.Defs[id]
	}
	s, ok := t.sorts[obj]
	return obj, s, ok
}

func (t *mutTr) isRecv(e ast.Expr) bool {
	id, ok := ast.Unparen(e).(*ast.Ident)
	return ok && t.recv != nil && t.info.Uses[id] == t.recv
}

func (t *mutTr) declareM(obj types.Object, s mSort, at ast.Node) string {
	if obj == nil {
		t.fail(at, "declaration")
	}
	if s.k == mBad {
		t.fail(at, fmt.Sprintf("variable of type %s", obj.Type()))
	}
	t.sorts[obj] = s
	return t.nameOf(obj)
}

func mLit(v constant.Value, s mSort) (string, bool) {
	if v == nil {
		return "", false
	}
	switch s.k {
	case mBool:
		if v.Kind() == constant.Bool {
			if constant.BoolVal(v) {
				return "true", true
			}
			return "false", true
		}
	case mU8, mU32:
		return natLit(v)
	case mInt:
		iv := constant.ToInt(v)
		if iv.Kind() != constant.Int {
			return "", false
		}
		if constant.Sign(iv) < 0 {
			l, ok := natLit(constant.UnaryOp(token.SUB, iv, 0))
			return "(-" + l + ")%Z", ok
		}
		l, ok := natLit(iv)
		return l + "%Z", ok
	}
	return "", false
}

var kindConst = map[string]string{"nodeKind4": "Kind4", "nodeKind16": "Kind16", "nodeKind48": "Kind48", "nodeKind256": "Kind256", "nodeKindLeaf": "KindLeaf"}
var kindOfNode = map[int]string{4: "nodeKind4", 16: "nodeKind16", 48: "nodeKind48", 256: "nodeKind256"}

func (t *mutTr) pkgConst(e ast.Expr) (*types.Const, bool) {
	id, ok := ast.Unparen(e).(*ast.Ident)
	if !ok {
		return nil, false
	}
	c, ok := t.info.Uses[id].(*types.Const)
	if !ok || c.Pkg() == nil || c.Parent() != c.Pkg().Scope() {
		return nil, false
	}
	return c, true
}

func (t *mutTr) mentionsPkgConst(e ast.Expr) bool {
	found := false
	ast.Inspect(e, func(n ast.Node) bool {
		if id, ok := n.(*ast.Ident); ok {
			if c, ok := t.info.Uses[id].(*types.Const); ok && c.Pkg() != nil && c.Parent() == c.Pkg().Scope() && c.Pkg().Name() == "art" {
				found = true
			}
		}
		return !found
	})
	return found
}

func (t *mutTr) asZ(code string, s mSort, at ast.Node) string {
	switch s.k {
	case mInt:
		return code
	case mU8, mU32:
		return app("Z.of_N", code)
	}
	t.fail(at, "not an integer")
	return ""
}

// *x for x a *nodeRef (also the base of x.pointer, x.tag, x.node(), x.findChild)
func (t *mutTr) deref(a string) string { return t.bindOpt(app("slot_read", "h", "root", a)) }

func (t *mutTr) mExpr(e ast.Expr) (string, mSort) {
	e = ast.Unparen(e)
	tv, ok := t.info.Types[e]
	if !ok {
		if id, isId := e.(*ast.Ident); !isId || (t.info.Uses[id] == nil && t.info.Defs[id] == nil) {
			t.fail(e, "no type recorded (the package does not type-check here)")
		}
	}
	if tv.IsNil() {
		t.fail(e, "nil outside a comparison")
	}
	if tv.Value != nil {
		s := mSortOf(tv.Type)
		if c, ok := t.pkgConst(e); ok {
			if s.k == mKindT {
				if k, ok := kindConst[c.Name()]; ok {
					return k, s
				}
				t.fail(e, "nodeKind constant outside the fragment")
			}
			if l, ok := natLit(c.Val()); ok && constant.Compare(constant.ToInt(c.Val()), token.EQL, constant.ToInt(tv.Value)) {
				name := "gm_" + c.Name()
				t.consts[c.Name()] = fmt.Sprintf("(* const %s = %s (node.go), used at the integer type of each occurrence *)\nDefinition %s : N := %s.\n",
					c.Name(), c.Val().ExactString(), name, l)
				switch s.k {
				case mU8, mU32:
					return name, s
				case mInt:
					return app("Z.of_N", name), s
				}
			}
			t.fail(e, "named constant outside the fragment")
		}
		if !t.mentionsPkgConst(e) {
			if l, ok := mLit(tv.Value, s); ok {
				return l, s
			}
			t.fail(e, "constant outside the fragment")
		}
	}
	switch x := e.(type) {
	case *ast.Ident:
		if obj, s, ok := t.local(x); ok {
			return t.nameOf(obj), s
		}
		t.fail(e, "identifier outside the fragment")
	case *ast.SelectorExpr:
		return t.selector(x)
	case *ast.StarExpr:
		a, s := t.mExpr(x.X)
		if s.k == mSlot {
			return t.deref(a), mSort{mRef, 0}
		}
		t.fail(e, "dereference of something else than a *nodeRef")
	case *ast.UnaryExpr:
		if x.Op == token.AND {
			if sel, ok := ast.Unparen(x.X).(*ast.SelectorExpr); ok && t.isRecv(sel.X) && sel.Sel.Name == "root" && mSortOf(t.info.Types[sel].Type).k == mRef {
				return "SRoot", mSort{mSlot, 0}
			}
			t.fail(e, "address-of outside the fragment (only &t.root)")
		}
		a, s := t.mExpr(x.X)
		switch {
		case x.Op == token.NOT && s.k == mBool:
			return app("negb", a), s
		case x.Op == token.SUB && s.k == mInt:
			return app("Z.opp", a), s
		}
		t.fail(e, "unary operator outside the fragment")
	case *ast.BinaryExpr:
		return t.mBinary(x)
	case *ast.CallExpr:
		return t.mCall(x)
	case *ast.IndexExpr:
		a, s := t.mExpr(x.X)
		i, is := t.mExpr(x.Index)
		iz := t.asZ(i, is, x.Index)
		if s.k == mBytes {
			return t.bindOpt(app("idx_bytes", a, iz)), mSort{mU8, 0}
		}
		t.fail(e, "index of something else than a byte slice / byte array")
	case *ast.SliceExpr:
		a, s := t.mExpr(x.X)
		if s.k != mBytes {
			t.fail(e, "slice of something else than bytes")
		}
		switch {
		case x.Low == nil && x.High == nil && !x.Slice3: // a[:]: the same bytes
			return a, s
		case x.Low == nil && x.Slice3 && t.isLenOf(x.High, x.X) && t.isLenOf(x.Max, x.X): // capacity cut
			return a, mSort{mBytes, 0}
		case x.Low != nil && x.High == nil && !x.Slice3:
			lo, ls := t.mExpr(x.Low)
			return t.bindOpt(app("slice_from", a, t.asZ(lo, ls, x.Low))), mSort{mBytes, 0}
		}
		t.fail(e, "slice expression outside the fragment (a[:], a[lo:], x[:len(x):len(x)])")
	}
	t.fail(e, "expression outside the fragment")
	return "", mSort{}
}

func (t *mutTr) isLenOf(e, x ast.Expr) bool {
	c, ok := ast.Unparen(e).(*ast.CallExpr)
	if !ok || len(c.Args) != 1 {
		return false
	}
	id, ok := ast.Unparen(c.Fun).(*ast.Ident)
	if !ok {
		return false
	}
	if b, ok := t.info.Uses[id].(*types.Builtin); !ok || b.Name() != "len" {
		return false
	}
	o1, _, ok1 := t.local(c.Args[0])
	o2, _, ok2 := t.local(x)
	return ok1 && ok2 && o1 == o2
}

func (t *mutTr) checkSort(e ast.Expr, s mSort) {
	if got := mSortOf(t.info.Types[e].Type); got != s {
		t.fail(e, fmt.Sprintf("the Go type of this field (%s) is not the one the vocabulary of Model/GoHeap.v reads (%s)", got, s))
	}
}

func (t *mutTr) selector(x *ast.SelectorExpr) (string, mSort) {
	f := x.Sel.Name
	if t.isRecv(x.X) {
		switch {
		case f == "root" && mSortOf(t.info.Types[x].Type).k == mRef:
			return "root", mSort{mRef, 0}
		case f == "size" && mSortOf(t.info.Types[x].Type).k == mInt:
			return "size", mSort{mInt, 0}
		}
		t.fail(x, "field of the tree outside the fragment (only root, size)")
	}
	if sel, ok := t.info.Selections[x]; !ok || sel.Kind() != types.FieldVal {
		t.fail(x, "selector outside the fragment")
	}
	a, s := t.mExpr(x.X)
	if s.k == mSlot && (f == "pointer" || f == "tag") { // x.f on a *nodeRef is ( *x).f
		a, s = t.deref(a), mSort{mRef, 0}
	}
	switch {
	case s.k == mRef && f == "pointer":
		t.checkSort(x, mSort{mPtr, 0})
		return a, mSort{mPtr, 0}
	case s.k == mRef && f == "tag":
		t.checkSort(x, mSort{mKindT, 0})
		return t.bindOpt(app("h_tag", "h", a)), mSort{mKindT, 0}
	case (s.k == mHdr || s.k == mNode) && f == "prefixLen":
		t.checkSort(x, mSort{mU32, 0})
		return app("h_prefixLen", "h", a), mSort{mU32, 0}
	case (s.k == mHdr || s.k == mNode) && f == "prefix":
		rs := mSortOf(t.info.Types[x].Type)
		if rs.k != mBytes || rs.n == 0 {
			t.fail(x, "prefix is not a byte array")
		}
		return app("h_prefix", "h", a), rs
	}
	t.fail(x, fmt.Sprintf("field %s of a %s", f, s))
	return "", mSort{}
}

func (t *mutTr) mBinary(x *ast.BinaryExpr) (string, mSort) {
	bo := mSort{mBool, 0}
	if x.Op == token.EQL || x.Op == token.NEQ {
		for _, pair := range [][2]ast.Expr{{x.X, x.Y}, {x.Y, x.X}} {
			if tv, ok := t.info.Types[ast.Unparen(pair[1])]; ok && tv.IsNil() {
				a, s := t.mExpr(pair[0])
				var c string
				switch s.k {
				case mPtr:
					c = app("href_is_nil", a)
				case mSlot:
					c = app("slot_is_nil", a)
				default:
					t.fail(x, "comparison with nil of something else than an unsafe.Pointer / *nodeRef")
				}
				if x.Op == token.NEQ {
					c = app("negb", c)
				}
				return c, bo
			}
		}
	}
	if x.Op == token.LAND || x.Op == token.LOR {
		a, s := t.mExpr(x.X)
		npre := len(t.pre)
		b, sb := t.mExpr(x.Y)
		if len(t.pre) != npre {
			t.fail(x, "a checked read in the right operand of && / ||")
		}
		if s.k != mBool || sb.k != mBool {
			t.fail(x, "logical operator at this type")
		}
		if x.Op == token.LAND {
			return app("andb", a, b), bo
		}
		return app("orb", a, b), bo
	}
	a, s := t.mExpr(x.X)
	b, sb := t.mExpr(x.Y)
	if s != sb {
		t.fail(x, fmt.Sprintf("operands of different types (%s, %s)", s, sb))
	}
	switch x.Op {
	case token.ADD, token.SUB:
		f := map[token.Token]string{token.ADD: "add", token.SUB: "sub"}[x.Op]
		switch s.k {
		case mInt:
			return app("Z."+f, a, b), s
		case mU8:
			return app(f+"w", "8", a, b), s
		case mU32:
			return app(f+"w", "32", a, b), s
		}
		t.fail(x, "arithmetic at this type")
	case token.EQL, token.NEQ, token.LSS, token.LEQ, token.GTR, token.GEQ:
		pre := ""
		switch s.k {
		case mInt:
			pre = "Z."
		case mU8, mU32:
			pre = "N."
		case mKindT:
			switch x.Op {
			case token.EQL:
				return app("gkind_eqb", a, b), bo
			case token.NEQ:
				return app("negb", app("gkind_eqb", a, b)), bo
			}
			t.fail(x, "order comparison of nodeKind values")
		default:
			t.fail(x, "comparison at this type")
		}
		switch x.Op {
		case token.EQL:
			return app(pre+"eqb", a, b), bo
		case token.NEQ:
			return app("negb", app(pre+"eqb", a, b)), bo
		case token.LSS:
			return app(pre+"ltb", a, b), bo
		case token.LEQ:
			return app(pre+"leb", a, b), bo
		case token.GTR:
			return app(pre+"ltb", b, a), bo
		case token.GEQ:
			return app(pre+"leb", b, a), bo
		}
	}
	t.fail(x, "binary operator outside the fragment")
	return "", mSort{}
}

func (t *mutTr) args(x *ast.CallExpr, want ...mKind) []string {
	if len(x.Args) != len(want) {
		t.fail(x, "number of arguments")
	}
	var out []string
	for i, a := range x.Args {
		code, s := t.mExpr(a)
		if s.k != want[i] {
			t.fail(a, fmt.Sprintf("argument of sort %s", s))
		}
		out = append(out, code)
	}
	return out
}

func (t *mutTr) mCall(x *ast.CallExpr) (string, mSort) {
	if x.Ellipsis != token.NoPos {
		t.fail(x, "call outside the fragment")
	}
	fun := ast.Unparen(x.Fun)
	if tv, ok := t.info.Types[fun]; ok && tv.IsType() { // conversion
		if len(x.Args) != 1 {
			t.fail(x, "conversion")
		}
		to := mSortOf(tv.Type)
		a, from := t.mExpr(x.Args[0])
		switch {
		case to.k == mBad || from.k == mBad:
		case to == from:
			return a, to
		case to.k == mInt && (from.k == mU8 || from.k == mU32):
			return app("Z.of_N", a), to
		case to.k == mU32 && from.k == mU8:
			return a, to
		case to.k == mU32 && from.k == mInt:
			return app("u32_of_int", a), to
		case to.k == mU8 && from.k == mInt:
			return app("u8_of_int", a), to
		case to.k == mLeaf && from.k == mPtr:
			return t.bindOpt(app("h_cast_leaf", "h", a)), to
		case to.k == mLeaf && from.k == mPtrV:
			return t.bindOpt(app("cast_leaf", a)), mSort{mLeafV, 0}
		}
		t.fail(x, fmt.Sprintf("conversion of %s to %s", from, to))
	}
	if ix, ok := fun.(*ast.IndexExpr); ok {
		fun = ast.Unparen(ix.X)
	} else if ix, ok := fun.(*ast.IndexListExpr); ok {
		fun = ast.Unparen(ix.X)
	}
	switch f := fun.(type) {
	case *ast.Ident:
		switch o := t.info.Uses[f].(type) {
		case *types.Builtin:
			switch o.Name() {
			case "len":
				if len(x.Args) == 1 {
					if a, s := t.mExpr(x.Args[0]); s.k == mBytes {
						return app("Z.of_nat", app("List.length", a)), mSort{mInt, 0}
					}
				}
			case "min":
				if len(x.Args) >= 2 {
					acc, s := t.mExpr(x.Args[0])
					for _, y := range x.Args[1:] {
						b, sb := t.mExpr(y)
						if sb != s {
							t.fail(x, fmt.Sprintf("min of different types (%s, %s)", s, sb))
						}
						switch s.k {
						case mInt:
							acc = app("Z.min", acc, b)
						case mU8, mU32:
							acc = app("N.min", acc, b)
						default:
							t.fail(x, "min at this type")
						}
					}
					return acc, s
				}
			case "append":
				if len(x.Args) == 2 {
					a, s := t.mExpr(x.Args[0])
					c, sc := t.mExpr(x.Args[1])
					if s == (mSort{mBytes, 0}) && sc.k == mU8 {
						return "(" + a + " ++ [" + top(c) + "])", s
					}
				}
			}
			t.fail(x, "builtin outside the fragment")
		case *types.Func:
			if o.Pkg() != nil && o.Pkg().Name() == "art" {
				switch o.Name() {
				case "prefixMismatch":
					a := t.args(x, mRef, mBytes, mInt)
					return t.bindGres(app("h_prefixMismatch", "h", a[0], a[1], a[2])), mSort{mInt, 0}
				case "minimum":
					a := t.args(x, mRef)
					return t.bindGres(app("h_minimum", "h", a[0])), mSort{mPtrV, 0}
				case "longestCommonPrefix":
					a := t.args(x, mBytes, mBytes, mInt)
					return t.bindGres(app("g_longestCommonPrefix", a[0], a[1], a[2])), mSort{mInt, 0}
				}
				t.fail(x, "call of a function that is not translated")
			}
		}
	case *ast.SelectorExpr:
		if id, ok := ast.Unparen(f.X).(*ast.Ident); ok {
			if pn, ok := t.info.Uses[id].(*types.PkgName); ok {
				if pn.Imported().Path() == "bytes" && f.Sel.Name == "Equal" && len(x.Args) == 2 {
					a, s := t.mExpr(x.Args[0])
					b, sb := t.mExpr(x.Args[1])
					if s.k == mBytes && sb.k == mBytes {
						return app("beq", a, b), mSort{mBool, 0}
					}
				}
				t.fail(x, "call of an imported function outside the fragment")
			}
		}
		if sel, ok := t.info.Selections[f]; ok && sel.Kind() == types.MethodVal {
			a, s := t.mExpr(f.X)
			m := f.Sel.Name
			if s.k == mSlot && (m == "node" || m == "findChild") {
				a, s = t.deref(a), mSort{mRef, 0}
			}
			switch {
			case s.k == mRef && m == "node" && len(x.Args) == 0:
				return t.bindOpt(app("h_ref_node", "h", a)), mSort{mHdr, 0}
			case s.k == mRef && m == "findChild":
				b := t.args(x, mU8)
				return t.bindOpt(app("h_findChild", "h", a, b[0])), mSort{mSlot, 0}
			case s.k == mLeaf && m == "getKey" && len(x.Args) == 0:
				return app("h_leaf_gk", "h", a), mSort{mBytes, 0}
			case s.k == mLeaf && m == "getTransformKey" && len(x.Args) == 0:
				return app("h_leaf_tk", "h", a), mSort{mBytes, 0}
			case s.k == mLeafV && m == "getKey" && len(x.Args) == 0:
				return app("xleaf_gk", a), mSort{mBytes, 0}
			case s.k == mLeafV && m == "getTransformKey" && len(x.Args) == 0:
				return app("xleaf_tk", a), mSort{mBytes, 0}
			case (s.k == mHdr || s.k == mNode) && m == "checkPrefix":
				b := t.args(x, mBytes, mInt)
				return t.bindGres(app("g_checkPrefix", app("h_hdr", "h", a), b[0], b[1])), mSort{mInt, 0}
			}
		}
	}
	t.fail(x, "call outside the fragment")
	return "", mSort{}
}

// ---------------------------------------------------------------- statements

func mNeverFalls(list []ast.Stmt) bool {
	if len(list) == 0 {
		return false
	}
	switch s := list[len(list)-1].(type) {
	case *ast.ReturnStmt:
		return true
	case *ast.BranchStmt:
		return s.Tok == token.BREAK || s.Tok == token.CONTINUE || s.Tok == token.GOTO
	case *ast.ExprStmt:
		if c, ok := s.X.(*ast.CallExpr); ok {
			if id, ok := c.Fun.(*ast.Ident); ok && id.Name == "panic" {
				return true
			}
		}
	case *ast.BlockStmt:
		return mNeverFalls(s.List)
	case *ast.IfStmt:
		if s.Else == nil {
			return false
		}
		var el []ast.Stmt
		switch e := s.Else.(type) {
		case *ast.BlockStmt:
			el = e.List
		default:
			el = []ast.Stmt{e}
		}
		return mNeverFalls(s.Body.List) && mNeverFalls(el)
	}
	return false
}

// does the node change the heap, t.root, t.size, the oracle or the pool?
func (t *mutTr) mutates(n ast.Node) bool {
	found := false
	ast.Inspect(n, func(m ast.Node) bool {
		switch s := m.(type) {
		case *ast.ExprStmt:
			found = true
		case *ast.AssignStmt:
			for _, l := range s.Lhs {
				if _, ok := ast.Unparen(l).(*ast.Ident); !ok {
					found = true
				}
			}
		case *ast.IncDecStmt:
			if _, ok := ast.Unparen(s.X).(*ast.Ident); !ok {
				found = true
			}
		case *ast.TypeAssertExpr:
			found = true
		case *ast.CallExpr:
			if id, ok := ast.Unparen(s.Fun).(*ast.Ident); ok && t.closure != nil && t.info.Uses[id] == t.closure {
				found = true
			}
		}
		return !found
	})
	return found
}

func (t *mutTr) assignedIn(n ast.Node) []types.Object {
	var out []types.Object
	seen := map[types.Object]bool{}
	add := func(e ast.Expr) {
		id, ok := ast.Unparen(e).(*ast.Ident)
		if !ok {
			return // a write through a pointer / to a field of the tree: ambient state
		}
		obj := t.info.Uses[id]
		if obj == nil || (obj.Pos() >= n.Pos() && obj.Pos() < n.End()) {
			return
		}
		if !seen[obj] {
			seen[obj] = true
			out = append(out, obj)
		}
	}
	ast.Inspect(n, func(m ast.Node) bool {
		switch s := m.(type) {
		case *ast.AssignStmt:
			for _, l := range s.Lhs {
				add(l)
			}
		case *ast.IncDecStmt:
			add(s.X)
		}
		return true
	})
	sort.Slice(out, func(i, j int) bool { return out[i].Pos() < out[j].Pos() })
	return out
}

func (t *mutTr) freeIn(n ast.Node) []types.Object {
	var out []types.Object
	seen := map[types.Object]bool{}
	add := func(obj types.Object) {
		if _, isLocal := t.sorts[obj]; isLocal && !seen[obj] && !(obj.Pos() >= n.Pos() && obj.Pos() < n.End()) {
			seen[obj] = true
			out = append(out, obj)
		}
	}
	ast.Inspect(n, func(m ast.Node) bool {
		if id, ok := m.(*ast.Ident); ok {
			obj := t.info.Uses[id]
			if obj != nil && obj == t.closure {
				for _, o := range t.closFree {
					add(o)
				}
			}
			add(obj)
		}
		return true
	})
	sort.Slice(out, func(i, j int) bool { return out[i].Pos() < out[j].Pos() })
	return out
}

// join: REST is needed on several paths. A short REST is repeated; a long one is bound once as a local
// function of the variables the statements before it assign (and of the ambient state when they change it).
func (t *mutTr) join(at ast.Node, rest string, ind string, force bool) (def string, use func() string) {
	trimmed := strings.TrimSpace(rest)
	if !force && !strings.Contains(trimmed, "\n") && len(trimmed) <= 100 {
		return "", func() string { return trimmed }
	}
	t.njoin++
	k := t.fresh(fmt.Sprintf("k%d", t.njoin))
	var binders, args []string
	if t.mutates(at) {
		binders, args = append(binders, ambBinders), append(args, ambArgs)
	}
	for _, o := range t.assignedIn(at) {
		if s, ok := t.sorts[o]; ok {
			binders = append(binders, "("+t.nameOf(o)+" : "+s.coqType()+")")
			args = append(args, t.nameOf(o))
		}
	}
	if len(binders) == 0 {
		return ind + "let " + k + " := fun (_ : unit) =>\n" + rest + " in\n", func() string { return k + " tt" }
	}
	return ind + "let " + k + " := fun " + strings.Join(binders, " ") + " =>\n" + rest + " in\n",
		func() string { return k + " " + strings.Join(args, " ") }
}

func (t *mutTr) done(r string) string { return "MDone " + ambArgs + " " + r }

// nodeRef{} | nodeRef{pointer: unsafe.Pointer(x), tag: nodeKindK} | nodeRef{pointer: createLeaf(), tag: nodeKindLeaf}:
// the lines to run before (an allocation) and the href
func (t *mutTr) refLit(cl *ast.CompositeLit, ind string) (before string, code string) {
	if mSortOf(t.info.Types[cl].Type).k != mRef {
		t.fail(cl, "composite literal of something else than a nodeRef")
	}
	if len(cl.Elts) == 0 {
		return "", "None"
	}
	fields := map[string]ast.Expr{}
	for _, el := range cl.Elts {
		kv, ok := el.(*ast.KeyValueExpr)
		if !ok {
			t.fail(cl, "unkeyed nodeRef literal")
		}
		id, ok := kv.Key.(*ast.Ident)
		if !ok {
			t.fail(cl, "nodeRef literal")
		}
		fields[id.Name] = kv.Value
	}
	if len(fields) != 2 || fields["pointer"] == nil || fields["tag"] == nil {
		t.fail(cl, "nodeRef literal without both pointer and tag")
	}
	tag, ok := t.pkgConst(fields["tag"])
	if !ok {
		t.fail(cl, "the tag of a nodeRef literal is not a nodeKind constant")
	}
	call, ok := ast.Unparen(fields["pointer"]).(*ast.CallExpr)
	if !ok {
		t.fail(cl, "the pointer of a nodeRef literal")
	}
	if id, ok := ast.Unparen(call.Fun).(*ast.Ident); ok && t.closure != nil && t.info.Uses[id] == t.closure && len(call.Args) == 0 {
		if tag.Name() != "nodeKindLeaf" {
			t.fail(cl, "a leaf pointer with a tag that is not nodeKindLeaf")
		}
		leaf := t.leafObj()
		l := t.fresh("l")
		return t.wrapOnly(ind, "let '("+l+", h) := alloc h "+leaf+" in\n"), app("Some", l)
	}
	if tv, ok := t.info.Types[ast.Unparen(call.Fun)]; ok && tv.IsType() && mSortOf(tv.Type).k == mPtr && len(call.Args) == 1 {
		a, s := t.mExpr(call.Args[0])
		if s.k == mNode && kindOfNode[s.n] == tag.Name() {
			return "", app("Some", a)
		}
		t.fail(cl, "the tag of the nodeRef literal is not the kind of the node the pointer points to")
	}
	t.fail(cl, "nodeRef literal outside the fragment")
	return "", ""
}

// the pending checked reads of the expressions translated so far, then a line
func (t *mutTr) wrapOnly(ind, line string) string {
	pre := t.takePre()
	if len(pre) != 0 {
		t.fail(t.fd.Name, "internal: a checked read inside a leaf literal")
	}
	return ind + line
}

// the heap object the closure createLeaf allocates, at the current values of the variables it captures
func (t *mutTr) leafObj() string {
	cl := t.closLit
	tn := ""
	switch ty := cl.Type.(type) {
	case *ast.IndexExpr:
		if id, ok := ty.X.(*ast.Ident); ok {
			tn = id.Name
		}
	case *ast.Ident:
		tn = ty.Name
	}
	lf, ok := t.leaves[tn]
	if !ok {
		t.fail(cl, "leaf struct whose getKey / getTransformKey are not unsafe.Slice(n.f, n.len)")
	}
	fields := map[string]ast.Expr{}
	for _, el := range cl.Elts {
		kv, ok := el.(*ast.KeyValueExpr)
		if !ok {
			t.fail(cl, "unkeyed leaf literal")
		}
		fields[kv.Key.(*ast.Ident).Name] = kv.Value
	}
	allowed := map[string]bool{lf.key: true, lf.keyLen: true, lf.tk: true, lf.tkLen: true, "value": true}
	for f := range fields {
		if !allowed[f] {
			t.fail(cl, "leaf literal sets the field "+f)
		}
	}
	data := func(f string) string {
		e, ok := fields[f]
		if !ok {
			t.fail(cl, "leaf literal does not set "+f)
		}
		c, ok := ast.Unparen(e).(*ast.CallExpr)
		if ok && len(c.Args) == 1 {
			if sel, ok := ast.Unparen(c.Fun).(*ast.SelectorExpr); ok && sel.Sel.Name == "SliceData" {
				if id, ok := sel.X.(*ast.Ident); ok {
					if pn, ok := t.info.Uses[id].(*types.PkgName); ok && pn.Imported().Path() == "unsafe" {
						a, s := t.mExpr(c.Args[0])
						if s == (mSort{mBytes, 0}) {
							return a
						}
					}
				}
			}
		}
		t.fail(e, "leaf data pointer that is not unsafe.SliceData(x)")
		return ""
	}
	num := func(f string) string {
		e, ok := fields[f]
		if !ok {
			t.fail(cl, "leaf literal does not set "+f)
		}
		a, s := t.mExpr(e)
		if s.k != mU32 {
			t.fail(e, "leaf length that is not a uint32")
		}
		return a
	}
	v, ok := fields["value"]
	if !ok {
		t.fail(cl, "leaf literal does not set value")
	}
	vc, vs := t.mExpr(v)
	if vs.k != mVal {
		t.fail(v, "leaf value")
	}
	return app("h_mk_leaf", data(lf.key), num(lf.keyLen), data(lf.tk), num(lf.tkLen), vc)
}

func (t *mutTr) tStmts(list []ast.Stmt, c *mCtx, ind string) string {
	if len(list) == 0 {
		return ind + c.fall()
	}
	// a label further down this list: the statements from it on are a local function, goto calls it
	for k, st := range list {
		ls, ok := st.(*ast.LabeledStmt)
		if !ok {
			continue
		}
		tail := concatStmts([]ast.Stmt{ls.Stmt}, list[k+1:])
		if k == 0 {
			return t.tStmts(tail, c, ind)
		}
		head := list[:k]
		blk := &ast.BlockStmt{Lbrace: head[0].Pos(), List: head, Rbrace: head[len(head)-1].End() - 1}
		outer := *c
		outer.top = false
		restC := t.tStmts(tail, &outer, ind+"  ")
		def, use := t.join(blk, restC, ind, true)
		inner := *c
		inner.top = false
		inner.fall = use
		inner.labels = map[string]func() string{}
		for n, f := range c.labels {
			inner.labels[n] = f
		}
		inner.labels[ls.Label.Name] = use
		return def + t.tStmts(head, &inner, ind)
	}
	st, rest := list[0], list[1:]
	next := func() string { return t.tStmts(rest, c, ind) }
	let := func(name, code string) string {
		pre := t.takePre()
		return t.wrap(pre, ind+"let "+name+" := "+top(code)+" in\n"+next(), ind)
	}
	eff := func(pat, code string) string { // a step of the vocabulary that can fail
		pre := t.takePre()
		return t.wrap(pre, optMatch(ind, pat, code, next()), ind)
	}
	switch s := st.(type) {
	case *ast.EmptyStmt:
		return next()
	case *ast.BlockStmt:
		return t.tStmts(concatStmts(s.List, rest), c, ind)
	case *ast.ReturnStmt:
		var code string
		switch {
		case t.resCoq == "unit" && len(s.Results) == 0:
			code = t.done("tt")
		case t.resCoq == "bool" && len(s.Results) == 1:
			v, vs := t.mExpr(s.Results[0])
			if vs.k != mBool {
				t.fail(s, "return type")
			}
			code = t.done(v)
		default:
			t.fail(s, "return")
		}
		return t.wrap(t.takePre(), ind+code, ind)
	case *ast.BranchStmt:
		switch {
		case s.Tok == token.BREAK && s.Label == nil && c.brk != nil:
			return ind + c.brk()
		case s.Tok == token.CONTINUE && s.Label == nil && c.cont != nil:
			return ind + c.cont()
		case s.Tok == token.GOTO && s.Label != nil:
			if f, ok := c.labels[s.Label.Name]; ok {
				return ind + f()
			}
			t.fail(s, "goto to a label that is not a later statement of an enclosing statement list")
		}
		t.fail(s, "branch statement outside the fragment")
	case *ast.ExprStmt:
		call, ok := s.X.(*ast.CallExpr)
		if !ok {
			t.fail(s, "expression statement outside the fragment")
		}
		if id, ok := call.Fun.(*ast.Ident); ok {
			if b, ok := t.info.Uses[id].(*types.Builtin); ok {
				switch b.Name() {
				case "panic":
					return ind + "MPanic"
				case "copy": // copy(x.prefix[:], src)
					if len(call.Args) == 2 {
						if sl, ok := ast.Unparen(call.Args[0]).(*ast.SliceExpr); ok && sl.Low == nil && sl.High == nil && !sl.Slice3 {
							if sel, ok := ast.Unparen(sl.X).(*ast.SelectorExpr); ok && sel.Sel.Name == "prefix" {
								a, as := t.mExpr(sel.X)
								if as.k == mHdr || as.k == mNode {
									src, ss := t.mExpr(call.Args[1])
									if ss.k == mBytes {
										return let("h", app("h_set_prefix", "h", a, app("gcopy", "0", src, app("h_prefix", "h", a))))
									}
								}
							}
						}
					}
					t.fail(s, "copy outside the fragment (only copy(x.prefix[:], bytes))")
				}
			}
		}
		if sel, ok := ast.Unparen(call.Fun).(*ast.SelectorExpr); ok {
			if msel, ok := t.info.Selections[sel]; ok && msel.Kind() == types.MethodVal {
				a, as := t.mExpr(sel.X)
				switch {
				case as == (mSort{mNode, 4}) && sel.Sel.Name == "addChild":
					b := t.args(call, mSlot, mU8, mRef)
					return eff("(h, os, p)", app("h_node4_addChild", "h", "root", a, b[0], b[1], b[2], "os", "p"))
				case as.k == mSlot && sel.Sel.Name == "addChild":
					b := t.args(call, mU8, mRef)
					return eff("(h, os, p)", app("h_addChild", "h", "root", a, b[0], b[1], "os", "p"))
				case as.k == mSlot && sel.Sel.Name == "deleteChild":
					b := t.args(call, mU8)
					return eff("(h, root, os, p)", app("h_deleteChild", "h", "root", a, b[0], "os", "p"))
				}
			}
		}
		t.fail(s, "expression statement outside the fragment")
	case *ast.DeclStmt:
		gd, ok := s.Decl.(*ast.GenDecl)
		if !ok || gd.Tok != token.VAR || len(gd.Specs) != 1 {
			t.fail(s, "declaration outside the fragment")
		}
		vs := gd.Specs[0].(*ast.ValueSpec)
		if len(vs.Names) != 1 || len(vs.Values) != 0 || vs.Names[0].Name == "_" {
			t.fail(s, "declaration outside the fragment")
		}
		obj := t.info.Defs[vs.Names[0]]
		ds := mSortOf(obj.Type())
		switch ds.k {
		case mInt:
			return let(t.declareM(obj, ds, s), "0%Z")
		case mU8, mU32:
			return let(t.declareM(obj, ds, s), "0")
		case mBool:
			return let(t.declareM(obj, ds, s), "false")
		}
		t.fail(s, "declaration without a value at this type")
	case *ast.IncDecStmt:
		op := "Z.add"
		if s.Tok == token.DEC {
			op = "Z.sub"
		}
		if sel, ok := ast.Unparen(s.X).(*ast.SelectorExpr); ok && t.isRecv(sel.X) && sel.Sel.Name == "size" && mSortOf(t.info.Types[sel].Type).k == mInt {
			return let("size", app(op, "size", "1%Z"))
		}
		obj, ls, ok := t.local(s.X)
		if !ok || ls.k != mInt {
			t.fail(s, "++ / -- of something else than an int variable or t.size")
		}
		return let(t.nameOf(obj), app(op, t.nameOf(obj), "1%Z"))
	case *ast.AssignStmt:
		return t.assign(s, rest, c, ind, let, eff)
	case *ast.IfStmt:
		if s.Init != nil {
			inner := *s
			inner.Init = nil
			return t.tStmts(concatStmts([]ast.Stmt{s.Init, &inner}, rest), c, ind)
		}
		cond, cs := t.mExpr(s.Cond)
		if cs.k != mBool {
			t.fail(s.Cond, "condition")
		}
		pre := t.takePre()
		var elseList []ast.Stmt
		switch e := s.Else.(type) {
		case nil:
		case *ast.BlockStmt:
			elseList = e.List
		case *ast.IfStmt:
			elseList = []ast.Stmt{e}
		default:
			t.fail(s, "else")
		}
		thenFalls, elseFalls := !mNeverFalls(s.Body.List), !mNeverFalls(elseList)
		var def string
		inner := *c
		inner.top = false
		switch {
		case !thenFalls && !elseFalls: // nothing continues
		case len(rest) == 0:
		case !thenFalls && s.Else == nil: // if c { ...; return }; REST
			outer := *c
			outer.top = c.top
			restC := t.tStmts(rest, &outer, ind+"  ")
			inner.fall = func() string { return strings.TrimSpace(restC) }
		default:
			outer := *c
			outer.top = false
			var use func() string
			def, use = t.join(s, t.tStmts(rest, &outer, ind+"  "), ind, false)
			inner.fall = use
		}
		thenC := t.tStmts(s.Body.List, &inner, ind+"  ")
		elseC := t.tStmts(elseList, &inner, ind+"  ")
		return t.wrap(pre, def+ind+"if "+top(cond)+" then (\n"+thenC+"\n"+ind+") else (\n"+elseC+"\n"+ind+")", ind)
	case *ast.ForStmt:
		return t.loop(s, rest, c, ind)
	}
	t.fail(st, "statement outside the fragment")
	return ""
}

func (t *mutTr) assign(s *ast.AssignStmt, rest []ast.Stmt, c *mCtx, ind string, let func(string, string) string, eff func(string, string) string) string {
	next := func() string { return t.tStmts(rest, c, ind) }
	// x, y := t.<codec>.Transform(key)
	if len(s.Lhs) == 2 && len(s.Rhs) == 1 && s.Tok == token.DEFINE {
		call, ok := ast.Unparen(s.Rhs[0]).(*ast.CallExpr)
		okCall := false
		if ok && len(call.Args) == 1 {
			if sel, ok := ast.Unparen(call.Fun).(*ast.SelectorExpr); ok && sel.Sel.Name == "Transform" {
				if in, ok := ast.Unparen(sel.X).(*ast.SelectorExpr); ok && t.isRecv(in.X) {
					if a, ok := ast.Unparen(call.Args[0]).(*ast.Ident); ok && t.info.Uses[a] == t.keyArg {
						okCall = true
					}
				}
			}
		}
		if !okCall || t.sawTrans || !c.top {
			t.fail(s, "two-valued assignment that is not the one `x, y := t.<codec>.Transform(key)` at the top level of the method")
		}
		t.sawTrans = true
		for _, l := range s.Lhs {
			id, ok := l.(*ast.Ident)
			if !ok {
				t.fail(l, "assignment target")
			}
			if id.Name == "_" {
				continue
			}
			obj := t.info.Defs[id]
			if obj == nil || mSortOf(obj.Type()) != (mSort{mBytes, 0}) {
				t.fail(l, "a result of Transform that is not a new []byte variable")
			}
			t.declareM(obj, mSort{mBytes, 0}, l)
			t.keyParams = append(t.keyParams, obj)
		}
		if len(t.keyParams) == 0 {
			t.fail(s, "no result of Transform is used")
		}
		return next()
	}
	if len(s.Lhs) != 1 || len(s.Rhs) != 1 {
		t.fail(s, "multiple assignment")
	}
	lhs, rhs := ast.Unparen(s.Lhs[0]), ast.Unparen(s.Rhs[0])
	// createLeaf := func() unsafe.Pointer { return unsafe.Pointer(&leaf{..}) }
	if fl, ok := rhs.(*ast.FuncLit); ok {
		id, isId := lhs.(*ast.Ident)
		if !isId || s.Tok != token.DEFINE || t.closure != nil || !c.top {
			t.fail(s, "function literal outside the fragment")
		}
		okLit := false
		if len(fl.Type.Params.List) == 0 && len(fl.Body.List) == 1 {
			if r, ok := fl.Body.List[0].(*ast.ReturnStmt); ok && len(r.Results) == 1 {
				if cv, ok := ast.Unparen(r.Results[0]).(*ast.CallExpr); ok && len(cv.Args) == 1 {
					if tv, ok := t.info.Types[ast.Unparen(cv.Fun)]; ok && tv.IsType() && mSortOf(tv.Type).k == mPtr {
						if u, ok := ast.Unparen(cv.Args[0]).(*ast.UnaryExpr); ok && u.Op == token.AND {
							if cl, ok := ast.Unparen(u.X).(*ast.CompositeLit); ok {
								t.closLit, okLit = cl, true
							}
						}
					}
				}
			}
		}
		if !okLit {
			t.fail(s, "function literal that is not func() unsafe.Pointer { return unsafe.Pointer(&leaf{..}) }")
		}
		t.closure = t.info.Defs[id]
		t.closFree = t.freeIn(fl)
		// the closure captures variables: they must not be shadowed in Coq by a later rebinding with another meaning;
		// the literal is evaluated at every call with the current bindings, which is capture by reference
		return next()
	}
	// x := nodePools[nodeKindK].Get().(*nodeK)
	if ta, ok := rhs.(*ast.TypeAssertExpr); ok {
		id, isId := lhs.(*ast.Ident)
		if !isId || s.Tok != token.DEFINE {
			t.fail(s, "pool Get outside the fragment")
		}
		obj := t.info.Defs[id]
		ns := mSortOf(obj.Type())
		okGet := false
		if call, ok := ast.Unparen(ta.X).(*ast.CallExpr); ok && len(call.Args) == 0 && ns.k == mNode {
			if sel, ok := ast.Unparen(call.Fun).(*ast.SelectorExpr); ok && sel.Sel.Name == "Get" {
				if ix, ok := ast.Unparen(sel.X).(*ast.IndexExpr); ok {
					if pid, ok := ast.Unparen(ix.X).(*ast.Ident); ok && pid.Name == "nodePools" {
						if kc, ok := t.pkgConst(ix.Index); ok && kc.Name() == kindOfNode[ns.n] {
							okGet = true
						}
					}
				}
			}
		}
		if !okGet {
			t.fail(s, "type assertion that is not nodePools[nodeKindK].Get().(*nodeK)")
		}
		nn := t.fresh("nn")
		name := t.declareM(obj, ns, s)
		return ind + "let '(" + nn + ", p) := Pool.get (Pool.nxt os) K" + fmt.Sprint(ns.n) + " p in\n" +
			ind + "let os := tl os in\n" +
			ind + "let '(" + name + ", h) := alloc h (HNode " + nn + ") in\n" + next()
	}
	// the right-hand side
	var before, code string
	var rs mSort
	if cl, ok := rhs.(*ast.CompositeLit); ok {
		if s.Tok != token.DEFINE && s.Tok != token.ASSIGN {
			t.fail(s, "assignment operator")
		}
		before, code = t.refLit(cl, ind)
		rs = mSort{mRef, 0}
	} else {
		code, rs = t.mExpr(rhs)
	}
	opAssign := func(cur string, ls mSort) string {
		switch s.Tok {
		case token.ASSIGN, token.DEFINE:
			return code
		case token.ADD_ASSIGN, token.SUB_ASSIGN:
			f := map[token.Token]string{token.ADD_ASSIGN: "add", token.SUB_ASSIGN: "sub"}[s.Tok]
			switch ls.k {
			case mInt:
				return app("Z."+f, cur, code)
			case mU8:
				return app(f+"w", "8", cur, code)
			case mU32:
				return app(f+"w", "32", cur, code)
			}
		}
		t.fail(s, "assignment operator outside the fragment")
		return ""
	}
	compatible := func(ls mSort) bool {
		return ls == rs || (ls.k == mLeaf && rs.k == mLeafV) || (ls.k == mPtr && rs.k == mPtrV) || (ls.k == mBytes && rs.k == mBytes)
	}
	switch l := lhs.(type) {
	case *ast.Ident:
		if l.Name == "_" {
			t.fail(s, "assignment to _")
		}
		if s.Tok == token.DEFINE {
			obj := t.info.Defs[l]
			if obj == nil {
				t.fail(s, "redeclaration by :=")
			}
			if !compatible(mSortOf(obj.Type())) {
				t.fail(s, fmt.Sprintf("a value of sort %s for a variable of type %s", rs, obj.Type()))
			}
			if rs.k == mBytes {
				rs = mSortOf(obj.Type())
			}
			return before + let(t.declareM(obj, rs, s), code)
		}
		obj, ls, ok := t.local(l)
		if !ok {
			t.fail(s, "assignment to something else than a local variable")
		}
		if ls != rs && !(ls.k == mBytes && rs.k == mBytes) {
			t.fail(s, fmt.Sprintf("assignment between different types (%s, %s)", ls, rs))
		}
		return before + let(t.nameOf(obj), opAssign(t.nameOf(obj), ls))
	case *ast.StarExpr: // *ref = v
		a, as := t.mExpr(l.X)
		if as.k != mSlot || rs.k != mRef || s.Tok != token.ASSIGN {
			t.fail(s, "assignment through a pointer outside the fragment")
		}
		return before + eff("(h, root)", app("slot_write", "h", "root", a, code))
	case *ast.SelectorExpr:
		if t.isRecv(l.X) {
			if l.Sel.Name == "root" && rs.k == mRef && s.Tok == token.ASSIGN && mSortOf(t.info.Types[l].Type).k == mRef {
				return before + let("root", code)
			}
			t.fail(s, "assignment to a field of the tree outside the fragment")
		}
		a, as := t.mExpr(l.X)
		f := l.Sel.Name
		switch {
		case as.k == mLeaf && f == "value" && rs.k == mVal && s.Tok == token.ASSIGN:
			return let("h", app("h_set_leaf_value", "h", a, code))
		case (as.k == mHdr || as.k == mNode) && f == "prefixLen" && rs.k == mU32:
			t.checkSort(l, mSort{mU32, 0})
			return let("h", app("h_set_prefixLen", "h", a, opAssign(app("h_prefixLen", "h", a), rs)))
		case (as.k == mHdr || as.k == mNode) && f == "prefix" && rs.k == mBytes && rs.n != 0 && s.Tok == token.ASSIGN:
			if mSortOf(t.info.Types[l].Type) != rs {
				t.fail(s, "array assignment between different types")
			}
			return let("h", app("h_set_prefix", "h", a, code))
		}
		t.fail(s, "assignment to a field outside the fragment")
	}
	t.fail(s, "assignment target outside the fragment")
	return ""
}

func (t *mutTr) loop(s *ast.ForStmt, rest []ast.Stmt, c *mCtx, ind string) string {
	if s.Init != nil || s.Post != nil || s.Cond == nil || !c.top {
		t.fail(s, "loop outside the fragment (only `for cond { .. }` at the top level of the method)")
	}
	t.nloops++
	name := fmt.Sprintf("%s_loop%d", t.base, t.nloops)
	state := t.assignedIn(s)
	isState := map[types.Object]bool{}
	for _, o := range state {
		if _, ok := t.sorts[o]; !ok {
			t.fail(s, "the loop assigns something else than a local variable")
		}
		isState[o] = true
	}
	all := &ast.BlockStmt{Lbrace: s.Pos(), List: concatStmts([]ast.Stmt{s}, rest), Rbrace: s.End() - 1}
	if len(rest) > 0 {
		all.Rbrace = rest[len(rest)-1].End() - 1
	}
	var params []types.Object
	for _, o := range t.freeIn(all) {
		if !isState[o] {
			params = append(params, o)
		}
	}
	var binders, args []string
	for _, o := range params {
		binders = append(binders, "("+t.nameOf(o)+" : "+t.sorts[o].coqType()+")")
		args = append(args, t.nameOf(o))
	}
	binders, args = append(binders, ambBinders), append(args, ambArgs)
	for _, o := range state {
		binders = append(binders, "("+t.nameOf(o)+" : "+t.sorts[o].coqType()+")")
		args = append(args, t.nameOf(o))
	}
	t.needFuel = true
	call := func() string { return name + " fuel " + strings.Join(args, " ") }
	savedPre := t.takePre()
	// after the loop (condition false, or break): translated inside the loop function
	after := *c
	after.top = false
	restC := t.tStmts(rest, &after, "    ")
	lc := &mCtx{fall: call, cont: call, brk: func() string { return strings.TrimSpace(restC) }, labels: map[string]func() string{}}
	body := "    match fuel with\n    | O => MFuel\n    | S fuel =>\n" + t.tStmts(s.Body.List, lc, "      ") + "\n    end"
	cond, cs := t.mExpr(s.Cond)
	if cs.k != mBool {
		t.fail(s.Cond, "condition")
	}
	fn := t.wrap(t.takePre(), "  if "+top(cond)+" then (\n"+body+"\n  ) else (\n"+restC+"\n  )", "  ")
	t.pre = savedPre
	var src bytes.Buffer
	printer.Fprint(&src, t.fset, &ast.ForStmt{Cond: s.Cond, Body: &ast.BlockStmt{}})
	hdr := "(* the loop of " + t.fd.Name.Name + ": " + coqCommentSafe(strings.Join(strings.Fields(strings.TrimSuffix(strings.TrimSpace(src.String()), "}")), " ")) +
		" ... } and what follows it; one unit of fuel per executed body *)\n"
	t.aux = append(t.aux, hdr+"Fixpoint "+name+" (fuel : nat) "+strings.Join(binders, " ")+" {struct fuel} : mres "+t.resCoq+" :=\n"+fn+".\n")
	return ind + call()
}

// ---------------------------------------------------------------- one method

func translateMutMethod(fset *token.FileSet, info *types.Info, leaves map[string]leafFields, consts map[string]string, fd *ast.FuncDecl, coq string) (text, warn string) {
	t := &mutTr{
		fnTr:   &fnTr{fset: fset, info: info, consts: map[types.Object]string{}, names: map[types.Object]string{}, used: map[string]bool{}},
		sorts:  map[types.Object]mSort{},
		consts: consts,
		leaves: leaves,
		base:   coq,
		fd:     fd,
	}
	for _, w := range mutReserved {
		t.used[w] = true
	}
	var sig bytes.Buffer
	printer.Fprint(&sig, fset, &ast.FuncDecl{Name: fd.Name, Type: fd.Type, Recv: fd.Recv})
	header := "(* " + coqCommentSafe(strings.Join(strings.Fields(sig.String()), " ")) + " *)\n"
	defer func() {
		if r := recover(); r != nil {
			u, ok := r.(trUnsupported)
			if !ok {
				panic(r)
			}
			warn = coq + ": " + u.msg
			text = header + "Definition " + coq + " : untranslated := UNSUPPORTED \"" + strings.ReplaceAll(u.msg, "\"", "\"\"") + "\".\n" +
				"Definition " + coq + "_loop1 : untranslated := UNSUPPORTED \"see " + coq + "\".\n"
		}
	}()
	if fd.Body == nil || fd.Recv == nil || len(fd.Recv.List) != 1 || len(fd.Recv.List[0].Names) != 1 {
		t.fail(fd.Name, "not a method with a body")
	}
	t.recv = info.Defs[fd.Recv.List[0].Names[0]]
	var extra []string
	for i, f := range fd.Type.Params.List {
		for j, id := range f.Names {
			obj := info.Defs[id]
			switch {
			case i == 0 && j == 0:
				t.keyArg = obj // the key: only the argument of Transform
			default:
				s := mSortOf(obj.Type())
				if s.k != mVal {
					t.fail(id, "parameter outside the fragment")
				}
				extra = append(extra, "("+t.declareM(obj, s, id)+" : "+s.coqType()+")")
			}
		}
	}
	if t.keyArg == nil {
		t.fail(fd.Name, "no key parameter")
	}
	switch {
	case fd.Type.Results == nil:
		t.resCoq = "unit"
	case len(fd.Type.Results.List) == 1 && len(fd.Type.Results.List[0].Names) == 0 && mSortOf(info.Types[fd.Type.Results.List[0].Type].Type).k == mBool:
		t.resCoq = "bool"
	default:
		t.fail(fd.Name, "result type outside the fragment")
	}
	ctx := &mCtx{top: true, labels: map[string]func() string{}}
	ctx.fall = func() string {
		if t.resCoq != "unit" {
			t.fail(fd.Name, "control can reach the end of the function")
		}
		return t.done("tt")
	}
	code := t.tStmts(fd.Body.List, ctx, "  ")
	if len(t.pre) != 0 {
		t.fail(fd.Name, "internal: pending checked reads")
	}
	if !t.sawTrans {
		t.fail(fd.Name, "no `x, y := t.<codec>.Transform(key)`")
	}
	binders := []string{}
	if t.needFuel {
		binders = append(binders, "(fuel : nat)")
	}
	binders = append(binders, "(h : heap) (root : href) (size : Z)")
	for _, o := range t.keyParams {
		binders = append(binders, "("+t.nameOf(o)+" : list N)")
	}
	binders = append(binders, extra...)
	binders = append(binders, "(os : list choice) (p : hpool)")
	text = strings.Join(t.aux, "\n")
	if len(t.aux) > 0 {
		text += "\n"
	}
	text += header + "Definition " + coq + " " + strings.Join(binders, " ") + " : mres " + t.resCoq + " :=\n" + code + ".\n"
	return text, ""
}

// getKey / getTransformKey of the leaf structs: func (n *T[V]) getKey() []byte { return unsafe.Slice(n.f, n.l) }
func collectLeafFields(files []*ast.File) map[string]leafFields {
	type pair struct{ data, ln string }
	read := map[string]map[string]pair{}
	for _, f := range files {
		for _, d := range f.Decls {
			fd, ok := d.(*ast.FuncDecl)
			if !ok || fd.Body == nil || (fd.Name.Name != "getKey" && fd.Name.Name != "getTransformKey") || len(fd.Body.List) != 1 {
				continue
			}
			tn := recvTypeName(fd)
			if tn == "" || len(fd.Recv.List[0].Names) != 1 {
				continue
			}
			rn := fd.Recv.List[0].Names[0].Name
			r, ok := fd.Body.List[0].(*ast.ReturnStmt)
			if !ok || len(r.Results) != 1 {
				continue
			}
			c, ok := r.Results[0].(*ast.CallExpr)
			if !ok || len(c.Args) != 2 {
				continue
			}
			sel, ok := c.Fun.(*ast.SelectorExpr)
			if !ok || sel.Sel.Name != "Slice" {
				continue
			}
			if id, ok := sel.X.(*ast.Ident); !ok || id.Name != "unsafe" {
				continue
			}
			field := func(e ast.Expr) string {
				if s, ok := e.(*ast.SelectorExpr); ok {
					if id, ok := s.X.(*ast.Ident); ok && id.Name == rn {
						return s.Sel.Name
					}
				}
				return ""
			}
			a, b := field(c.Args[0]), field(c.Args[1])
			if a == "" || b == "" {
				continue
			}
			if read[tn] == nil {
				read[tn] = map[string]pair{}
			}
			read[tn][fd.Name.Name] = pair{a, b}
		}
	}
	out := map[string]leafFields{}
	for tn, m := range read {
		k, ok1 := m["getKey"]
		tk, ok2 := m["getTransformKey"]
		if ok1 && ok2 {
			out[tn] = leafFields{k.data, k.ln, tk.data, tk.ln}
		}
	}
	return out
}

const mutConventions = `   Conventions (go/cmd/srcfacts/translate_mut.go; the vocabulary and its stated Go meaning: Model/GoHeap.v, read it first).
   A method is a Definition, its loop a Fixpoint on fuel, both returning mres R (R = bool for Delete, unit for Insert):
     MDone h root size os p r  the method returns r; h the heap, root / size the fields t.root / t.size, os the pool
                               answers not consumed, p the pool
     MPanic                    the Go code panics here, or reads something the heap model has no value for
     MFuel                     the iteration budget (the parameter fuel, NOT trusted) is used up; one unit per loop body
   The state h root size os p is threaded through the statements IN SOURCE ORDER: "let h := .. in" is a write
   through a pointer, "let root := .." an assignment to t.root, "let size := .." to t.size; a step of the vocabulary
   that can fail (a write through a *nodeRef, addChild, deleteChild) is "match .. with None => MPanic | Some (h, ..) =>".
   Every pointer read is a read of the heap AS IT IS AT THAT STATEMENT (h is the current heap).
   The parameters after size are the results of t.<codec>.Transform(key) the method uses (the call is not translated:
   Gen/KeysGen.v); createLeaf() allocates the leaf its literal describes from the current values of the captured
   variables. int is Z and UNBOUNDED; uint8 / uint32 are N with the wrap of + and - written out (addw subw,
   u32_of_int of Model/GoArith.v); EVERY index a[i] and slice a[lo:] is checked (None: MPanic).
   A long continuation needed on several paths is bound once (let kN := fun .. => ..), with the state as parameters
   when the paths change it; "goto L" calls the local function that is the statements from the label L on.
   The statements after the loop are translated inside the loop function (at the exit of the loop).`

func emitMutTranslations(repo, outdir string) {
	var sb strings.Builder
	sb.WriteString("(* REGENERATED by go/cmd/srcfacts (translate_mut.go) from /repo's trees.go and collation.go on every run — do not edit.\n")
	sb.WriteString("   Delete and Insert of the six trees as heap-passing functions, statement by statement in source order;\n")
	sb.WriteString("   Proofs/TranslateMutFacts.v ties them to the hand-written model Model/PoolTree.v (xdo_delete, xdo_insert).\n")
	sb.WriteString(mutConventions + " *)\n")
	sb.WriteString("From GoArt Require Import Model.GoHeap.\nFrom Coq Require Import String.\nImport ListNotations.\nOpen Scope N_scope.\n")
	defer func() { writeIfChanged(filepath.Join(outdir, "MutGen.v"), sb.String()) }()

	fset := token.NewFileSet()
	matches, _ := filepath.Glob(filepath.Join(repo, "*.go"))
	sort.Strings(matches)
	var files []*ast.File
	for _, p := range matches {
		if strings.HasSuffix(p, "_test.go") {
			continue
		}
		f, err := parser.ParseFile(fset, p, nil, parser.ParseComments)
		must(err)
		if f.Name.Name != "art" || !buildTagsHold(f) {
			continue
		}
		files = append(files, f)
	}
	info := &types.Info{
		Types:      map[ast.Expr]types.TypeAndValue{},
		Defs:       map[*ast.Ident]types.Object{},
		Uses:       map[*ast.Ident]types.Object{},
		Selections: map[*ast.SelectorExpr]*types.Selection{},
	}
	var typeErrs []types.Error
	conf := types.Config{
		Importer: &treeImporter{fset: fset, pkgs: map[string]*types.Package{}},
		Error: func(err error) {
			if te, ok := err.(types.Error); ok {
				typeErrs = append(typeErrs, te)
			}
		},
	}
	conf.Check("art", fset, files, info)
	leaves := collectLeafFields(files)

	find := func(file, name, recv string) *ast.FuncDecl {
		for _, f := range files {
			if filepath.Base(fset.Position(f.Pos()).Filename) != file {
				continue
			}
			for _, d := range f.Decls {
				if fd, ok := d.(*ast.FuncDecl); ok && fd.Name.Name == name && recvTypeName(fd) == recv {
					return fd
				}
			}
		}
		return nil
	}
	consts := map[string]string{}
	var defs []string
	for _, tr := range treeOrder {
		file := "trees.go"
		if tr == "collationSortedTree" {
			file = "collation.go"
		}
		for _, m := range []string{"Delete", "Insert"} {
			coq := "g_" + treeShort[tr] + "_" + strings.ToLower(m)
			fd := find(file, m, tr)
			if fd == nil {
				fmt.Fprintln(os.Stderr, "srcfacts: translate mut: "+file+": method "+tr+"."+m+" not found")
				defs = append(defs, "(* "+file+": method "+tr+"."+m+" not found *)\nDefinition "+coq+" : untranslated := UNSUPPORTED \"not found\".\n")
				continue
			}
			for _, te := range typeErrs {
				if te.Pos >= fd.Pos() && te.Pos < fd.End() {
					fmt.Fprintf(os.Stderr, "srcfacts: translate mut: type error in %s: %s\n", coq, te.Msg)
				}
			}
			text, warn := translateMutMethod(fset, info, leaves, consts, fd, coq)
			if warn != "" {
				fmt.Fprintln(os.Stderr, "srcfacts: translate mut: UNSUPPORTED", warn)
			}
			defs = append(defs, text)
		}
	}
	var cnames []string
	for n := range consts {
		cnames = append(cnames, n)
	}
	sort.Strings(cnames)
	for _, n := range cnames {
		sb.WriteString("\n" + consts[n])
	}
	for _, d := range defs {
		sb.WriteString("\n" + d)
	}
}
