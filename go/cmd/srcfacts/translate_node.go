// translate_node.go: the translator of /repo/node.go (the four inner node types
// node4 / node16 / node48 / node256: clear, addChild, deleteChild; the dispatchers
// findChild / addChild / deleteChild on *nodeRef) to state-passing Gallina, re-run on
// every run. Output: Gen/NodeGen.v, one definition g_<type>_<method> per method
// (g_<method> for the methods of *nodeRef). Proofs/TranslateNodeFacts.v proves each
// regenerated definition equal to the hand-written model (Model/Pool.v: xclear, xadd4 ..
// xadd256, xdel4 .. xdel256, xadd, xdel; Model/PoolTree.v: xfind, xdel_child), so an
// edit of node.go that changes what a method does breaks a theorem.
//
// The vocabulary the output is written in is Model/GoNode.v (hand-written, trusted,
// every definition commented with the Go construct it stands for).
//
// Types come from go/types: node.go is checked together with node4.go,
// node16_other.go and pool.go against stubs of sync and math/bits ("unsafe" is
// go/types' own); the interface declarations of node.go (which mention the leaf
// types of other files) are left out.
//
// State-passing: a Go pointer variable of type *nodeK is a Coq variable holding the
// node VALUE; a write through the pointer rebinds the variable. The pool is a
// variable p, the oracle's remaining answers a variable os. `*ref` is tracked
// symbolically: it is "the value of variable X" from `*ref = nodeRef{pointer:
// unsafe.Pointer(X), tag: nodeKindK}` (or `*ref = x` for a nodeRef variable x) on, so
// that later writes through X are writes to the result; the result of a method with a
// `ref *nodeRef` parameter is the final `*ref` (and the pool). Calling convention
// assumed at entry and checked at every call inside node.go: ref points to the receiver.
// Soundness checks instead of an alias analysis: a variable passed (with ref) to a
// method that may release it, or Put into the pool, is dead afterwards (any use is
// UNSUPPORTED); after a write through x.node() the array the nodeRef x was copied
// from may not be read.
//
// Supported fragment (anything else makes the whole method UNSUPPORTED):
//
//	statements  x := e   x = e   x op= e (+ -)   x++   x--   var x T   on locals of type uint8 /
//	            uint32 / int / nodeRef and on the places  n.f  n.f[i]  n.children[i].pointer (= nil)
//	            h.f  h.f[i]  (h := x.node());  n.node = node{};  copy(P[lo:hi], S)  clear(P[:])
//	            setAtPos(&n.keys, i, b)  shiftLeftClear(&n.keys, i)  shiftRightClear(&n.keys, i)
//	            x := nodePools[nodeKindK].Get().(*nodeK)   nodePools[nodeKindK].Put(x)
//	            *ref = nodeRef{pointer: unsafe.Pointer(x), tag: nodeKindK}   *ref = x
//	            x := (*nodeK)(ref.pointer)  (under `case nodeKindK` of `switch ref.tag`)
//	            x.m(...) for the methods of node.go (ref passed on as ref)
//	            if / else if / else (with an init statement); an if that only assigns is the
//	            value of the variables it assigns, an if that returns / touches the pool /
//	            assigns *ref / calls a method gets the rest of the function in both branches
//	            switch ref.tag { case nodeKindK: ... default: panic(...) }  -> match xkind
//	            for i := 0; i < N; i++ {assignments}  (N a constant or an expression the body does
//	            not change) -> fold_left over seq 0 N;   for a[v] ... { v++ } -> go_while, fuel len(a)
//	            return   return nil   return &n.children[i]  (a *nodeRef result is the CONTENT of
//	            the cell: a nil pointer and a pointer to a nil cell are both None, as in PoolTree.xfind)
//	expressions constants (folded by go/types), locals, the places above, + - on uint8 (add8 sub8) /
//	            uint32 (add32 sub32) / int (Z), == != < <= > >=, && || !, min, uint8() uint32() int(),
//	            x.pointer != nil, x.tag != nodeKindLeaf, a[lo:hi] as a copy source, the routines of
//	            node4.go / node16_other.go (as calls of their MODELS, Model/Node4.v, Model/Node16.v)
package main

import (
	"bytes"
	"fmt"
	"go/ast"
	"go/constant"
	"go/parser"
	"go/printer"
	"go/token"
	"go/types"
	"os"
	"path/filepath"
	"sort"
	"strings"
)

const syncStubSrc = `package sync
type Pool struct{ New func() any }
func (p *Pool) Get() any { return nil }
func (p *Pool) Put(x any) {}
`

type nodeImporter struct {
	fset *token.FileSet
	pkgs map[string]*types.Package
}

func (im *nodeImporter) Import(path string) (*types.Package, error) {
	if p, ok := im.pkgs[path]; ok {
		return p, nil
	}
	var src string
	switch path {
	case "unsafe":
		return types.Unsafe, nil
	case "sync":
		src = syncStubSrc
	case "math/bits":
		src = bitsStubSrc
	default:
		return nil, fmt.Errorf("import %q is outside the translated fragment", path)
	}
	f, err := parser.ParseFile(im.fset, strings.ReplaceAll(path, "/", "_")+"_stub.go", src, 0)
	if err != nil {
		return nil, err
	}
	p, err := (&types.Config{}).Check(path, im.fset, []*ast.File{f}, nil)
	if err != nil {
		return nil, err
	}
	im.pkgs[path] = p
	return p, nil
}

// ---------------------------------------------------------------- sorts

type nKind int

const (
	nBad    nKind = iota
	nBool         // bool
	nU8           // N, < 2^8
	nU32          // N, < 2^32
	nInt          // Z, unbounded
	nBytes        // list N: [n]byte, []byte
	nCells        // list (option C): [n]nodeRef
	nCell         // option C: a nodeRef value
	nChild        // C: a nodeRef parameter (never the zero nodeRef)
	nNode         // xnode C: *node4 / *node16 / *node48 / *node256
	nHdr          // xhdr: a struct node value
	nHdrPtr       // *node obtained by x.node() from a nodeRef variable x
	nRefPtr       // *nodeRef
)

type nSort struct {
	k    nKind
	node string // nNode: the Go type name; "" when only known through the tag
	n    int64  // nBytes / nCells: the array length, -1 for a slice
}

func (s nSort) String() string {
	switch s.k {
	case nBool:
		return "bool"
	case nU8:
		return "uint8"
	case nU32:
		return "uint32"
	case nInt:
		return "int"
	case nBytes:
		return "bytes"
	case nCells:
		return "[]nodeRef"
	case nCell:
		return "nodeRef"
	case nChild:
		return "nodeRef parameter"
	case nNode:
		return "*" + s.node
	case nHdr:
		return "node"
	case nHdrPtr:
		return "*node"
	case nRefPtr:
		return "*nodeRef"
	}
	return "?"
}

var nodeCoqKind = map[string]string{"node4": "K4", "node16": "K16", "node48": "K48", "node256": "K256"}

// the package as far as the node translator needs it
type nodePkg struct {
	fset      *token.FileSet
	info      *types.Info
	pkg       *types.Package
	poolKinds map[int64]string // index into nodePools -> node type name (pool.go)
	kindOrder []string         // node type names in pool order
	methods   map[*types.Func]*nodeMethod
	order     []*nodeMethod
}

func (np *nodePkg) named(t types.Type, name string) bool {
	n, ok := t.(*types.Named)
	return ok && n.Obj().Pkg() == np.pkg && n.Obj().Name() == name
}

// is t one of the four inner node struct types?
func (np *nodePkg) nodeTypeName(t types.Type) (string, bool) {
	n, ok := t.(*types.Named)
	if !ok || n.Obj().Pkg() != np.pkg {
		return "", false
	}
	if _, ok := nodeCoqKind[n.Obj().Name()]; !ok {
		return "", false
	}
	st, ok := n.Underlying().(*types.Struct)
	if !ok || st.NumFields() == 0 || !st.Field(0).Embedded() || !np.named(st.Field(0).Type(), "node") {
		return "", false
	}
	return n.Obj().Name(), true
}

func (np *nodePkg) sortOfType(t types.Type) nSort {
	if t == nil {
		return nSort{}
	}
	if np.named(t, "nodeRef") {
		return nSort{k: nCell}
	}
	if np.named(t, "node") {
		return nSort{k: nHdr}
	}
	if _, isNamed := t.(*types.Named); isNamed {
		if _, basic := t.Underlying().(*types.Basic); basic {
			return nSort{} // nodeKind: tags are handled where they are compared
		}
	}
	switch u := t.Underlying().(type) {
	case *types.Basic:
		switch u.Kind() {
		case types.Bool, types.UntypedBool:
			return nSort{k: nBool}
		case types.Uint8:
			return nSort{k: nU8}
		case types.Uint32:
			return nSort{k: nU32}
		case types.Int, types.UntypedInt:
			return nSort{k: nInt}
		}
	case *types.Array:
		if isByte(u.Elem()) {
			return nSort{k: nBytes, n: u.Len()}
		}
		if np.named(u.Elem(), "nodeRef") {
			return nSort{k: nCells, n: u.Len()}
		}
	case *types.Slice:
		if isByte(u.Elem()) {
			return nSort{k: nBytes, n: -1}
		}
		if np.named(u.Elem(), "nodeRef") {
			return nSort{k: nCells, n: -1}
		}
	case *types.Pointer:
		if name, ok := np.nodeTypeName(u.Elem()); ok {
			return nSort{k: nNode, node: name}
		}
		if np.named(u.Elem(), "node") {
			return nSort{k: nHdrPtr}
		}
		if np.named(u.Elem(), "nodeRef") {
			return nSort{k: nRefPtr}
		}
		if a, ok := u.Elem().Underlying().(*types.Array); ok && isByte(a.Elem()) {
			return nSort{k: nBytes, n: a.Len()}
		}
	}
	return nSort{}
}

func nLit(v constant.Value, s nSort) (string, bool) {
	if v == nil {
		return "", false
	}
	switch s.k {
	case nBool:
		if v.Kind() == constant.Bool {
			if constant.BoolVal(v) {
				return "true", true
			}
			return "false", true
		}
	case nU8, nU32:
		return natLit(v)
	case nInt:
		iv := constant.ToInt(v)
		if iv.Kind() != constant.Int {
			return "", false
		}
		if constant.Sign(iv) < 0 {
			l, ok := natLit(constant.UnaryOp(token.SUB, iv, 0))
			return "(-" + l + ")%Z", ok
		}
		l, ok := natLit(iv)
		return l + "%Z", ok
	}
	return "", false
}

// ---------------------------------------------------------------- methods

type nodeMethod struct {
	fd       *ast.FuncDecl
	fn       *types.Func
	recvSort nSort  // nNode (with its type) or nRefPtr
	defName  string // g_node4_addChild, g_addChild
	refObj   types.Object
	usesPool bool
	refCell  bool // the final *ref is a nodeRef value (option C), not a node
	resCell  bool // the method has a *nodeRef result (findChild)
	calls    []*nodeMethod
	text     string
	failed   string
}

func (m *nodeMethod) hasRef() bool { return m.refObj != nil }

// ---------------------------------------------------------------- per-method translator

type nVar struct {
	obj      types.Object
	sort     nSort
	name     string
	hdrOf    *nVar // nHdrPtr: the nodeRef variable x of x.node()
	copiedOf *nVar // nCell: the node variable whose children cell was copied into it
}

type nPath struct {
	dead    map[*nVar]string // why the variable may not be used any more
	stale   map[*nVar]bool   // node variables whose children array holds a stale copy of a rewritten child
	refVar  *nVar            // the variable whose value is *ref
	osOK    bool             // the oracle variable is still the list of remaining answers
	kindCtx string           // inside `case nodeKindK`: the node type of the pointee of ref
}

func (p *nPath) clone() *nPath {
	q := &nPath{dead: map[*nVar]string{}, stale: map[*nVar]bool{}, refVar: p.refVar, osOK: p.osOK, kindCtx: p.kindCtx}
	for k, v := range p.dead {
		q.dead[k] = v
	}
	for k, v := range p.stale {
		q.stale[k] = v
	}
	return q
}

type nRec struct {
	pos, end token.Pos
	vars     []*nVar
	seen     map[*nVar]bool
}

type nodeTr struct {
	*fnTr
	np    *nodePkg
	m     *nodeMethod
	vars  map[types.Object]*nVar
	st    *nPath
	recs  []*nRec
	osN   string
	pN    string
	recvV *nVar
}

const nTailMark = "\x00TAIL\x00"

var nodeVocabulary = strings.Fields(`C inner is_leaf hdr_of with_hdr xnode xhdr pool choice option list
	add8 sub8 add32 sub32 go_while not_nil f_childrenLen f_prefixLen f_prefix f_children f_keys4 f_keysB
	s_node s_childrenLen s_prefixLen s_prefix s_children s_keys4 s_keysB h_childrenLen h_prefixLen h_prefix
	hs_childrenLen hs_prefixLen hs_prefix cell_is_leaf cell_hdr cell_set_hdr xhdr0 xkind K4 K16 K48 K256
	get put nxt tl hd gcopy set_at nth skipn firstn repeat seq fold_left Some None fst snd
	searchNode4 insertPosNode4 getAtPos setAtPos shiftLeftClear shiftRightClear construct deconstruct
	searchNode16 insertPosNode16 u8_of_int u32_of_int u8 min max length app xh xch xlen xplen xprefix`)

func (t *nodeTr) live(v *nVar, at ast.Node) {
	if why, ok := t.st.dead[v]; ok {
		t.fail(at, "use of "+v.name+" after it "+why)
	}
}

func (t *nodeTr) declare(obj types.Object, s nSort, at ast.Node) *nVar {
	if obj == nil {
		t.fail(at, "declaration")
	}
	v := &nVar{obj: obj, sort: s, name: t.nameOf(obj)}
	t.vars[obj] = v
	return v
}

func (t *nodeTr) varOf(e ast.Expr) *nVar {
	id, ok := ast.Unparen(e).(*ast.Ident)
	if !ok {
		return nil
	}
	obj := t.info.Uses[id]
	if obj == nil {
		obj = t.info.Defs[id]
	}
	return t.vars[obj]
}

// record: variable v is rebound; every enclosing value-scope it is declared outside of yields it
func (t *nodeTr) record(v *nVar) {
	for _, r := range t.recs {
		if v.obj.Pos() >= r.pos && v.obj.Pos() < r.end {
			continue
		}
		if !r.seen[v] {
			r.seen[v] = true
			r.vars = append(r.vars, v)
		}
	}
}

func (t *nodeTr) pushRec(n ast.Node) *nRec {
	r := &nRec{pos: n.Pos(), end: n.End(), seen: map[*nVar]bool{}}
	t.recs = append(t.recs, r)
	return r
}

func (t *nodeTr) popRec() { t.recs = t.recs[:len(t.recs)-1] }

func nTuple(vars []*nVar) (pat, val string) {
	var ns []string
	for _, v := range vars {
		ns = append(ns, v.name)
	}
	if len(ns) == 1 {
		return ns[0], ns[0]
	}
	return "'(" + strings.Join(ns, ", ") + ")", "(" + strings.Join(ns, ", ") + ")"
}

// ---------------------------------------------------------------- places

// a place is something that can be read and / or assigned: a local, a field of a node read through
// a pointer variable, an element of an array place, the .pointer / .tag of a nodeRef place
type nPlace struct {
	sort    nSort
	root    *nVar
	read    func() string
	write   func(v string) (*nVar, string) // the variable to rebind and its new value
	special string                         // "pointer" / "tag" of the nodeRef place base
	base    *nPlace
}

func (t *nodeTr) natIndex(e ast.Expr) string {
	if tv, ok := t.info.Types[e]; ok && tv.Value != nil {
		n, exact := constant.Uint64Val(constant.ToInt(tv.Value))
		if !exact {
			t.fail(e, "index constant")
		}
		return fmt.Sprintf("%d%%nat", n)
	}
	c, s := t.expr(e)
	switch s.k {
	case nU8, nU32:
		return app("N.to_nat", c)
	case nInt:
		return app("Z.to_nat", c) // a negative index panics in Go
	}
	t.fail(e, "index type")
	return ""
}

// an int position argument of the node4.go routines, which the models take as N
func (t *nodeTr) posN(e ast.Expr) string {
	if tv, ok := t.info.Types[e]; ok && tv.Value != nil {
		if l, ok := natLit(tv.Value); ok {
			return l
		}
		t.fail(e, "position constant")
	}
	c, s := t.expr(e)
	if s.k != nInt {
		t.fail(e, "position type")
	}
	return app("Z.to_N", c)
}

func (t *nodeTr) fieldSort(sel *ast.SelectorExpr) nSort {
	s, ok := t.info.Selections[sel]
	if !ok || s.Kind() != types.FieldVal {
		t.fail(sel, "selector that is not a field")
	}
	return t.np.sortOfType(s.Type())
}

func (t *nodeTr) nodeField(v *nVar, sel *ast.SelectorExpr) *nPlace {
	fs := t.fieldSort(sel)
	var get, set string
	switch f := sel.Sel.Name; {
	case f == "childrenLen" && fs.k == nU8:
		get, set = "f_childrenLen", "s_childrenLen"
	case f == "prefixLen" && fs.k == nU32:
		get, set = "f_prefixLen", "s_prefixLen"
	case f == "prefix" && fs.k == nBytes && fs.n >= 0:
		get, set = "f_prefix", "s_prefix"
	case f == "children" && fs.k == nCells && fs.n >= 0:
		get, set = "f_children", "s_children"
	case f == "keys" && fs.k == nU32 && v.sort.node == "node4":
		get, set = "f_keys4", "s_keys4"
	case f == "keys" && fs.k == nBytes && fs.n >= 0 && (v.sort.node == "node16" || v.sort.node == "node48"):
		get, set = "f_keysB", "s_keysB"
	case f == "node" && fs.k == nHdr:
		get, set = "xh", "s_node"
	default:
		t.fail(sel, fmt.Sprintf("field %s of type %s of a %s", sel.Sel.Name, fs, v.sort))
	}
	isChildren := sel.Sel.Name == "children"
	return &nPlace{sort: fs, root: v,
		read: func() string {
			if isChildren && t.st.stale[v] {
				t.fail(sel, "read of "+v.name+".children after a write through the node() of a nodeRef copied from it (the array holds the child as it was before)")
			}
			return app(get, v.name)
		},
		write: func(val string) (*nVar, string) { return v, set + " " + val + " " + v.name }}
}

func (t *nodeTr) hdrField(v *nVar, sel *ast.SelectorExpr) *nPlace {
	fs := t.fieldSort(sel)
	c := v.hdrOf
	var get, set string
	switch f := sel.Sel.Name; {
	case f == "childrenLen" && fs.k == nU8:
		get, set = "h_childrenLen", "hs_childrenLen"
	case f == "prefixLen" && fs.k == nU32:
		get, set = "h_prefixLen", "hs_prefixLen"
	case f == "prefix" && fs.k == nBytes && fs.n >= 0:
		get, set = "h_prefix", "hs_prefix"
	default:
		t.fail(sel, fmt.Sprintf("field %s of type %s of a *node", sel.Sel.Name, fs))
	}
	hdr := func() string { t.live(c, sel); return app("cell_hdr", "hdr_of", c.name) }
	return &nPlace{sort: fs, root: c,
		read: func() string { return app(get, hdr()) },
		write: func(val string) (*nVar, string) {
			if c.copiedOf != nil {
				t.st.stale[c.copiedOf] = true
			}
			return c, "cell_set_hdr with_hdr " + app(set, val, hdr()) + " " + c.name
		}}
}

func (t *nodeTr) place(e ast.Expr) *nPlace {
	e = ast.Unparen(e)
	switch x := e.(type) {
	case *ast.Ident:
		v := t.varOf(x)
		if v == nil {
			t.fail(e, "identifier outside the fragment")
		}
		t.live(v, e)
		p := &nPlace{sort: v.sort, root: v, read: func() string { return v.name }}
		switch v.sort.k {
		case nBool, nU8, nU32, nInt, nCell:
			p.write = func(val string) (*nVar, string) { return v, val }
		}
		return p
	case *ast.SelectorExpr:
		if v := t.varOf(x.X); v != nil {
			switch v.sort.k {
			case nNode:
				t.live(v, e)
				return t.nodeField(v, x)
			case nHdrPtr:
				return t.hdrField(v, x)
			}
		}
		if x.Sel.Name == "pointer" || x.Sel.Name == "tag" {
			b := t.place(x.X)
			if b.sort.k == nCell || b.sort.k == nChild {
				return &nPlace{special: x.Sel.Name, base: b, root: b.root}
			}
		}
		t.fail(e, "selector outside the fragment")
	case *ast.IndexExpr:
		b := t.place(x.X)
		if b.special != "" || (b.sort.k != nBytes && b.sort.k != nCells) || b.read == nil {
			t.fail(e, "index of something that is not a byte / nodeRef array")
		}
		idx := t.natIndex(x.Index)
		es, d := nSort{k: nU8}, "0"
		if b.sort.k == nCells {
			es, d = nSort{k: nCell}, "None"
		}
		p := &nPlace{sort: es, root: b.root,
			read: func() string { return app("nth", idx, b.read(), d) }} // an index out of range panics in Go
		if b.write != nil {
			p.write = func(val string) (*nVar, string) { return b.write(app("set_at", idx, val, b.read())) }
		}
		return p
	}
	t.fail(e, "expression that is not a variable, a field or an array element")
	return nil
}

// the nodeRef value of a place, as an option C
func (t *nodeTr) cellCode(p *nPlace, at ast.Node) string {
	if p.special != "" || p.read == nil {
		t.fail(at, "nodeRef value")
	}
	switch p.sort.k {
	case nCell:
		return p.read()
	case nChild:
		return app("Some", p.read())
	}
	t.fail(at, "nodeRef value")
	return ""
}

// ---------------------------------------------------------------- expressions

func isNilIdent(info *types.Info, e ast.Expr) bool {
	id, ok := ast.Unparen(e).(*ast.Ident)
	if !ok {
		return false
	}
	_, isNil := info.Uses[id].(*types.Nil)
	return isNil
}

func (t *nodeTr) pkgFuncName(fun ast.Expr) (string, bool) {
	id, ok := ast.Unparen(fun).(*ast.Ident)
	if !ok {
		return "", false
	}
	f, ok := t.info.Uses[id].(*types.Func)
	if !ok || f.Pkg() != t.np.pkg || f.Type().(*types.Signature).Recv() != nil {
		return "", false
	}
	return f.Name(), true
}

func (t *nodeTr) builtinName(fun ast.Expr) (string, bool) {
	id, ok := ast.Unparen(fun).(*ast.Ident)
	if !ok {
		return "", false
	}
	b, ok := t.info.Uses[id].(*types.Builtin)
	if !ok {
		return "", false
	}
	return b.Name(), true
}

// argument letters: w uint32, b uint8, p int position (N in the model), A &[16]byte
var nodeModelFuncs = map[string]struct {
	args string
	res  nSort
}{
	"searchNode4":     {"wb", nSort{k: nInt}},
	"insertPosNode4":  {"wb", nSort{k: nInt}},
	"getAtPos":        {"wp", nSort{k: nU8}},
	"construct":       {"bbbb", nSort{k: nU32}},
	"deconstruct":     {"w", nSort{k: nBytes, n: -1}},
	"searchNode16":    {"Abb", nSort{k: nInt}},
	"insertPosNode16": {"Abb", nSort{k: nInt}},
}

// routines with a *uint32 in/out first argument: the letters of the remaining arguments
var nodeInOutFuncs = map[string]string{"setAtPos": "pb", "shiftLeftClear": "p", "shiftRightClear": "p"}

func (t *nodeTr) modelArgs(call *ast.CallExpr, letters string, args []ast.Expr) []string {
	if len(args) != len(letters) {
		t.fail(call, "number of arguments")
	}
	var out []string
	for i, a := range args {
		switch letters[i] {
		case 'p':
			out = append(out, t.posN(a))
		case 'A':
			u, ok := ast.Unparen(a).(*ast.UnaryExpr)
			if !ok || u.Op != token.AND {
				t.fail(a, "array argument that is not &n.keys")
			}
			p := t.place(u.X)
			if p.special != "" || p.sort.k != nBytes || p.sort.n != 16 || p.read == nil {
				t.fail(a, "array argument that is not a [16]byte")
			}
			out = append(out, p.read())
		default:
			c, s := t.expr(a)
			if (letters[i] == 'w' && s.k != nU32) || (letters[i] == 'b' && s.k != nU8) {
				t.fail(a, "argument type")
			}
			out = append(out, c)
		}
	}
	return out
}

func (t *nodeTr) sliceValue(x *ast.SliceExpr) (string, nSort) {
	if x.Slice3 {
		t.fail(x, "three-index slice")
	}
	b, s := t.expr(x.X)
	if s.k != nBytes && s.k != nCells {
		t.fail(x, "slice of something that is not a byte / nodeRef array")
	}
	rs := nSort{k: s.k, n: -1}
	switch {
	case x.Low == nil && x.High == nil:
		return b, rs
	case x.High == nil:
		return app("skipn", t.natIndex(x.Low), b), rs
	case x.Low == nil:
		return app("firstn", t.natIndex(x.High), b), rs
	}
	lo := t.natIndex(x.Low)
	return app("firstn", "("+t.natIndex(x.High)+" - "+lo+")%nat", app("skipn", lo, b)), rs
}

func (t *nodeTr) expr(e ast.Expr) (string, nSort) {
	e = ast.Unparen(e)
	if tv, ok := t.info.Types[e]; ok && tv.Value != nil {
		s := t.np.sortOfType(tv.Type)
		if l, ok := nLit(tv.Value, s); ok {
			return l, s
		}
		t.fail(e, "constant outside the fragment")
	}
	switch x := e.(type) {
	case *ast.Ident, *ast.SelectorExpr, *ast.IndexExpr:
		p := t.place(e)
		if p.special != "" || p.read == nil {
			t.fail(e, "the pointer / tag of a nodeRef used as a value")
		}
		switch p.sort.k {
		case nNode, nHdrPtr, nRefPtr, nBad:
			t.fail(e, "a pointer used as a value")
		}
		return p.read(), p.sort
	case *ast.CompositeLit:
		if tv, ok := t.info.Types[e]; ok && t.np.named(tv.Type, "node") && len(x.Elts) == 0 {
			return "xhdr0", nSort{k: nHdr}
		}
		t.fail(e, "composite literal outside the fragment (only node{})")
	case *ast.SliceExpr:
		return t.sliceValue(x)
	case *ast.UnaryExpr:
		if x.Op == token.NOT {
			a, s := t.expr(x.X)
			if s.k == nBool {
				return app("negb", a), s
			}
		}
		t.fail(e, "unary operator outside the fragment")
	case *ast.BinaryExpr:
		return t.binary(x)
	case *ast.CallExpr:
		return t.call(x)
	}
	t.fail(e, "expression outside the fragment")
	return "", nSort{}
}

func (t *nodeTr) binary(x *ast.BinaryExpr) (string, nSort) {
	bo := nSort{k: nBool}
	if x.Op == token.EQL || x.Op == token.NEQ {
		l, r := x.X, x.Y
		if isNilIdent(t.info, l) {
			l, r = r, l
		}
		if isNilIdent(t.info, r) { // x.pointer ==/!= nil
			p := t.place(l)
			if p.special != "pointer" {
				t.fail(x, "comparison with nil of something that is not the pointer of a nodeRef")
			}
			c := app("not_nil", t.cellCode(p.base, x))
			if x.Op == token.EQL {
				c = app("negb", c)
			}
			return c, bo
		}
		if sel, ok := ast.Unparen(l).(*ast.SelectorExpr); ok && sel.Sel.Name == "tag" {
			p := t.place(l)
			tv, ok := t.info.Types[r]
			if p.special != "tag" || !ok || tv.Value == nil {
				t.fail(x, "tag comparison")
			}
			v, exact := constant.Int64Val(constant.ToInt(tv.Value))
			if _, isPool := t.np.poolKinds[v]; !exact || isPool || !t.isLeafTag(r) {
				t.fail(x, "tag comparison with something else than nodeKindLeaf")
			}
			c := app("cell_is_leaf", "is_leaf", t.cellCode(p.base, x))
			if x.Op == token.NEQ {
				c = app("negb", c)
			}
			return c, bo
		}
	}
	a, sa := t.expr(x.X)
	b, sb := t.expr(x.Y)
	if sa.k != sb.k {
		t.fail(x, fmt.Sprintf("operands of different types (%s, %s)", sa, sb))
	}
	pre := "N."
	if sa.k == nInt {
		pre = "Z."
	}
	num := sa.k == nU8 || sa.k == nU32 || sa.k == nInt
	switch x.Op {
	case token.ADD, token.SUB:
		f := map[token.Token]string{token.ADD: "add", token.SUB: "sub"}[x.Op]
		switch sa.k {
		case nU8:
			return app(f+"8", a, b), sa // wraps mod 2^8
		case nU32:
			return app(f+"32", a, b), sa // wraps mod 2^32
		case nInt:
			return app("Z."+f, a, b), sa // unbounded
		}
	case token.EQL, token.NEQ, token.LSS, token.LEQ, token.GTR, token.GEQ:
		if !num {
			t.fail(x, "comparison at this type")
		}
		switch x.Op {
		case token.EQL:
			return app(pre+"eqb", a, b), bo
		case token.NEQ:
			return app("negb", app(pre+"eqb", a, b)), bo
		case token.LSS:
			return app(pre+"ltb", a, b), bo
		case token.LEQ:
			return app(pre+"leb", a, b), bo
		case token.GTR:
			return app(pre+"ltb", b, a), bo
		case token.GEQ:
			return app(pre+"leb", b, a), bo
		}
	case token.LAND:
		if sa.k == nBool {
			return app("andb", a, b), bo
		}
	case token.LOR:
		if sa.k == nBool {
			return app("orb", a, b), bo
		}
	}
	t.fail(x, "binary operator outside the fragment")
	return "", nSort{}
}

func (t *nodeTr) isLeafTag(e ast.Expr) bool {
	id, ok := ast.Unparen(e).(*ast.Ident)
	if !ok {
		return false
	}
	c, ok := t.info.Uses[id].(*types.Const)
	return ok && c.Pkg() == t.np.pkg && c.Name() == "nodeKindLeaf"
}

func (t *nodeTr) call(x *ast.CallExpr) (string, nSort) {
	if x.Ellipsis != token.NoPos {
		t.fail(x, "call outside the fragment")
	}
	fun := ast.Unparen(x.Fun)
	if tv, ok := t.info.Types[fun]; ok && tv.IsType() { // conversion
		if len(x.Args) != 1 {
			t.fail(x, "conversion")
		}
		to := t.np.sortOfType(tv.Type)
		a, from := t.expr(x.Args[0])
		switch {
		case to.k == from.k && (to.k == nU8 || to.k == nU32 || to.k == nInt):
			return a, to
		case to.k == nInt && (from.k == nU8 || from.k == nU32):
			return app("Z.of_N", a), to
		case to.k == nU8 && from.k == nInt:
			return app("u8_of_int", a), to
		case to.k == nU8 && from.k == nU32:
			return "(" + a + " mod 256)", to
		case to.k == nU32 && from.k == nU8:
			return a, to
		case to.k == nU32 && from.k == nInt:
			return app("u32_of_int", a), to
		}
		t.fail(x, fmt.Sprintf("conversion of %s to %s", from, to))
	}
	if name, ok := t.builtinName(fun); ok && name == "min" && len(x.Args) == 2 {
		a, sa := t.expr(x.Args[0])
		b, sb := t.expr(x.Args[1])
		if sa.k == sb.k {
			switch sa.k {
			case nU8, nU32:
				return app("N.min", a, b), sa
			case nInt:
				return app("Z.min", a, b), sa
			}
		}
		t.fail(x, "min at this type")
	}
	if name, ok := t.pkgFuncName(fun); ok {
		if mf, ok := nodeModelFuncs[name]; ok {
			return app(name, t.modelArgs(x, mf.args, x.Args)...), mf.res
		}
	}
	t.fail(x, "call outside the fragment")
	return "", nSort{}
}

// ---------------------------------------------------------------- statements

func (t *nodeTr) arith(at ast.Node, op token.Token, a, b string, s nSort) string {
	f := map[token.Token]string{token.ADD: "add", token.SUB: "sub"}[op]
	switch s.k {
	case nU8:
		return app(f+"8", a, b)
	case nU32:
		return app(f+"32", a, b)
	case nInt:
		return app("Z."+f, a, b)
	}
	t.fail(at, "arithmetic at this type")
	return ""
}

func one(s nSort) string {
	if s.k == nInt {
		return "1%Z"
	}
	return "1"
}

// the value assigned to place p by `p = rhs`
func (t *nodeTr) rhsFor(p *nPlace, rhs ast.Expr, at ast.Node) string {
	if p.special != "" {
		t.fail(at, "assignment to the pointer / tag of a nodeRef")
	}
	switch p.sort.k {
	case nCell:
		return t.cellCode(t.place(rhs), at)
	case nBool, nU8, nU32, nInt, nHdr:
		c, s := t.expr(rhs)
		if s.k != p.sort.k {
			t.fail(at, fmt.Sprintf("assignment between different types (%s, %s)", p.sort, s))
		}
		return c
	case nBytes, nCells: // array assignment: a copy of all elements
		c, s := t.expr(rhs)
		if s.k != p.sort.k || s.n != p.sort.n || s.n < 0 {
			t.fail(at, fmt.Sprintf("assignment between different types (%s, %s)", p.sort, s))
		}
		return c
	}
	t.fail(at, "assignment at this type")
	return ""
}

func (t *nodeTr) isRefDeref(e ast.Expr) bool {
	st, ok := ast.Unparen(e).(*ast.StarExpr)
	if !ok {
		return false
	}
	id, ok := ast.Unparen(st.X).(*ast.Ident)
	return ok && t.m.refObj != nil && t.info.Uses[id] == t.m.refObj
}

func (t *nodeTr) isRefIdent(e ast.Expr) bool {
	id, ok := ast.Unparen(e).(*ast.Ident)
	return ok && t.m.refObj != nil && t.info.Uses[id] == t.m.refObj
}

// nodePools[nodeKindK] -> the node type of that pool
func (t *nodeTr) poolOf(e ast.Expr) (string, bool) {
	ix, ok := ast.Unparen(e).(*ast.IndexExpr)
	if !ok {
		return "", false
	}
	id, ok := ast.Unparen(ix.X).(*ast.Ident)
	if !ok {
		return "", false
	}
	v, ok := t.info.Uses[id].(*types.Var)
	if !ok || v.Pkg() != t.np.pkg || v.Parent() != t.np.pkg.Scope() || v.Name() != "nodePools" {
		return "", false
	}
	tv, ok := t.info.Types[ix.Index]
	if !ok || tv.Value == nil {
		return "", false
	}
	k, exact := constant.Int64Val(constant.ToInt(tv.Value))
	name, ok := t.np.poolKinds[k]
	return name, ok && exact
}

func (t *nodeTr) poolMethod(call *ast.CallExpr, name string) (string, bool) {
	sel, ok := ast.Unparen(call.Fun).(*ast.SelectorExpr)
	if !ok || sel.Sel.Name != name {
		return "", false
	}
	f, ok := t.info.Uses[sel.Sel].(*types.Func)
	if !ok || f.Pkg() == nil || f.Pkg().Path() != "sync" {
		return "", false
	}
	return t.poolOf(sel.X)
}

func (t *nodeTr) hasEffects(n ast.Node) bool {
	found := false
	ast.Inspect(n, func(m ast.Node) bool {
		switch y := m.(type) {
		case *ast.ReturnStmt, *ast.BranchStmt, *ast.FuncLit, *ast.DeferStmt, *ast.GoStmt, *ast.LabeledStmt,
			*ast.SwitchStmt, *ast.TypeSwitchStmt, *ast.SelectStmt, *ast.TypeAssertExpr:
			found = true
		case *ast.Ident:
			switch obj := t.info.Uses[y].(type) {
			case *types.Var:
				if obj == t.m.refObj || (obj.Pkg() == t.np.pkg && obj.Parent() == t.np.pkg.Scope()) {
					found = true
				}
			case *types.Func:
				if _, ok := t.np.methods[obj]; ok {
					found = true
				}
			}
		}
		return !found
	})
	return found
}

func (t *nodeTr) cond(e ast.Expr) string {
	c, s := t.expr(e)
	if s.k != nBool {
		t.fail(e, "condition")
	}
	return top(c)
}

func isPanicOnly(list []ast.Stmt) bool {
	if len(list) != 1 {
		return false
	}
	es, ok := list[0].(*ast.ExprStmt)
	if !ok {
		return false
	}
	c, ok := es.X.(*ast.CallExpr)
	if !ok {
		return false
	}
	id, ok := c.Fun.(*ast.Ident)
	return ok && id.Name == "panic"
}

// the root variables an expression mentions
func (t *nodeTr) mentioned(e ast.Node) map[*nVar]bool {
	out := map[*nVar]bool{}
	ast.Inspect(e, func(n ast.Node) bool {
		if id, ok := n.(*ast.Ident); ok {
			if v := t.vars[t.info.Uses[id]]; v != nil {
				out[v] = true
				if v.hdrOf != nil {
					out[v.hdrOf] = true
				}
			}
		}
		return true
	})
	return out
}

func (t *nodeTr) assignsTo(body ast.Node, obj types.Object) bool {
	found := false
	ast.Inspect(body, func(n ast.Node) bool {
		check := func(e ast.Expr) {
			if id, ok := ast.Unparen(e).(*ast.Ident); ok && (t.info.Uses[id] == obj || t.info.Defs[id] == obj) {
				found = true
			}
		}
		switch s := n.(type) {
		case *ast.AssignStmt:
			for _, l := range s.Lhs {
				check(l)
			}
		case *ast.IncDecStmt:
			check(s.X)
		case *ast.UnaryExpr:
			if s.Op == token.AND {
				check(s.X)
			}
		}
		return !found
	})
	return found
}

func (t *nodeTr) stmts(list []ast.Stmt, tail func() string, ind string) string {
	if len(list) == 0 {
		return ind + tail()
	}
	st, rest := list[0], list[1:]
	cont := func() string { return t.stmts(rest, tail, ind) }
	let := func(v *nVar, code string) string {
		t.record(v)
		return ind + "let " + v.name + " := " + top(code) + " in\n" + cont()
	}
	assign := func(p *nPlace, val string, at ast.Node) string {
		if p.write == nil {
			t.fail(at, "assignment to something that cannot be assigned")
		}
		v, code := p.write(val)
		return let(v, code)
	}
	switch s := st.(type) {
	case *ast.EmptyStmt:
		return cont()
	case *ast.BlockStmt:
		return t.stmts(concatStmts(s.List, rest), tail, ind)
	case *ast.ReturnStmt: // statements after a return are unreachable
		return ind + t.finish(s)
	case *ast.DeclStmt:
		gd, ok := s.Decl.(*ast.GenDecl)
		if !ok || gd.Tok != token.VAR || len(gd.Specs) != 1 {
			t.fail(s, "declaration outside the fragment")
		}
		vs := gd.Specs[0].(*ast.ValueSpec)
		if len(vs.Names) != 1 || len(vs.Values) != 0 || vs.Names[0].Name == "_" {
			t.fail(s, "declaration outside the fragment (only `var x T`)")
		}
		obj := t.info.Defs[vs.Names[0]]
		ds := t.np.sortOfType(obj.Type())
		zero := map[nKind]string{nBool: "false", nU8: "0", nU32: "0", nInt: "0%Z"}[ds.k]
		if zero == "" {
			t.fail(s, fmt.Sprintf("variable of type %s", obj.Type()))
		}
		return let(t.declare(obj, ds, s), zero)
	case *ast.IncDecStmt:
		p := t.place(s.X)
		if p.special != "" || p.read == nil {
			t.fail(s, "increment of something that is not a number")
		}
		op := token.ADD
		if s.Tok == token.DEC {
			op = token.SUB
		}
		return assign(p, t.arith(s, op, p.read(), one(p.sort), p.sort), s)
	case *ast.AssignStmt:
		if len(s.Lhs) != 1 || len(s.Rhs) != 1 {
			t.fail(s, "multiple assignment")
		}
		lhs, rhs := s.Lhs[0], ast.Unparen(s.Rhs[0])
		if t.isRefDeref(lhs) {
			if s.Tok != token.ASSIGN {
				t.fail(s, "assignment operator on *ref")
			}
			t.refAssign(s, rhs)
			return cont()
		}
		if s.Tok == token.DEFINE {
			id, ok := lhs.(*ast.Ident)
			if !ok || id.Name == "_" || t.info.Defs[id] == nil {
				t.fail(s, "declaration outside the fragment")
			}
			return t.define(s, t.info.Defs[id], rhs, ind, cont)
		}
		p := t.place(lhs)
		if p.special == "pointer" { // x.pointer = nil
			if !isNilIdent(t.info, rhs) || s.Tok != token.ASSIGN || p.base.sort.k != nCell {
				t.fail(s, "assignment to the pointer of a nodeRef (only = nil)")
			}
			// the tag of the cell is kept by Go (nothing reads the tag of a nil reference); the model writes None
			return assign(p.base, "None", s)
		}
		if s.Tok == token.ASSIGN {
			return assign(p, t.rhsFor(p, rhs, s), s)
		}
		if op, ok := assignOps[s.Tok]; ok && (op == token.ADD || op == token.SUB) && p.special == "" && p.read != nil {
			c, rs := t.expr(rhs)
			if rs.k != p.sort.k {
				t.fail(s, "assignment between different types")
			}
			return assign(p, t.arith(s, op, p.read(), c, p.sort), s)
		}
		t.fail(s, "assignment operator outside the fragment")
	case *ast.ExprStmt:
		call, ok := ast.Unparen(s.X).(*ast.CallExpr)
		if !ok {
			t.fail(s, "expression statement outside the fragment")
		}
		return t.callStmt(s, call, ind, cont, assign)
	case *ast.IfStmt:
		if s.Init != nil {
			cp := *s
			cp.Init = nil
			return t.stmts(concatStmts([]ast.Stmt{s.Init, &cp}, rest), tail, ind)
		}
		var elseList []ast.Stmt
		switch e := s.Else.(type) {
		case nil:
		case *ast.BlockStmt:
			elseList = e.List
		default:
			elseList = []ast.Stmt{e}
		}
		if !t.hasEffects(s) { // the if is the value of the outer variables it assigns
			rec := t.pushRec(s)
			c := t.cond(s.Cond)
			mark := func() string { return nTailMark }
			thenC := t.stmts(s.Body.List, mark, ind+"    ")
			elseC := t.stmts(elseList, mark, ind+"    ")
			t.popRec()
			if len(rec.vars) == 0 {
				return cont()
			}
			for _, v := range rec.vars {
				t.record(v)
			}
			pat, val := nTuple(rec.vars)
			code := ind + "let " + pat + " :=\n" + ind + "  if " + c + " then (\n" + thenC + "\n" + ind + "  ) else (\n" + elseC + "\n" + ind + "  ) in\n"
			return strings.ReplaceAll(code, nTailMark, val) + cont()
		}
		// a branch returns, touches the pool, assigns *ref or calls a method: both branches continue with the rest
		c := t.cond(s.Cond)
		save := t.st
		t.st = save.clone()
		thenC := t.stmts(concatStmts(s.Body.List, rest), tail, ind+"  ")
		t.st = save.clone()
		elseC := t.stmts(concatStmts(elseList, rest), tail, ind+"  ")
		return ind + "if " + c + " then (\n" + thenC + "\n" + ind + ") else (\n" + elseC + "\n" + ind + ")"
	case *ast.SwitchStmt:
		return t.tagSwitch(s, rest, tail, ind)
	case *ast.ForStmt:
		return t.forStmt(s, ind, cont)
	}
	t.fail(st, "statement outside the fragment")
	return ""
}

// *ref = nodeRef{pointer: unsafe.Pointer(x), tag: nodeKindK}   /   *ref = x
func (t *nodeTr) refAssign(s *ast.AssignStmt, rhs ast.Expr) {
	if cl, ok := rhs.(*ast.CompositeLit); ok {
		tv, ok := t.info.Types[rhs]
		if !ok || !t.np.named(tv.Type, "nodeRef") || len(cl.Elts) != 2 {
			t.fail(s, "*ref = a composite literal that is not nodeRef{pointer: ..., tag: ...}")
		}
		var v *nVar
		tag := ""
		for _, el := range cl.Elts {
			kv, ok := el.(*ast.KeyValueExpr)
			if !ok {
				t.fail(s, "unkeyed nodeRef literal")
			}
			switch k, _ := kv.Key.(*ast.Ident); {
			case k != nil && k.Name == "pointer":
				conv, ok := ast.Unparen(kv.Value).(*ast.CallExpr)
				if !ok || len(conv.Args) != 1 {
					t.fail(s, "pointer field")
				}
				if ctv, ok := t.info.Types[conv.Fun]; !ok || !ctv.IsType() || !types.Identical(ctv.Type, types.Typ[types.UnsafePointer]) {
					t.fail(s, "pointer field that is not unsafe.Pointer(x)")
				}
				v = t.varOf(conv.Args[0])
			case k != nil && k.Name == "tag":
				tv, ok := t.info.Types[kv.Value]
				if !ok || tv.Value == nil {
					t.fail(s, "tag field")
				}
				n, _ := constant.Int64Val(constant.ToInt(tv.Value))
				tag = t.np.poolKinds[n]
			default:
				t.fail(s, "nodeRef literal field")
			}
		}
		if v == nil || v.sort.k != nNode || v.sort.node == "" {
			t.fail(s, "pointer field that is not a node variable")
		}
		t.live(v, s)
		if tag != v.sort.node {
			t.fail(s, "the tag does not say what the pointer points to ("+v.sort.String()+")")
		}
		t.st.refVar = v
		return
	}
	v := t.varOf(rhs)
	if v == nil || v.sort.k != nCell {
		t.fail(s, "*ref = something that is neither a nodeRef literal nor a nodeRef variable")
	}
	t.live(v, s)
	t.st.refVar = v
}

func (t *nodeTr) define(s *ast.AssignStmt, obj types.Object, rhs ast.Expr, ind string, cont func() string) string {
	// x := nodePools[nodeKindK].Get().(*nodeK)
	if ta, ok := rhs.(*ast.TypeAssertExpr); ok {
		call, ok := ast.Unparen(ta.X).(*ast.CallExpr)
		if !ok || ta.Type == nil || len(call.Args) != 0 {
			t.fail(s, "type assertion outside the fragment")
		}
		kind, ok := t.poolMethod(call, "Get")
		as := t.np.sortOfType(t.info.Types[ta.Type].Type)
		if !ok || as.k != nNode || as.node != kind {
			t.fail(s, "a Get whose pool is not the pool of the asserted node type")
		}
		if !t.st.osOK {
			t.fail(s, "a Get after a call that consumed an unknown number of the oracle's answers")
		}
		v := t.declare(obj, as, s)
		return ind + "let '(" + v.name + ", " + t.pN + ") := Pool.get (Pool.nxt " + t.osN + ") " + nodeCoqKind[kind] + " " + t.pN + " in\n" +
			ind + "let " + t.osN + " := tl " + t.osN + " in\n" + cont()
	}
	if call, ok := rhs.(*ast.CallExpr); ok {
		// x := (*nodeK)(ref.pointer)
		if tv, ok := t.info.Types[call.Fun]; ok && tv.IsType() && len(call.Args) == 1 {
			if cs := t.np.sortOfType(tv.Type); cs.k == nNode {
				sel, ok := ast.Unparen(call.Args[0]).(*ast.SelectorExpr)
				old := t.st.refVar
				if !ok || sel.Sel.Name != "pointer" || !t.isRefIdent(sel.X) || old == nil || old.sort.k != nNode || old.sort.node != "" {
					t.fail(s, "pointer conversion outside the fragment (only (*nodeK)(ref.pointer) of the receiver)")
				}
				t.live(old, s)
				if t.st.kindCtx != cs.node {
					t.fail(s, "conversion to "+cs.String()+" where the tag does not say so")
				}
				v := t.declare(obj, cs, s)
				t.st.dead[old] = "was converted to " + v.name
				t.st.refVar = v
				return ind + "let " + v.name + " := " + old.name + " in\n" + cont()
			}
		}
		// h := x.node()
		if sel, ok := ast.Unparen(call.Fun).(*ast.SelectorExpr); ok && sel.Sel.Name == "node" && len(call.Args) == 0 {
			if f, ok := t.info.Uses[sel.Sel].(*types.Func); ok && f.Pkg() == t.np.pkg {
				c := t.varOf(sel.X)
				if c == nil || c.sort.k != nCell {
					t.fail(s, "node() of something that is not a nodeRef variable")
				}
				t.live(c, s)
				v := t.declare(obj, nSort{k: nHdrPtr}, s)
				v.hdrOf = c
				return ind + "(* " + v.name + " := " + c.name + ".node(): reads and writes of " + v.name + ".f go to the header of the node " + c.name + " points to *)\n" + cont()
			}
		}
	}
	// x := n.children[i]  and scalars
	var code string
	var rs nSort
	if _, isIdx := rhs.(*ast.IndexExpr); isIdx {
		p := t.place(rhs)
		if p.sort.k == nCell {
			v := t.declare(obj, nSort{k: nCell}, s)
			if p.root != nil && p.root.sort.k == nNode {
				v.copiedOf = p.root
			}
			t.record(v)
			return ind + "let " + v.name + " := " + top(p.read()) + " in\n" + cont()
		}
	}
	code, rs = t.expr(rhs)
	switch rs.k {
	case nBool, nU8, nU32, nInt:
	default:
		t.fail(s, fmt.Sprintf("declaration of a variable of type %s", rs))
	}
	v := t.declare(obj, rs, s)
	t.record(v)
	return ind + "let " + v.name + " := " + top(code) + " in\n" + cont()
}

func (t *nodeTr) callStmt(s *ast.ExprStmt, call *ast.CallExpr, ind string, cont func() string, assign func(*nPlace, string, ast.Node) string) string {
	if call.Ellipsis != token.NoPos {
		t.fail(s, "call outside the fragment")
	}
	if name, ok := t.builtinName(call.Fun); ok {
		switch {
		case name == "copy" && len(call.Args) == 2:
			// copy(P[lo:hi], S): gcopy lo (firstn (hi-lo) S) P
			ds, ok := ast.Unparen(call.Args[0]).(*ast.SliceExpr)
			if !ok || ds.Slice3 {
				t.fail(s, "copy destination that is not a slice of an array place")
			}
			p := t.place(ds.X)
			if p.special != "" || p.read == nil || p.write == nil || (p.sort.k != nBytes && p.sort.k != nCells) || p.sort.n < 0 {
				t.fail(s, "copy destination that is not a slice of an array place")
			}
			src, ss := t.expr(call.Args[1])
			if ss.k != p.sort.k {
				t.fail(s, "copy between different element types")
			}
			lo := "0"
			if ds.Low != nil {
				lo = t.natIndex(ds.Low)
			}
			if ds.High != nil {
				hi := t.natIndex(ds.High)
				if ds.Low != nil {
					hi = "(" + hi + " - " + lo + ")%nat"
				}
				src = app("firstn", hi, src)
			}
			return assign(p, app("gcopy", lo, src, p.read()), s)
		case name == "clear" && len(call.Args) == 1:
			ds, ok := ast.Unparen(call.Args[0]).(*ast.SliceExpr)
			if !ok || ds.Low != nil || ds.High != nil || ds.Slice3 {
				t.fail(s, "clear of something that is not P[:]")
			}
			p := t.place(ds.X)
			if p.special != "" || p.write == nil || (p.sort.k != nBytes && p.sort.k != nCells) || p.sort.n < 0 {
				t.fail(s, "clear of something that is not a whole array place")
			}
			z := "0"
			if p.sort.k == nCells {
				z = "None"
			}
			// every element of the array (static length) becomes the zero value
			return assign(p, app("repeat", z, fmt.Sprintf("%d%%nat", p.sort.n)), s)
		}
		t.fail(s, "builtin outside the fragment")
	}
	if name, ok := t.pkgFuncName(call.Fun); ok {
		if letters, ok := nodeInOutFuncs[name]; ok && len(call.Args) >= 1 {
			u, ok := ast.Unparen(call.Args[0]).(*ast.UnaryExpr)
			if !ok || u.Op != token.AND {
				t.fail(s, "in/out argument that is not &n.keys")
			}
			p := t.place(u.X)
			if p.special != "" || p.sort.k != nU32 || p.read == nil {
				t.fail(s, "in/out argument that is not a uint32 place")
			}
			args := append([]string{p.read()}, t.modelArgs(call, letters, call.Args[1:])...)
			return assign(p, app(name, args...), s)
		}
		t.fail(s, "call outside the fragment")
	}
	// nodePools[nodeKindK].Put(x)
	if kind, ok := t.poolMethod(call, "Put"); ok && len(call.Args) == 1 {
		v := t.varOf(call.Args[0])
		if v == nil || v.sort.k != nNode || v.sort.node != kind {
			t.fail(s, "Put of something that is not a node of the pool's type")
		}
		t.live(v, s)
		if t.st.refVar == v {
			t.fail(s, "the node *ref points to is released to the pool")
		}
		t.st.dead[v] = "was released to the pool"
		return ind + "let " + t.pN + " := Pool.put " + v.name + " " + t.pN + " in\n" + cont()
	}
	// x.m(...)
	sel, ok := ast.Unparen(call.Fun).(*ast.SelectorExpr)
	if !ok {
		t.fail(s, "call outside the fragment")
	}
	f, _ := t.info.Uses[sel.Sel].(*types.Func)
	callee := t.np.methods[f]
	if callee == nil {
		t.fail(s, "call outside the fragment")
	}
	if callee.failed != "" {
		t.fail(s, "call of the untranslated method "+callee.defName)
	}
	rv := t.varOf(sel.X)
	if rv == nil || callee.recvSort.k != nNode || rv.sort.k != nNode || rv.sort.node != callee.recvSort.node || callee.resCell {
		t.fail(s, "method call outside the fragment")
	}
	t.live(rv, s)
	args := []string{rv.name}
	sig := callee.fn.Type().(*types.Signature)
	if sig.Params().Len() != len(call.Args) {
		t.fail(s, "number of arguments")
	}
	for i, a := range call.Args {
		switch ps := t.np.sortOfType(sig.Params().At(i).Type()); ps.k {
		case nRefPtr:
			if !t.isRefIdent(a) || t.st.refVar != rv {
				t.fail(s, "the ref passed on does not point to the receiver of the call")
			}
		case nU8:
			c, as := t.expr(a)
			if as.k != nU8 {
				t.fail(a, "argument type")
			}
			args = append(args, c)
		case nCell:
			p := t.place(a)
			if p.special != "" || p.sort.k != nChild {
				t.fail(a, "a nodeRef argument that is not the caller's own nodeRef parameter (it could be the zero nodeRef)")
			}
			args = append(args, p.read())
		default:
			t.fail(a, "argument type")
		}
	}
	if callee.usesPool {
		if !t.st.osOK {
			t.fail(s, "a call that uses the pool after a call that consumed an unknown number of the oracle's answers")
		}
		args = append(args, t.osN, t.pN)
	}
	code := callee.defName + " " + strings.Join(args, " ")
	var res *nVar
	if callee.hasRef() {
		rs := nSort{k: nNode}
		if callee.refCell {
			rs = nSort{k: nCell}
		}
		res = t.declare(t.m.refObj, rs, s)
		t.st.refVar = res
		t.st.dead[rv] = "was passed to " + callee.fn.Name() + " together with ref (the callee may have released it)"
		if callee.usesPool {
			t.st.osOK = false
		}
	} else {
		res = rv
		t.record(rv)
	}
	pat := res.name
	if callee.usesPool {
		pat = "'(" + res.name + ", " + t.pN + ")"
	}
	return ind + "let " + pat + " := " + code + " in\n" + cont()
}

// switch ref.tag { case nodeKindK: ... default: panic(...) }
func (t *nodeTr) tagSwitch(s *ast.SwitchStmt, rest []ast.Stmt, tail func() string, ind string) string {
	sel, ok := ast.Unparen(s.Tag).(*ast.SelectorExpr)
	rv := t.st.refVar
	if s.Init != nil || !ok || sel.Sel.Name != "tag" || !t.isRefIdent(sel.X) || rv == nil || rv.sort.k != nNode || rv.sort.node != "" {
		t.fail(s, "switch outside the fragment (only `switch ref.tag` on the receiver)")
	}
	t.live(rv, s)
	bodies := map[string][]ast.Stmt{}
	for _, c := range s.Body.List {
		cc := c.(*ast.CaseClause)
		if hasBranchStmt(cc.Body) {
			t.fail(cc, "break / fallthrough / goto inside a case")
		}
		if cc.List == nil {
			// the four node kinds are all the values xkind has; nodeKindLeaf is not an inner node
			if !isPanicOnly(cc.Body) {
				t.fail(cc, "a default clause that does something else than panic")
			}
			continue
		}
		for _, e := range cc.List {
			tv, ok := t.info.Types[e]
			if !ok || tv.Value == nil {
				t.fail(e, "case that is not a constant")
			}
			n, _ := constant.Int64Val(constant.ToInt(tv.Value))
			kind, ok := t.np.poolKinds[n]
			if !ok {
				t.fail(e, "case that is not the kind of an inner node")
			}
			if _, dup := bodies[kind]; dup {
				t.fail(e, "duplicate case")
			}
			bodies[kind] = cc.Body
		}
	}
	out := ind + "match xkind " + rv.name + " with\n"
	save := t.st
	for _, kind := range t.np.kindOrder {
		t.st = save.clone()
		t.st.kindCtx = kind
		out += ind + "| " + nodeCoqKind[kind] + " => (\n" + t.stmts(concatStmts(bodies[kind], rest), tail, ind+"    ") + "\n" + ind + "  )\n"
	}
	return out + ind + "end"
}

func (t *nodeTr) forStmt(s *ast.ForStmt, ind string, cont func() string) string {
	if s.Cond == nil || t.hasEffects(s) {
		t.fail(s, "loop outside the fragment")
	}
	if s.Init == nil && s.Post == nil {
		// for <cond mentioning a[v]> { v++ }: at most len(a) iterations before a[v] panics
		if len(s.Body.List) != 1 {
			t.fail(s, "loop outside the fragment (a condition loop whose body is not `v++`)")
		}
		inc, ok := s.Body.List[0].(*ast.IncDecStmt)
		if !ok || inc.Tok != token.INC {
			t.fail(s, "loop outside the fragment (a condition loop whose body is not `v++`)")
		}
		v := t.varOf(inc.X)
		if v == nil || (v.sort.k != nU8 && v.sort.k != nInt) {
			t.fail(s, "loop outside the fragment (a condition loop whose body is not `v++`)")
		}
		t.live(v, s)
		var fuel int64 = -1
		ast.Inspect(s.Cond, func(n ast.Node) bool {
			if ix, ok := n.(*ast.IndexExpr); ok && t.varOf(ix.Index) == v {
				if a, ok := t.info.Types[ix.X].Type.Underlying().(*types.Array); ok && (fuel < 0 || a.Len() < fuel) {
					fuel = a.Len()
				}
			}
			return true
		})
		if fuel < 0 {
			t.fail(s, "loop outside the fragment (no array indexed by the loop variable bounds the iterations)")
		}
		c := t.cond(s.Cond)
		t.record(v)
		return ind + fmt.Sprintf("let %s := go_while %d%%nat (fun %s => %s) (fun %s => %s) %s in\n", v.name, fuel, v.name, c, v.name,
			top(t.arith(s, token.ADD, v.name, one(v.sort), v.sort)), v.name) + cont()
	}
	// for i := 0; i < N; i++ { assignments }
	init, ok := s.Init.(*ast.AssignStmt)
	post, ok2 := s.Post.(*ast.IncDecStmt)
	cmp, ok3 := ast.Unparen(s.Cond).(*ast.BinaryExpr)
	if !ok || !ok2 || !ok3 || init.Tok != token.DEFINE || len(init.Lhs) != 1 || len(init.Rhs) != 1 || post.Tok != token.INC || cmp.Op != token.LSS {
		t.fail(s, "loop outside the fragment (only for i := 0; i < N; i++)")
	}
	id, ok := init.Lhs[0].(*ast.Ident)
	if !ok || id.Name == "_" {
		t.fail(s, "loop variable")
	}
	iobj := t.info.Defs[id]
	lo, ok := t.info.Types[init.Rhs[0]]
	if iobj == nil || !ok || lo.Value == nil || constant.Sign(constant.ToInt(lo.Value)) != 0 {
		t.fail(s, "loop outside the fragment (the counter does not start at 0)")
	}
	is := t.np.sortOfType(iobj.Type())
	if pid, ok := ast.Unparen(post.X).(*ast.Ident); !ok || t.info.Uses[pid] != iobj {
		t.fail(s, "loop outside the fragment (the post statement is not i++)")
	}
	if cid, ok := ast.Unparen(cmp.X).(*ast.Ident); !ok || t.info.Uses[cid] != iobj {
		t.fail(s, "loop outside the fragment (the condition is not i < N)")
	}
	if t.assignsTo(s.Body, iobj) {
		t.fail(s, "loop outside the fragment (the body assigns the counter)")
	}
	// the bound, evaluated before the loop; the body must not change it
	var count string
	hiMention := t.mentioned(cmp.Y)
	if tv, ok := t.info.Types[cmp.Y]; ok && tv.Value != nil {
		n, exact := constant.Uint64Val(constant.ToInt(tv.Value))
		if !exact || n > 1<<16 {
			t.fail(s, "loop bound")
		}
		count = fmt.Sprint(n)
	} else {
		c, hs := t.expr(cmp.Y)
		if hs.k != is.k {
			t.fail(s, "loop bound type")
		}
		switch hs.k {
		case nU8, nU32: // i < N with both of the same unsigned type: i never wraps
			count = app("N.to_nat", c)
		case nInt:
			count = app("Z.to_nat", c)
		default:
			t.fail(s, "loop bound type")
		}
	}
	iv := t.declare(iobj, is, s)
	nat := t.fresh(iv.name + "_n")
	var bind string
	switch is.k {
	case nInt:
		bind = ind + "    let " + iv.name + " := Z.of_nat " + nat + " in\n"
	case nU8, nU32:
		bind = ind + "    let " + iv.name + " := N.of_nat " + nat + " in\n"
	default:
		t.fail(s, "loop variable type")
	}
	rec := t.pushRec(s)
	body := t.stmts(s.Body.List, func() string { return nTailMark }, ind+"    ")
	t.popRec()
	if len(rec.vars) == 0 {
		return cont()
	}
	for _, v := range rec.vars {
		if hiMention[v] {
			t.fail(s, "loop outside the fragment (the body changes the bound)")
		}
		t.record(v)
	}
	pat, val := nTuple(rec.vars)
	code := ind + "let " + pat + " := fold_left (fun " + pat + " (" + nat + " : nat) =>\n" + bind + body + ")\n" +
		ind + "  (seq 0 " + count + ") " + val + " in\n"
	return strings.ReplaceAll(code, nTailMark, val) + cont()
}

// the result of the method: the final *ref (or the receiver), and the pool
func (t *nodeTr) finish(at ast.Node) string {
	if rs, ok := at.(*ast.ReturnStmt); ok && t.m.resCell {
		// return &n.children[i] / return nil: the content of the cell pointed to
		if len(rs.Results) != 1 {
			t.fail(at, "return")
		}
		r := ast.Unparen(rs.Results[0])
		if isNilIdent(t.info, r) {
			return "None"
		}
		if u, ok := r.(*ast.UnaryExpr); ok && u.Op == token.AND {
			p := t.place(u.X)
			if p.special == "" && p.sort.k == nCell && p.read != nil {
				return top(p.read())
			}
		}
		t.fail(at, "return of something that is not nil or the address of a children cell")
	}
	if rs, ok := at.(*ast.ReturnStmt); ok && len(rs.Results) != 0 {
		t.fail(at, "return")
	}
	if t.m.resCell {
		t.fail(at, "control can reach the end of a function with a result")
	}
	var r string
	if t.m.hasRef() {
		v := t.st.refVar
		if v == nil {
			t.fail(at, "*ref is unknown")
		}
		t.live(v, at)
		switch {
		case v.sort.k == nNode && t.m.refCell:
			r = "Some (inner " + v.name + ")"
		case v.sort.k == nNode, v.sort.k == nCell && t.m.refCell:
			r = v.name
		default:
			t.fail(at, "*ref")
		}
	} else {
		t.live(t.recvV, at)
		r = t.recvV.name
	}
	if t.m.usesPool {
		return "(" + r + ", " + t.pN + ")"
	}
	return r
}

// ---------------------------------------------------------------- one method

func (np *nodePkg) translateMethod(m *nodeMethod) {
	var sig bytes.Buffer
	printer.Fprint(&sig, np.fset, &ast.FuncDecl{Name: m.fd.Name, Type: m.fd.Type, Recv: m.fd.Recv})
	header := "(* " + coqCommentSafe(strings.Join(strings.Fields(sig.String()), " ")) + " *)\n"
	t := &nodeTr{
		fnTr: &fnTr{fset: np.fset, info: np.info, consts: map[types.Object]string{}, names: map[types.Object]string{}, used: map[string]bool{}},
		np:   np, m: m, vars: map[types.Object]*nVar{},
		st: &nPath{dead: map[*nVar]string{}, stale: map[*nVar]bool{}, osOK: true},
	}
	for _, w := range nodeVocabulary {
		t.used[w] = true
	}
	defer func() {
		if r := recover(); r != nil {
			u, ok := r.(trUnsupported)
			if !ok {
				panic(r)
			}
			m.failed = u.msg
			m.text = header + "Definition " + m.defName + " : untranslated := UNSUPPORTED \"" + strings.ReplaceAll(u.msg, "\"", "\"\"") + "\".\n"
		}
	}()
	for _, c := range m.calls {
		if c.failed != "" {
			t.fail(m.fd.Name, "calls the untranslated method "+c.defName)
		}
	}
	if m.fd.Body == nil || m.fd.Type.TypeParams != nil {
		t.fail(m.fd.Name, "generic method or method without body")
	}
	var binders []string
	// the receiver: the node (for a method of *nodeRef: the node the reference points to)
	rf := m.fd.Recv.List[0]
	if len(rf.Names) != 1 || rf.Names[0].Name == "_" {
		t.fail(m.fd.Name, "unnamed receiver")
	}
	robj := np.info.Defs[rf.Names[0]]
	rs := m.recvSort
	if rs.k == nRefPtr {
		rs = nSort{k: nNode}
	}
	t.recvV = t.declare(robj, rs, m.fd.Name)
	binders = append(binders, "("+t.recvV.name+" : xnode C)")
	if m.hasRef() {
		t.st.refVar = t.recvV // calling convention: ref points to the receiver
	}
	for _, f := range m.fd.Type.Params.List {
		if len(f.Names) == 0 {
			t.fail(f.Type, "unnamed parameter")
		}
		for _, id := range f.Names {
			obj := np.info.Defs[id]
			if obj == nil || id.Name == "_" {
				t.fail(id, "blank parameter")
			}
			switch s := np.sortOfType(obj.Type()); s.k {
			case nRefPtr:
				if obj != m.refObj {
					t.fail(id, "a second *nodeRef parameter")
				}
			case nU8:
				binders = append(binders, "("+t.declare(obj, s, id).name+" : N)")
			case nCell:
				binders = append(binders, "("+t.declare(obj, nSort{k: nChild}, id).name+" : C)")
			default:
				t.fail(f.Type, "parameter type outside the fragment")
			}
		}
	}
	if m.usesPool {
		t.osN, t.pN = t.fresh("os"), t.fresh("p")
		binders = append(binders, "("+t.osN+" : list choice)", "("+t.pN+" : pool)")
	}
	res := "xnode C"
	switch {
	case m.resCell:
		res = "option C"
	case m.hasRef() && m.refCell:
		res = "option C"
	}
	if m.usesPool {
		res += " * pool"
	}
	nres := 0
	if m.fd.Type.Results != nil {
		nres = m.fd.Type.Results.NumFields()
	}
	if (m.resCell && nres != 1) || (!m.resCell && nres != 0) {
		t.fail(m.fd.Name, "results outside the fragment")
	}
	body := t.stmts(m.fd.Body.List, func() string { return t.finish(m.fd.Name) }, "  ")
	m.text = header + "Definition " + m.defName + " " + strings.Join(binders, " ") + " : " + res + " :=\n" + body + ".\n"
}

// ---------------------------------------------------------------- the file

const nodeConventions = `   Conventions (go/cmd/srcfacts/translate_node.go; the vocabulary is Model/GoNode.v, read it first):
   a pointer variable of type *node4 / *node16 / *node48 / *node256 is a variable holding the node VALUE
   (xnode C); a write through the pointer rebinds the variable (s_<field>), a read is f_<field>.
   The receiver of a method of *nodeRef is the node the reference points to; "switch ref.tag" is a
   match on xkind; "default: panic" is dropped (xkind has the four inner kinds only).
   A parameter "ref *nodeRef" is not a parameter here: it points to the receiver (checked at every call
   inside node.go) and the result of the method is the final *ref; a method that uses nodePools also
   takes the oracle's answers os and the pool p and returns the pool. "*ref = nodeRef{pointer:
   unsafe.Pointer(x), tag: nodeKindK}" makes the result "the final value of x" (the tag must be x's kind).
   A method that may assign a nodeRef VALUE to *ref (node4.deleteChild: *ref = child) returns an
   option C, a node being Some (inner n) for the section variable inner (nodeRef{pointer: n, tag: kind of n}).
   A *nodeRef RESULT (findChild) is represented by the content of the cell it points to: nil and a
   pointer to a nil cell are both None.
   The child type C is abstract: is_leaf / hdr_of / with_hdr (section variables, instantiated with
   xt_is_leaf / xt_hdr_of / xt_with_hdr for C = xtree) give child.tag == nodeKindLeaf and child.node().
   uint8 / uint32 arithmetic wraps (add8 sub8 add32 sub32); int is Z, unbounded; constants are folded
   by go/types; an index is passed as N.to_nat / Z.to_nat (out of range panics in Go: not modelled).
   "for i := 0; i < N; i++" is a fold_left over seq 0 N of the variables the body assigns;
   "for a[v] ... { v++ }" is go_while with fuel len(a).
   An if that only assigns is the value of the variables it assigns; any other if has the rest of
   the method in both branches.`

func emitNodeTranslation(repo, outdir string) {
	fset := token.NewFileSet()
	var sb strings.Builder
	sb.WriteString("(* REGENERATED by go/cmd/srcfacts (translate_node.go) from /repo's node.go on every run — do not edit.\n")
	sb.WriteString("   One definition g_<type>_<method> per method of the four inner node types and g_<method> per method of\n")
	sb.WriteString("   *nodeRef; Proofs/TranslateNodeFacts.v proves them equal to the hand-written models Model/Pool.v and\n")
	sb.WriteString("   Model/PoolTree.v.\n")
	sb.WriteString(nodeConventions + " *)\n")
	sb.WriteString("From GoArt Require Import Model.GoNode.\nFrom Coq Require Import String.\nImport ListNotations.\nOpen Scope N_scope.\n")
	defer func() { writeIfChanged(filepath.Join(outdir, "NodeGen.v"), sb.String()) }()

	nodePath := filepath.Join(repo, "node.go")
	if _, err := os.Stat(nodePath); err != nil {
		fmt.Fprintln(os.Stderr, "srcfacts: translate node: node.go is missing; its translation will be empty")
		sb.WriteString("\n(* node.go does not exist *)\n")
		return
	}
	var files []*ast.File
	var nodeGo, poolGo *ast.File
	for _, name := range []string{"node.go", "node4.go", "node16_other.go", "pool.go"} {
		p := filepath.Join(repo, name)
		if _, err := os.Stat(p); err != nil {
			fmt.Fprintf(os.Stderr, "srcfacts: translate node: %s is missing\n", name)
			continue
		}
		f, err := parser.ParseFile(fset, p, nil, parser.ParseComments)
		must(err)
		switch name {
		case "node.go":
			nodeGo = f
			// the interface declarations mention the leaf types of other files; no method body needs them
			var decls []ast.Decl
			for _, d := range f.Decls {
				if gd, ok := d.(*ast.GenDecl); ok && gd.Tok == token.TYPE {
					var specs []ast.Spec
					for _, sp := range gd.Specs {
						if _, isIface := sp.(*ast.TypeSpec).Type.(*ast.InterfaceType); !isIface {
							specs = append(specs, sp)
						}
					}
					if len(specs) == 0 {
						continue
					}
					gd.Specs = specs
				}
				decls = append(decls, d)
			}
			f.Decls = decls
		case "pool.go":
			poolGo = f
		}
		files = append(files, f)
	}
	info := &types.Info{
		Types:      map[ast.Expr]types.TypeAndValue{},
		Defs:       map[*ast.Ident]types.Object{},
		Uses:       map[*ast.Ident]types.Object{},
		Selections: map[*ast.SelectorExpr]*types.Selection{},
	}
	conf := types.Config{
		Importer: &nodeImporter{fset: fset, pkgs: map[string]*types.Package{}},
		Error: func(err error) {
			if te, ok := err.(types.Error); ok && te.Soft {
				return
			}
			fmt.Fprintln(os.Stderr, "srcfacts: translate node: type error (node.go, node4.go, node16_other.go, pool.go are checked on their own):", err)
		},
	}
	pkg, _ := conf.Check("art", fset, files, info) // errors reported above; untyped expressions become UNSUPPORTED
	np := &nodePkg{fset: fset, info: info, pkg: pkg, poolKinds: map[int64]string{}, methods: map[*types.Func]*nodeMethod{}}

	// pool.go: nodePools = [...]sync.Pool{{New: func() any { return new(node4) }}, ...}: index -> node type
	if poolGo != nil {
		ast.Inspect(poolGo, func(n ast.Node) bool {
			vs, ok := n.(*ast.ValueSpec)
			if !ok || len(vs.Names) != 1 || vs.Names[0].Name != "nodePools" || len(vs.Values) != 1 {
				return true
			}
			cl, ok := vs.Values[0].(*ast.CompositeLit)
			if !ok {
				return false
			}
			for i, el := range cl.Elts {
				name := ""
				ast.Inspect(el, func(m ast.Node) bool {
					if c, ok := m.(*ast.CallExpr); ok && len(c.Args) == 1 {
						if id, ok := c.Fun.(*ast.Ident); ok && id.Name == "new" {
							if a, ok := c.Args[0].(*ast.Ident); ok {
								name = a.Name
							}
						}
					}
					return true
				})
				if _, isKV := el.(*ast.KeyValueExpr); !isKV && nodeCoqKind[name] != "" {
					np.poolKinds[int64(i)] = name
				}
			}
			return false
		})
	}
	var idx []int64
	for k := range np.poolKinds {
		idx = append(idx, k)
	}
	sort.Slice(idx, func(i, j int) bool { return idx[i] < idx[j] })
	for _, k := range idx {
		np.kindOrder = append(np.kindOrder, np.poolKinds[k])
	}
	if len(np.kindOrder) != 4 {
		fmt.Fprintln(os.Stderr, "srcfacts: translate node: cannot read the four pools of pool.go (nodePools); pool operations and tags will be UNSUPPORTED")
	}

	// the methods of node.go (the accessor (*nodeRef).node() is vocabulary: cell_hdr / cell_set_hdr)
	for _, d := range nodeGo.Decls {
		fd, ok := d.(*ast.FuncDecl)
		if !ok {
			continue
		}
		fn, _ := info.Defs[fd.Name].(*types.Func)
		if fd.Recv == nil || len(fd.Recv.List) != 1 || fn == nil {
			fmt.Fprintf(os.Stderr, "srcfacts: translate node: %s is not a method; not translated\n", fd.Name.Name)
			continue
		}
		rs := np.sortOfType(fn.Type().(*types.Signature).Recv().Type())
		m := &nodeMethod{fd: fd, fn: fn, recvSort: rs}
		switch rs.k {
		case nNode:
			m.defName = "g_" + rs.node + "_" + fd.Name.Name
		case nRefPtr:
			if fd.Name.Name == "node" {
				var b bytes.Buffer
				printer.Fprint(&b, fset, fd.Body)
				if got := strings.Join(strings.Fields(b.String()), " "); got != "{ return (*node)(ref.pointer) }" {
					fmt.Fprintln(os.Stderr, "srcfacts: translate node: (*nodeRef).node() is not `return (*node)(ref.pointer)`: "+got)
					sb.WriteString("\n(* (*nodeRef).node() has an unexpected body: " + coqCommentSafe(got) + " *)\nDefinition g_node : untranslated := UNSUPPORTED \"node()\".\n")
				}
				continue
			}
			m.defName = "g_" + fd.Name.Name
			m.refObj = info.Defs[fd.Recv.List[0].Names[0]]
		default:
			fmt.Fprintf(os.Stderr, "srcfacts: translate node: the receiver of %s is outside the fragment; not translated\n", fd.Name.Name)
			continue
		}
		sig := fn.Type().(*types.Signature)
		for i := 0; i < sig.Params().Len(); i++ {
			if np.sortOfType(sig.Params().At(i).Type()).k == nRefPtr && m.refObj == nil {
				m.refObj = sig.Params().At(i)
			}
		}
		if sig.Results().Len() == 1 && np.sortOfType(sig.Results().At(0).Type()).k == nRefPtr {
			m.resCell = true
		}
		np.methods[fn] = m
		np.order = append(np.order, m)
	}
	// what a method needs: the pool (directly or through a callee); a nodeRef value as the final *ref
	for _, m := range np.order {
		if m.fd.Body == nil {
			continue
		}
		seen := map[*nodeMethod]bool{}
		ast.Inspect(m.fd.Body, func(n ast.Node) bool {
			switch x := n.(type) {
			case *ast.Ident:
				switch obj := info.Uses[x].(type) {
				case *types.Var:
					if obj.Pkg() == pkg && obj.Parent() == pkg.Scope() && obj.Name() == "nodePools" {
						m.usesPool = true
					}
				case *types.Func:
					if c := np.methods[obj]; c != nil && !seen[c] {
						seen[c] = true
						m.calls = append(m.calls, c)
					}
				}
			case *ast.AssignStmt:
				if len(x.Lhs) == 1 && len(x.Rhs) == 1 && m.refObj != nil {
					if st, ok := ast.Unparen(x.Lhs[0]).(*ast.StarExpr); ok {
						if id, ok := ast.Unparen(st.X).(*ast.Ident); ok && info.Uses[id] == m.refObj {
							if _, lit := ast.Unparen(x.Rhs[0]).(*ast.CompositeLit); !lit {
								m.refCell = true
							}
						}
					}
				}
			}
			return true
		})
	}
	for changed := true; changed; {
		changed = false
		for _, m := range np.order {
			for _, c := range m.calls {
				if c.usesPool && !m.usesPool {
					m.usesPool, changed = true, true
				}
				if c.refCell && c.hasRef() && m.hasRef() && !m.refCell {
					m.refCell, changed = true, true
				}
			}
		}
	}
	// callees first
	var sorted []*nodeMethod
	state := map[*nodeMethod]int{}
	var visit func(m *nodeMethod)
	visit = func(m *nodeMethod) {
		switch state[m] {
		case 1:
			m.failed = "recursion"
			return
		case 2:
			return
		}
		state[m] = 1
		for _, c := range m.calls {
			visit(c)
		}
		state[m] = 2
		sorted = append(sorted, m)
	}
	for _, m := range np.order {
		visit(m)
	}
	sb.WriteString("\nSection NodeGen.\nContext {C : Type}.\n")
	sb.WriteString("(* what a child is: nodeRef{pointer: n, tag: kind of n}; child.tag == nodeKindLeaf; *child.node(); *child.node() = h *)\n")
	sb.WriteString("Variables (inner : xnode C -> C) (is_leaf : C -> bool) (hdr_of : C -> xhdr) (with_hdr : C -> xhdr -> C).\n")
	for _, m := range sorted {
		if m.failed == "recursion" {
			m.text = "Definition " + m.defName + " : untranslated := UNSUPPORTED \"recursive method\".\n"
		} else {
			np.translateMethod(m)
		}
		if m.failed != "" {
			fmt.Fprintln(os.Stderr, "srcfacts: translate node: UNSUPPORTED", m.defName+": "+m.failed)
		}
		sb.WriteString("\n" + m.text)
	}
	sb.WriteString("\nEnd NodeGen.\n")
}
