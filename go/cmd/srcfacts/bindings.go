package main

// bindings.go: the glue AROUND the translated methods, regenerated as Gen/Bindings.v on every run:
//
//   tree_structs       every `*SortedTree` struct of the library with its fields and their type texts — which
//                      codec type each tree kind holds (the end-to-end theorems plug the regenerated codec of
//                      THAT type into the regenerated methods of that tree);
//   constructors       every exported `New*Tree` function (and every exported function that returns an option
//                      `func(*xSortedTree[K, V])`): the tree type it builds, the top-level fields it initialises
//                      with the text of each value, and the class of every top-level statement of its body
//                      ("return-literal", "define-literal", "apply-opts", "return-var", "return-closure",
//                      else "other: <text>");
//   g_alpha_transform, g_alpha_restore
//                      AlphabeticalOrderKey.Transform / Restore of keys.go TRANSLATED to Gallina: conversions
//                      between the byte-string key types and []byte (`[]byte(k)`, `K(b)`, `string(b)`) are
//                      `GoBytes.bytes_conv` (the identity on the byte sequence: Go's conversions between string
//                      and []byte copy the bytes), a slice expression that takes the whole sequence (`x[:]`,
//                      `x[:len(x)]`, `x[:len(x):len(x)]`) is its operand, `:=` is `let`, `return a, b` is a pair; anything else becomes
//                      a definition of type `untranslated` and the theorems about it stop type-checking.

import (
	"fmt"
	"go/ast"
	"go/token"
	"path/filepath"
	"sort"
	"strings"
)

func stripTypeArgs(s string) string {
	s = strings.TrimPrefix(s, "&")
	s = strings.TrimPrefix(s, "*")
	if i := strings.Index(s, "["); i >= 0 {
		s = s[:i]
	}
	return s
}

func compositeOf(e ast.Expr) *ast.CompositeLit {
	if u, ok := e.(*ast.UnaryExpr); ok && u.Op == token.AND {
		e = u.X
	}
	c, _ := e.(*ast.CompositeLit)
	return c
}

type ctorFact struct {
	name, tree string
	fields     [][2]string
	stmts      []string
}

func collectBindings(repo string) string {
	var structs [][2]interface{}
	type sf struct {
		name   string
		fields [][2]string
	}
	var ss []sf
	var ctors []ctorFact
	for _, fn := range libFiles(repo) {
		f := parseFile(filepath.Join(repo, fn))
		for _, d := range f.Decls {
			switch d := d.(type) {
			case *ast.GenDecl:
				for _, sp := range d.Specs {
					ts, ok := sp.(*ast.TypeSpec)
					if !ok || !strings.HasSuffix(ts.Name.Name, "SortedTree") {
						continue
					}
					st, ok := ts.Type.(*ast.StructType)
					if !ok {
						continue
					}
					var fs [][2]string
					for _, fl := range st.Fields.List {
						for _, n := range fl.Names {
							fs = append(fs, [2]string{n.Name, exprText(fl.Type)})
						}
						if len(fl.Names) == 0 {
							fs = append(fs, [2]string{"<embedded>", exprText(fl.Type)})
						}
					}
					ss = append(ss, sf{ts.Name.Name, fs})
				}
			case *ast.FuncDecl:
				if d.Recv != nil || d.Body == nil || !d.Name.IsExported() {
					continue
				}
				res := ""
				if d.Type.Results != nil && len(d.Type.Results.List) == 1 {
					res = exprText(d.Type.Results.List[0].Type)
				}
				isCtor := strings.HasPrefix(res, "Tree[")
				isOpt := strings.HasPrefix(res, "func(*") && strings.Contains(res, "SortedTree")
				if !isCtor && !isOpt {
					continue
				}
				c := ctorFact{name: d.Name.Name}
				if isOpt {
					c.tree = stripTypeArgs(strings.TrimPrefix(res, "func("))
					c.tree = strings.TrimSuffix(c.tree, ")")
				}
				addLit := func(cl *ast.CompositeLit) {
					c.tree = stripTypeArgs(exprText(cl.Type))
					for _, el := range cl.Elts {
						if kv, ok := el.(*ast.KeyValueExpr); ok {
							c.fields = append(c.fields, [2]string{exprText(kv.Key), exprText(kv.Value)})
						} else {
							c.fields = append(c.fields, [2]string{"<positional>", exprText(el)})
						}
					}
				}
				// fields of the tree written inside a returned closure `func(t *xSortedTree) { t.f... = v }`
				addClosure := func(fl *ast.FuncLit) bool {
					if fl.Type.Params == nil || len(fl.Type.Params.List) != 1 || len(fl.Type.Params.List[0].Names) != 1 {
						return false
					}
					p := fl.Type.Params.List[0].Names[0].Name
					for _, s := range fl.Body.List {
						as, ok := s.(*ast.AssignStmt)
						if !ok || as.Tok != token.ASSIGN || len(as.Lhs) != 1 {
							return false
						}
						// t.f or t.f.g ...
						e := as.Lhs[0]
						var top string
						for {
							se, ok := e.(*ast.SelectorExpr)
							if !ok {
								return false
							}
							top = se.Sel.Name
							if id, ok := se.X.(*ast.Ident); ok {
								if id.Name != p {
									return false
								}
								break
							}
							e = se.X
						}
						c.fields = append(c.fields, [2]string{top, exprText(as.Lhs[0]) + " = " + exprText(as.Rhs[0])})
					}
					return true
				}
				var tvar string
				for _, s := range d.Body.List {
					cls := "other: " + exprText(s)
					switch s := s.(type) {
					case *ast.ReturnStmt:
						if len(s.Results) == 1 {
							if cl := compositeOf(s.Results[0]); cl != nil {
								addLit(cl)
								cls = "return-literal"
							} else if id, ok := s.Results[0].(*ast.Ident); ok && id.Name == tvar && tvar != "" {
								cls = "return-var"
							} else if fl, ok := s.Results[0].(*ast.FuncLit); ok && isOpt && addClosure(fl) {
								cls = "return-closure"
							}
						}
					case *ast.AssignStmt:
						if s.Tok == token.DEFINE && len(s.Lhs) == 1 && len(s.Rhs) == 1 && tvar == "" {
							if cl := compositeOf(s.Rhs[0]); cl != nil {
								if id, ok := s.Lhs[0].(*ast.Ident); ok {
									tvar = id.Name
									addLit(cl)
									cls = "define-literal"
								}
							}
						}
					case *ast.RangeStmt:
						// for _, opt := range opts { opt(t) }
						if v, ok := s.Value.(*ast.Ident); ok && len(s.Body.List) == 1 {
							if es, ok := s.Body.List[0].(*ast.ExprStmt); ok {
								if call, ok := es.X.(*ast.CallExpr); ok && len(call.Args) == 1 {
									if fid, ok := call.Fun.(*ast.Ident); ok && fid.Name == v.Name {
										if a, ok := call.Args[0].(*ast.Ident); ok && a.Name == tvar && tvar != "" {
											cls = "apply-opts"
										}
									}
								}
							}
						}
					}
					c.stmts = append(c.stmts, cls)
				}
				ctors = append(ctors, c)
			}
		}
	}
	_ = structs
	sort.Slice(ss, func(i, j int) bool { return ss[i].name < ss[j].name })
	sort.Slice(ctors, func(i, j int) bool { return ctors[i].name < ctors[j].name })

	pairs := func(ps [][2]string) string {
		var xs []string
		for _, p := range ps {
			xs = append(xs, fmt.Sprintf("(%s, %s)", coqStr(p[0]), coqStr(p[1])))
		}
		return "[" + strings.Join(xs, "; ") + "]"
	}
	var sb strings.Builder
	sb.WriteString(`(* REGENERATED by go/cmd/srcfacts (bindings.go) from /repo on every run — do not edit. *)
From Coq Require Import List String NArith.
From GoArt Require Import Base.Bytes Model.GoBytes.
Import ListNotations.

(* every *SortedTree struct: (type, [(field, type text)]) *)
Definition tree_structs : list (string * list (string * string)) :=
  [`)
	for i, s := range ss {
		if i > 0 {
			sb.WriteString(";\n   ")
		}
		fmt.Fprintf(&sb, "(%s, %s)", coqStr(s.name), pairs(s.fields))
	}
	sb.WriteString(`].

(* every exported constructor / option: (function, tree type, [(top-level field written, value text)],
   class of each top-level statement of the body) *)
Definition constructors : list (string * string * list (string * string) * list string) :=
  [`)
	for i, c := range ctors {
		if i > 0 {
			sb.WriteString(";\n   ")
		}
		var st []string
		for _, s := range c.stmts {
			st = append(st, coqStr(s))
		}
		fmt.Fprintf(&sb, "(%s, %s, %s, [%s])", coqStr(c.name), coqStr(c.tree), pairs(c.fields), strings.Join(st, "; "))
	}
	sb.WriteString("].\n\n")
	sb.WriteString(translateAlphaCodec(repo))
	return sb.String()
}

// translateAlphaCodec: AlphabeticalOrderKey.Transform / Restore
func translateAlphaCodec(repo string) string {
	f := parseFile(filepath.Join(repo, "keys.go"))
	out := map[string]string{}
	for _, d := range f.Decls {
		fd, ok := d.(*ast.FuncDecl)
		if !ok || fd.Body == nil || fd.Recv == nil || !strings.Contains(exprText(fd.Recv.List[0].Type), "AlphabeticalOrderKey") {
			continue
		}
		if fd.Name.Name != "Transform" && fd.Name.Name != "Restore" {
			continue
		}
		if len(fd.Type.Params.List) != 1 || len(fd.Type.Params.List[0].Names) != 1 {
			out[fd.Name.Name] = ""
			continue
		}
		param := fd.Type.Params.List[0].Names[0].Name
		scope := map[string]bool{param: true}
		ok2 := true
		var expr func(e ast.Expr) string
		expr = func(e ast.Expr) string {
			switch e := e.(type) {
			case *ast.Ident:
				if scope[e.Name] {
					return "v_" + e.Name
				}
			case *ast.ParenExpr:
				return expr(e.X)
			case *ast.SliceExpr:
				// x[:], x[:len(x)], x[:len(x):len(x)], x[0:...]: the whole byte sequence again
				whole := func(b ast.Expr) bool { return b == nil || exprText(b) == "len("+exprText(e.X)+")" }
				if (e.Low == nil || exprText(e.Low) == "0") && whole(e.High) && whole(e.Max) {
					return expr(e.X)
				}
			case *ast.CallExpr:
				// a conversion between byte-string types: []byte(x), K(x), string(x)
				if len(e.Args) == 1 && !e.Ellipsis.IsValid() {
					switch exprText(e.Fun) {
					case "[]byte", "K", "string":
						return "(bytes_conv " + expr(e.Args[0]) + ")"
					case "bytes.Clone":
						return "(bytes_clone " + expr(e.Args[0]) + ")"
					}
				}
			}
			ok2 = false
			return "_"
		}
		var body strings.Builder
		closed := false
		for _, s := range fd.Body.List {
			if closed {
				ok2 = false
				break
			}
			switch s := s.(type) {
			case *ast.AssignStmt:
				if s.Tok == token.DEFINE && len(s.Lhs) == 1 && len(s.Rhs) == 1 {
					if id, ok := s.Lhs[0].(*ast.Ident); ok && !scope[id.Name] {
						fmt.Fprintf(&body, "let v_%s := %s in\n  ", id.Name, expr(s.Rhs[0]))
						scope[id.Name] = true
						continue
					}
				}
				ok2 = false
			case *ast.ReturnStmt:
				var rs []string
				for _, r := range s.Results {
					rs = append(rs, expr(r))
				}
				if len(rs) == 1 {
					body.WriteString(rs[0])
				} else {
					body.WriteString("(" + strings.Join(rs, ", ") + ")")
				}
				closed = true
			default:
				ok2 = false
			}
		}
		if !closed {
			ok2 = false
		}
		if ok2 {
			out[fd.Name.Name] = fmt.Sprintf("fun v_%s : list byte =>\n  %s", param, body.String())
		} else {
			out[fd.Name.Name] = ""
		}
	}
	var sb strings.Builder
	sb.WriteString("(* keys.go, AlphabeticalOrderKey[K]: Transform and Restore translated (see bindings.go) *)\n")
	emit := func(name, method, ty string) {
		if t, ok := out[method]; ok && t != "" {
			fmt.Fprintf(&sb, "Definition %s : %s :=\n  %s.\n", name, ty, t)
		} else {
			fmt.Fprintf(&sb, "Definition %s : untranslated := UNSUPPORTED \"%s: not found or outside the fragment\"%%string.\n", name, method)
		}
	}
	emit("g_alpha_transform", "Transform", "list byte -> list byte * list byte")
	emit("g_alpha_restore", "Restore", "list byte -> list byte")
	return sb.String()
}
