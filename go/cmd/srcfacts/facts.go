package main

// Syntactic fact tables regenerated from the source (go/ast only):
//   captured_mutations  assignments inside a returned function literal whose target
//                       is a variable declared outside that literal (C14)
//   package_vars        package-level variables with their type text (C16)
//   clear_bodies        per node type: struct fields and what clear() resets (C12)
//   append_sites        every append(X, ...) with the shape of X (C13)

import (
	"bytes"
	"fmt"
	"go/ast"
	"go/printer"
	"go/token"
	"os"
	"path/filepath"
	"sort"
	"strings"
)

func exprText(e ast.Node) string {
	var b bytes.Buffer
	printer.Fprint(&b, fset, e)
	return strings.Join(strings.Fields(b.String()), " ")
}

func coqStr(s string) string { return "\"" + strings.ReplaceAll(s, "\"", "\"\"") + "\"%string" }

func libFiles(repo string) []string {
	ents, err := os.ReadDir(repo)
	must(err)
	var out []string
	for _, e := range ents {
		n := e.Name()
		if strings.HasSuffix(n, ".go") && !strings.HasSuffix(n, "_test.go") && n != "verif_hooks.go" {
			out = append(out, n)
		}
	}
	sort.Strings(out)
	return out
}

type capMut struct {
	file, fn, v string
	line        int
}

// returned function literals and the captured variables they assign to
func capturedMutations(file string, f *ast.File) []capMut {
	var out []capMut
	for _, d := range f.Decls {
		fd, ok := d.(*ast.FuncDecl)
		if !ok || fd.Body == nil {
			continue
		}
		ast.Inspect(fd.Body, func(n ast.Node) bool {
			rs, ok := n.(*ast.ReturnStmt)
			if !ok {
				return true
			}
			for _, res := range rs.Results {
				lit, ok := res.(*ast.FuncLit)
				if !ok {
					continue
				}
				check := func(e ast.Expr) {
					id, ok := e.(*ast.Ident)
					if !ok || id.Obj == nil || id.Obj.Kind != ast.Var {
						return
					}
					declPos := token.NoPos
					if dn, ok := id.Obj.Decl.(ast.Node); ok {
						declPos = dn.Pos()
					}
					if declPos != token.NoPos && (declPos < lit.Pos() || declPos >= lit.End()) {
						out = append(out, capMut{file, fd.Name.Name, id.Name, fset.Position(id.Pos()).Line})
					}
				}
				ast.Inspect(lit.Body, func(m ast.Node) bool {
					switch s := m.(type) {
					case *ast.AssignStmt:
						if s.Tok == token.DEFINE {
							return true
						}
						for _, l := range s.Lhs {
							check(l)
						}
					case *ast.IncDecStmt:
						check(s.X)
					}
					return true
				})
			}
			return true
		})
	}
	return out
}

func collectFacts(repo string) string {
	var caps []capMut
	var pkgVars [][3]string
	type clearInfo struct {
		typ    string
		fields []string
		resets []string
	}
	clears := map[string]*clearInfo{}
	var appends [][4]string

	for _, name := range libFiles(repo) {
		f := parseFile(filepath.Join(repo, name))
		caps = append(caps, capturedMutations(name, f)...)
		for _, d := range f.Decls {
			switch x := d.(type) {
			case *ast.GenDecl:
				if x.Tok == token.VAR {
					for _, sp := range x.Specs {
						vs := sp.(*ast.ValueSpec)
						for _, n := range vs.Names {
							if n.Name == "_" {
								continue
							}
							t := ""
							if vs.Type != nil {
								t = exprText(vs.Type)
							}
							pkgVars = append(pkgVars, [3]string{name, n.Name, t})
						}
					}
				}
				if x.Tok == token.TYPE {
					for _, sp := range x.Specs {
						ts := sp.(*ast.TypeSpec)
						st, ok := ts.Type.(*ast.StructType)
						if !ok || !strings.HasPrefix(ts.Name.Name, "node") {
							continue
						}
						ci := clears[ts.Name.Name]
						if ci == nil {
							ci = &clearInfo{typ: ts.Name.Name}
							clears[ts.Name.Name] = ci
						}
						for _, fl := range st.Fields.List {
							if len(fl.Names) == 0 {
								ci.fields = append(ci.fields, exprText(fl.Type))
							}
							for _, n := range fl.Names {
								ci.fields = append(ci.fields, n.Name)
							}
						}
					}
				}
			case *ast.FuncDecl:
				if x.Recv != nil && x.Name.Name == "clear" && x.Body != nil {
					recvT := ""
					if st, ok := x.Recv.List[0].Type.(*ast.StarExpr); ok {
						recvT = exprText(st.X)
					}
					ci := clears[recvT]
					if ci == nil {
						ci = &clearInfo{typ: recvT}
						clears[recvT] = ci
					}
					recvName := ""
					if len(x.Recv.List[0].Names) > 0 {
						recvName = x.Recv.List[0].Names[0].Name
					}
					// which fields does a statement reset completely?
					fieldOf := func(e ast.Expr) string {
						for {
							switch y := e.(type) {
							case *ast.SliceExpr: // f[:]
								if y.Low != nil || y.High != nil {
									return ""
								}
								e = y.X
							case *ast.SelectorExpr:
								if id, ok := y.X.(*ast.Ident); ok && id.Name == recvName {
									return y.Sel.Name
								}
								return ""
							default:
								return ""
							}
						}
					}
					for _, st := range x.Body.List {
						switch s := st.(type) {
						case *ast.ExprStmt: // clear(n.f[:])
							if c, ok := s.X.(*ast.CallExpr); ok {
								if id, ok := c.Fun.(*ast.Ident); ok && id.Name == "clear" && len(c.Args) == 1 {
									if fn := fieldOf(c.Args[0]); fn != "" {
										ci.resets = append(ci.resets, fn)
									}
								}
							}
						case *ast.AssignStmt: // n.f = 0 / n.node = node{}
							if len(s.Lhs) == 1 && len(s.Rhs) == 1 && s.Tok == token.ASSIGN {
								zero := false
								switch r := s.Rhs[0].(type) {
								case *ast.BasicLit:
									zero = r.Value == "0"
								case *ast.CompositeLit:
									zero = len(r.Elts) == 0
								}
								if fn := fieldOf(s.Lhs[0]); fn != "" && zero {
									ci.resets = append(ci.resets, fn)
								}
							}
						}
					}
				}
				if x.Body != nil {
					fn := x.Name.Name
					if x.Recv != nil {
						fn = exprText(x.Recv.List[0].Type) + "." + fn
					}
					ast.Inspect(x.Body, func(n ast.Node) bool {
						c, ok := n.(*ast.CallExpr)
						if !ok {
							return true
						}
						id, ok := c.Fun.(*ast.Ident)
						if !ok || id.Name != "append" || len(c.Args) == 0 {
							return true
						}
						shape := "other"
						switch a := c.Args[0].(type) {
						case *ast.Ident:
							shape = "ident"
						case *ast.SliceExpr:
							if a.Slice3 {
								shape = "slice3"
							} else {
								shape = "slice"
							}
						case *ast.CompositeLit:
							shape = "fresh"
						case *ast.CallExpr:
							shape = "call"
						}
						appends = append(appends, [4]string{name, fn, shape, exprText(c.Args[0])})
						return true
					})
				}
			}
		}
	}

	var sb strings.Builder
	sb.WriteString(`(* REGENERATED by go/cmd/srcfacts from /repo on every run — do not edit. *)
From Coq Require Import List String NArith.
Import ListNotations.
Open Scope string_scope.

(* assignments, inside a function literal that is returned as a value, to a variable
   declared outside that literal: (file, enclosing function, variable, line) *)
Definition captured_mutations : list (string * string * string * N) :=
  [`)
	for i, c := range caps {
		if i > 0 {
			sb.WriteString(";\n   ")
		}
		fmt.Fprintf(&sb, "(%s, %s, %s, %d%%N)", coqStr(c.file), coqStr(c.fn), coqStr(c.v), c.line)
	}
	sb.WriteString("].\n\n(* package-level variables: (file, name, declared type) *)\nDefinition package_vars : list (string * string * string) :=\n  [")
	for i, v := range pkgVars {
		if i > 0 {
			sb.WriteString(";\n   ")
		}
		fmt.Fprintf(&sb, "(%s, %s, %s)", coqStr(v[0]), coqStr(v[1]), coqStr(v[2]))
	}
	sb.WriteString("].\n\n(* node types: (type, fields, fields reset by clear()) *)\nDefinition clear_bodies : list (string * list string * list string) :=\n  [")
	var names []string
	for n := range clears {
		names = append(names, n)
	}
	sort.Strings(names)
	first := true
	for _, n := range names {
		ci := clears[n]
		if n == "node" || n == "nodeRef" || n == "nodeKind" || len(ci.fields) == 0 {
			continue
		}
		if !first {
			sb.WriteString(";\n   ")
		}
		first = false
		q := func(l []string) string {
			var o []string
			for _, s := range l {
				o = append(o, coqStr(s))
			}
			return "[" + strings.Join(o, "; ") + "]"
		}
		fmt.Fprintf(&sb, "(%s, %s, %s)", coqStr(n), q(ci.fields), q(ci.resets))
	}
	sb.WriteString("].\n\n(* append(X, ...) sites: (file, function, shape of X, text of X) *)\nDefinition append_sites : list (string * string * string * string) :=\n  [")
	for i, a := range appends {
		if i > 0 {
			sb.WriteString(";\n   ")
		}
		fmt.Fprintf(&sb, "(%s, %s, %s, %s)", coqStr(a[0]), coqStr(a[1]), coqStr(a[2]), coqStr(a[3]))
	}
	sb.WriteString("].\n")
	sb.WriteString(collationTransformFacts(repo))
	return sb.String()
}

// collationTransformFacts: the results of (*CollationOrderKey[K]).Transform in keys.go, each classified as
// "copy" (the expression, or the local it names, is `[]byte(string(x))`, `bytes.Clone(x)`,
// `append([]byte(nil), x...)` or `append([]byte{}, x...)`: a slice that shares no memory with the argument
// or with the collator's buffer) or "other" with its text (C13, C08: the tree keeps both results in the leaf).
func collationTransformFacts(repo string) string {
	f := parseFile(filepath.Join(repo, "keys.go"))
	var res [][2]string
	isCopy := func(e ast.Expr) bool {
		c, ok := e.(*ast.CallExpr)
		if !ok {
			return false
		}
		switch exprText(c.Fun) {
		case "[]byte":
			if len(c.Args) == 1 {
				if in, ok := c.Args[0].(*ast.CallExpr); ok && exprText(in.Fun) == "string" {
					return true
				}
			}
		case "bytes.Clone":
			return len(c.Args) == 1
		case "append":
			if len(c.Args) == 2 && c.Ellipsis.IsValid() {
				t := exprText(c.Args[0])
				return t == "[]byte(nil)" || t == "[]byte{}"
			}
		}
		return false
	}
	for _, d := range f.Decls {
		fd, ok := d.(*ast.FuncDecl)
		if !ok || fd.Body == nil || fd.Recv == nil || fd.Name.Name != "Transform" || !strings.Contains(exprText(fd.Recv.List[0].Type), "CollationOrderKey") {
			continue
		}
		// locals assigned exactly once, by := , from a copying expression
		local := map[string]bool{}
		assigned := map[string]int{}
		ast.Inspect(fd.Body, func(n ast.Node) bool {
			if as, ok := n.(*ast.AssignStmt); ok {
				for i, l := range as.Lhs {
					id, ok := l.(*ast.Ident)
					if !ok {
						continue
					}
					assigned[id.Name]++
					if as.Tok == token.DEFINE && len(as.Lhs) == len(as.Rhs) && isCopy(as.Rhs[i]) {
						local[id.Name] = true
					}
				}
			}
			return true
		})
		ast.Inspect(fd.Body, func(n ast.Node) bool {
			if rs, ok := n.(*ast.ReturnStmt); ok {
				for _, r := range rs.Results {
					cls := "other"
					if isCopy(r) {
						cls = "copy"
					} else if id, ok := r.(*ast.Ident); ok && local[id.Name] && assigned[id.Name] == 1 {
						cls = "copy"
					}
					res = append(res, [2]string{exprText(r), cls})
				}
			}
			return true
		})
	}
	var sb strings.Builder
	sb.WriteString("\n(* keys.go, ( *CollationOrderKey[K]).Transform: every returned expression with its classification, \"copy\" = a slice\n   that shares no memory with the argument or with the collator's buffer ([]byte(string(x)), bytes.Clone(x),\n   append([]byte(nil), x...), or a local assigned once from such an expression), else \"other\" *)\nDefinition collation_transform_results : list (string * string) :=\n  [")
	for i, r := range res {
		if i > 0 {
			sb.WriteString("; ")
		}
		fmt.Fprintf(&sb, "(%s, %s)", coqStr(r[0]), coqStr(r[1]))
	}
	sb.WriteString("].\n")
	return sb.String()
}
