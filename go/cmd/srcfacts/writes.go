package main

// Write sites and call edges regenerated from the source (go/ast only; identifier
// resolution is the parser's file-scope resolution, ast.Ident.Obj) -> Gen/WriteFacts.v
//
//   functions      (qualified name, simple name) of every function and method of the
//                  library package; a package-level variable whose initialiser contains
//                  function literals is listed as the pseudo function "init.<var>" with
//                  simple name <var> (whoever mentions the variable may run them)
//   call_edges     (qualified caller, simple callee name): every call f(..), x.m(..),
//                  f[T](..) in the body (function literals included, attributed to the
//                  enclosing declaration) and every other MENTION of a name that is the
//                  simple name of a declared function (method values such as
//                  `t.restoreKey` handed to all(), function values)
//   heap_writes    statements that write somewhere other than a plain local variable
//   pkgvar_writes  statements that write a package-level variable or a part of one
//
// Everything is syntactic and conservative: when a location cannot be shown local it
// is reported as a heap write.

import (
	"fmt"
	"go/ast"
	"go/token"
	"path/filepath"
	"strings"
)

type heapWrite struct {
	file, fn, loc string
	line          int
}

type pkgWrite struct {
	v, fn string
	line  int
}

type writeFacts struct {
	functions [][2]string
	edges     [][2]string
	heap      []heapWrite
	pkg       []pkgWrite
}

// package-wide name tables (pass 1)
type pkgNames struct {
	vars    map[string]bool // package-level variables
	funcs   map[string]bool // package-level functions (no receiver)
	structs map[string]bool // names of struct types (declared anywhere)
	simple  map[string]bool // simple names of all functions, methods and pseudo functions
}

func unparen(e ast.Expr) ast.Expr {
	for {
		p, ok := e.(*ast.ParenExpr)
		if !ok {
			return e
		}
		e = p.X
	}
}

// the callee name of a call: f, x.m, f[T], x.m[T]
func calleeName(e ast.Expr) (string, bool) {
	for {
		switch x := unparen(e).(type) {
		case *ast.Ident:
			return x.Name, true
		case *ast.SelectorExpr:
			return x.Sel.Name, true
		case *ast.IndexExpr:
			e = x.X
		case *ast.IndexListExpr:
			e = x.X
		default:
			return "", false
		}
	}
}

// the identifier a location expression is rooted in (x in x.f[i].g, *x, x[a:b])
func rootIdent(e ast.Expr) *ast.Ident {
	for {
		switch x := unparen(e).(type) {
		case *ast.Ident:
			return x
		case *ast.SelectorExpr:
			e = x.X
		case *ast.IndexExpr:
			e = x.X
		case *ast.SliceExpr:
			e = x.X
		case *ast.StarExpr:
			e = x.X
		default:
			return nil
		}
	}
}

type fnScope struct {
	names *pkgNames
	lo    token.Pos // extent of the enclosing declaration
	hi    token.Pos
	body  ast.Node
}

func (s *fnScope) isLocalVar(id *ast.Ident) bool {
	if id.Obj == nil || id.Obj.Kind != ast.Var {
		return false
	}
	p := id.Obj.Pos()
	return p != token.NoPos && p >= s.lo && p < s.hi
}

func (s *fnScope) isPkgVar(id *ast.Ident) bool {
	return !s.isLocalVar(id) && (id.Obj == nil || id.Obj.Kind == ast.Var) && s.names.vars[id.Name]
}

func (s *fnScope) isBuiltin(id *ast.Ident, name string) bool {
	return id.Name == name && id.Obj == nil && !s.names.funcs[name] && !s.names.vars[name]
}

func (s *fnScope) structTypeExpr(t ast.Expr) bool {
	switch x := unparen(t).(type) {
	case *ast.StructType:
		return true
	case *ast.Ident:
		return s.names.structs[x.Name]
	case *ast.IndexExpr:
		return s.structTypeExpr(x.X)
	case *ast.IndexListExpr:
		return s.structTypeExpr(x.X)
	}
	return false
}

// how a local identifier was declared: its declared type (if any) and initial value (if any)
func declOf(id *ast.Ident) (typ ast.Expr, val ast.Expr, isParam bool) {
	switch d := id.Obj.Decl.(type) {
	case *ast.ValueSpec:
		typ = d.Type
		for i, n := range d.Names {
			if n.Name == id.Name && len(d.Values) == len(d.Names) {
				val = d.Values[i]
			}
		}
	case *ast.AssignStmt:
		if len(d.Lhs) == len(d.Rhs) {
			for i, l := range d.Lhs {
				if li, ok := l.(*ast.Ident); ok && li.Name == id.Name {
					val = d.Rhs[i]
				}
			}
		}
	case *ast.Field:
		isParam = true
	}
	return
}

// an expression that yields storage nobody else refers to (for slices and maps);
// self is the variable being (re)assigned: append(self, ..) and self[a:b] keep it private
func (s *fnScope) freshContainer(e ast.Expr, self *ast.Object) bool {
	switch x := unparen(e).(type) {
	case *ast.Ident:
		if x.Name == "nil" && x.Obj == nil {
			return true
		}
		return self != nil && x.Obj == self
	case *ast.CompositeLit:
		switch x.Type.(type) {
		case *ast.ArrayType, *ast.MapType:
			return true
		}
	case *ast.SliceExpr:
		return s.freshContainer(x.X, self)
	case *ast.CallExpr:
		if id, ok := x.Fun.(*ast.Ident); ok {
			if s.isBuiltin(id, "make") {
				return true
			}
			if s.isBuiltin(id, "append") && len(x.Args) > 0 {
				return s.freshContainer(x.Args[0], self)
			}
		}
	}
	return false
}

// is the identifier a local array, or a local slice/map that only ever holds storage
// created inside this function?
func (s *fnScope) localContainer(id *ast.Ident) bool {
	if !s.isLocalVar(id) {
		return false
	}
	typ, val, isParam := declOf(id)
	if isParam {
		return false // elements are shared with the caller
	}
	isArray := false
	ok := false
	if typ != nil {
		switch t := typ.(type) {
		case *ast.ArrayType:
			ok, isArray = true, t.Len != nil
		case *ast.MapType:
			ok = true
		}
		if ok && val != nil && !isArray && !s.freshContainer(val, id.Obj) {
			return false
		}
	} else if val != nil {
		if cl, isLit := unparen(val).(*ast.CompositeLit); isLit {
			if at, isArr := cl.Type.(*ast.ArrayType); isArr && at.Len != nil {
				ok, isArray = true, true
			}
		}
		if !ok {
			ok = s.freshContainer(val, nil) && !isNil(val)
		}
	}
	if !ok {
		return false
	}
	if isArray {
		return true // assignment copies an array
	}
	// every later assignment must keep the storage private
	private := true
	ast.Inspect(s.body, func(n ast.Node) bool {
		switch a := n.(type) {
		case *ast.AssignStmt:
			for i, l := range a.Lhs {
				li, isId := unparen(l).(*ast.Ident)
				if !isId || li.Obj != id.Obj || a == id.Obj.Decl {
					continue
				}
				if len(a.Lhs) != len(a.Rhs) || a.Tok != token.ASSIGN || !s.freshContainer(a.Rhs[i], id.Obj) {
					private = false
				}
			}
		case *ast.RangeStmt:
			for _, l := range []ast.Expr{a.Key, a.Value} {
				if li, isId := l.(*ast.Ident); isId && li.Obj == id.Obj && a.Tok == token.ASSIGN {
					private = false
				}
			}
		case *ast.UnaryExpr: // &q escapes
			if a.Op == token.AND {
				if li, isId := unparen(a.X).(*ast.Ident); isId && li.Obj == id.Obj {
					private = false
				}
			}
		}
		return true
	})
	return private
}

func isNil(e ast.Expr) bool {
	id, ok := unparen(e).(*ast.Ident)
	return ok && id.Name == "nil" && id.Obj == nil
}

// is the identifier a local variable holding a struct VALUE (not a pointer)?
func (s *fnScope) localStructValue(id *ast.Ident) bool {
	if !s.isLocalVar(id) {
		return false
	}
	typ, val, isParam := declOf(id)
	if isParam {
		return false
	}
	if typ != nil {
		return s.structTypeExpr(typ)
	}
	if cl, ok := unparen(val).(*ast.CompositeLit); ok && cl.Type != nil {
		return s.structTypeExpr(cl.Type)
	}
	return false
}

// classification of a written location: "" = plain local, otherwise it is a heap write
func (s *fnScope) nonLocal(lhs ast.Expr) bool {
	switch x := unparen(lhs).(type) {
	case *ast.Ident:
		if x.Name == "_" {
			return false
		}
		return !s.isLocalVar(x) // package-level variable (or unresolved: conservative)
	case *ast.SelectorExpr:
		if id, ok := unparen(x.X).(*ast.Ident); ok && s.localStructValue(id) {
			return false
		}
		return true
	case *ast.IndexExpr:
		if id, ok := unparen(x.X).(*ast.Ident); ok && s.localContainer(id) {
			return false
		}
		return true
	}
	return true // *p, and anything else
}

// destination of copy(dst, ..) / clear(x) / first argument of append: x, x[a:b], ...
func (s *fnScope) nonLocalStorage(e ast.Expr) bool {
	e = unparen(e)
	for {
		sl, ok := e.(*ast.SliceExpr)
		if !ok {
			break
		}
		e = unparen(sl.X)
	}
	if id, ok := e.(*ast.Ident); ok && s.localContainer(id) {
		return false
	}
	return true
}

// append(X, ..) never writes into existing storage when X is fresh, a private local, or
// clipped to its length (x[:n:n]) — otherwise it may write in place behind X
func (s *fnScope) appendInPlace(arg ast.Expr) bool {
	a := unparen(arg)
	if s.freshContainer(a, nil) {
		return false
	}
	if sl, ok := a.(*ast.SliceExpr); ok && sl.Slice3 && sl.High != nil && sl.Max != nil && exprText(sl.High) == exprText(sl.Max) {
		return false
	}
	return s.nonLocalStorage(a)
}

func (wf *writeFacts) scanBody(names *pkgNames, file, fn string, lo, hi token.Pos, body ast.Node) {
	s := &fnScope{names: names, lo: lo, hi: hi, body: body}
	line := func(p token.Pos) int { return fset.Position(p).Line }
	seenEdge := map[string]bool{}
	edge := func(callee string) {
		if !seenEdge[callee] {
			seenEdge[callee] = true
			wf.edges = append(wf.edges, [2]string{fn, callee})
		}
	}
	write := func(loc ast.Expr, text string, pos token.Pos) {
		wf.heap = append(wf.heap, heapWrite{file, fn, text, line(pos)})
		if id := rootIdent(loc); id != nil && s.isPkgVar(id) {
			wf.pkg = append(wf.pkg, pkgWrite{id.Name, fn, line(pos)})
		}
	}
	ast.Inspect(body, func(n ast.Node) bool {
		switch x := n.(type) {
		case *ast.AssignStmt:
			if x.Tok == token.DEFINE {
				return true
			}
			for _, l := range x.Lhs {
				if s.nonLocal(l) {
					write(l, exprText(l), l.Pos())
				}
			}
		case *ast.IncDecStmt:
			if s.nonLocal(x.X) {
				write(x.X, exprText(x.X), x.X.Pos())
			}
		case *ast.RangeStmt:
			if x.Tok == token.ASSIGN {
				for _, l := range []ast.Expr{x.Key, x.Value} {
					if l != nil && s.nonLocal(l) {
						write(l, exprText(l), l.Pos())
					}
				}
			}
		case *ast.CallExpr:
			if name, ok := calleeName(x.Fun); ok {
				edge(name)
			}
			if id, ok := unparen(x.Fun).(*ast.Ident); ok && len(x.Args) > 0 {
				switch {
				case s.isBuiltin(id, "copy"), s.isBuiltin(id, "clear"):
					if s.nonLocalStorage(x.Args[0]) {
						write(x.Args[0], id.Name+"("+exprText(x.Args[0])+")", x.Pos())
					}
				case s.isBuiltin(id, "append"):
					if s.appendInPlace(x.Args[0]) {
						write(x.Args[0], "append("+exprText(x.Args[0])+")", x.Pos())
					}
				}
			}
		case *ast.Ident:
			// a mention of a declared function's name that is not a local variable
			if x.Name != "_" && names.simple[x.Name] && !s.isLocalVar(x) {
				edge(x.Name)
			}
		}
		return true
	})
}

func hasFuncLit(e ast.Node) bool {
	found := false
	ast.Inspect(e, func(n ast.Node) bool {
		if _, ok := n.(*ast.FuncLit); ok {
			found = true
		}
		return !found
	})
	return found
}

func qualName(fd *ast.FuncDecl) string {
	if fd.Recv != nil && len(fd.Recv.List) > 0 {
		return exprText(fd.Recv.List[0].Type) + "." + fd.Name.Name
	}
	return fd.Name.Name
}

func collectWriteFacts(repo string) string {
	names := &pkgNames{vars: map[string]bool{}, funcs: map[string]bool{}, structs: map[string]bool{}, simple: map[string]bool{}}
	type parsed struct {
		name string
		f    *ast.File
	}
	var files []parsed
	wf := &writeFacts{}
	for _, name := range libFiles(repo) {
		f := parseFile(filepath.Join(repo, name))
		files = append(files, parsed{name, f})
		for _, d := range f.Decls {
			switch x := d.(type) {
			case *ast.FuncDecl:
				wf.functions = append(wf.functions, [2]string{qualName(x), x.Name.Name})
				names.simple[x.Name.Name] = true
				if x.Recv == nil {
					names.funcs[x.Name.Name] = true
				}
			case *ast.GenDecl:
				if x.Tok != token.VAR {
					continue
				}
				for _, sp := range x.Specs {
					vs := sp.(*ast.ValueSpec)
					for i, n := range vs.Names {
						if n.Name == "_" {
							continue
						}
						names.vars[n.Name] = true
						if len(vs.Values) == len(vs.Names) && hasFuncLit(vs.Values[i]) {
							wf.functions = append(wf.functions, [2]string{"init." + n.Name, n.Name})
							names.simple[n.Name] = true
						}
					}
				}
			}
		}
		ast.Inspect(f, func(n ast.Node) bool {
			if ts, ok := n.(*ast.TypeSpec); ok {
				if _, ok := ts.Type.(*ast.StructType); ok {
					names.structs[ts.Name.Name] = true
				}
			}
			return true
		})
	}
	for _, p := range files {
		for _, d := range p.f.Decls {
			switch x := d.(type) {
			case *ast.FuncDecl:
				if x.Body != nil {
					wf.scanBody(names, p.name, qualName(x), x.Pos(), x.End(), x.Body)
				}
			case *ast.GenDecl:
				if x.Tok != token.VAR {
					continue
				}
				for _, sp := range x.Specs {
					vs := sp.(*ast.ValueSpec)
					for i, n := range vs.Names {
						if n.Name != "_" && len(vs.Values) == len(vs.Names) && hasFuncLit(vs.Values[i]) {
							wf.scanBody(names, p.name, "init."+n.Name, vs.Values[i].Pos(), vs.Values[i].End(), vs.Values[i])
						}
					}
				}
			}
		}
	}

	var sb strings.Builder
	sb.WriteString(`(* REGENERATED by go/cmd/srcfacts from /repo on every run — do not edit. *)
From Coq Require Import List String NArith.
Import ListNotations.
Open Scope string_scope.

(* every function and method of the library package: (qualified name, simple name);
   "init.<v>" = the function literals in the initialiser of package-level variable v *)
Definition functions : list (string * string) :=
  [`)
	for i, f := range wf.functions {
		if i > 0 {
			sb.WriteString(";\n   ")
		}
		fmt.Fprintf(&sb, "(%s, %s)", coqStr(f[0]), coqStr(f[1]))
	}
	sb.WriteString("].\n\n(* (qualified caller, simple callee name): calls f(..), x.m(..), f[T](..) — function literals\n   attributed to the enclosing declaration — and mentions of a declared function's name *)\nDefinition call_edges : list (string * string) :=\n  [")
	for i, e := range wf.edges {
		if i > 0 {
			sb.WriteString(";\n   ")
		}
		fmt.Fprintf(&sb, "(%s, %s)", coqStr(e[0]), coqStr(e[1]))
	}
	sb.WriteString("].\n\n(* writes to anything but a plain local variable: (file, qualified function, location, line);\n   location = text of the assigned expression, or copy(dst) / clear(x) / append(x) for the builtins *)\nDefinition heap_writes : list (string * string * string * N) :=\n  [")
	for i, w := range wf.heap {
		if i > 0 {
			sb.WriteString(";\n   ")
		}
		fmt.Fprintf(&sb, "(%s, %s, %s, %d%%N)", coqStr(w.file), coqStr(w.fn), coqStr(w.loc), w.line)
	}
	sb.WriteString("].\n\n(* writes to a package-level variable or a part of one: (variable, qualified function, line) *)\nDefinition pkgvar_writes : list (string * string * N) :=\n  [")
	for i, w := range wf.pkg {
		if i > 0 {
			sb.WriteString(";\n   ")
		}
		fmt.Fprintf(&sb, "(%s, %s, %d%%N)", coqStr(w.v), coqStr(w.fn), w.line)
	}
	sb.WriteString("].\n")
	return sb.String()
}
