// translate_keys.go: the translator of /repo/keys.go (the numeric codecs
// UnsignedBinaryKey[K], SignedBinaryKey[K], FloatBinaryKey[K]; methods Transform
// and Restore) to Gallina, re-run on every run. Output: Gen/KeysGen.v, one
// definition g_<codec>_<method>_<type>[_<32|64>] per (codec, concrete key type,
// direction) and, for uint / int, per value of bits.UintSize.
// Proofs/TranslateKeysFacts.v proves each regenerated definition equal to the
// hand-written model Model/Keys.v (enc_u dec_u enc_s dec_s enc_f dec_f) on its
// domain, so an edit of keys.go that changes what a codec computes breaks a theorem.
//
// Specialisation. The methods are generic: `switch any(k).(type) { case uint16: … }`
// with k of the type parameter K. For every type T of the constraint's type set
// (read from node.go: uints, ints, floats) the method is re-type-checked by
// go/types as the plain function
//
//	type K = T
//	func Transform(k K) ([]byte, []byte) { <the body, unchanged> }
//
// (receiver dropped; a type alias makes K identical to T), against small stubs of
// encoding/binary, math and math/bits (signatures and the integer constants only;
// "unsafe" is go/types' own). bits.UintSize is a constant of the math/bits stub:
// 32 or 64 for the two variants of uint / int. The translator then resolves
// statically (1) the type switch on any(x) with x of the non-interface static
// type T: the clause listing T, else default, else nothing; (2) every `if` whose
// condition go/types folds to a constant (`bits.UintSize == 32`).
//
// Supported fragment (anything else makes the whole definition UNSUPPORTED):
//
//	types       uintN -> N (< 2^N); intN -> Z (two's complement range); uint / int only in a
//	            bits.UintSize variant (N = 32 / 64); float32 / float64 -> N, THE IEEE-754 BIT
//	            PATTERN; a float64 that is float64(x) for a float32 x -> the bit pattern of x
//	            (only math.IsInf / math.IsNaN may look at it); []byte -> list N; bool
//	statements  var x T   x := e   x = e   x op= e   (op: & | ^ &^ << >> + - *)
//	            binary.BigEndian.PutUintNN(b, e)  (b a local []byte: b becomes the written slice)
//	            if / else if / else without return inside (the value of the assigned variables)
//	            if c { …; return e } [else …]  (returning branches)    { … }
//	            switch any(x).(type)  (resolved statically)    return e    return e, e
//	expressions identifiers, constants (folded by go/constant at the type go/types gives them:
//	            math.MaxUint32 - 1, hex literals, K(0)), ^x -x !x, & | ^ &^ << >> + - *, == != < > <= >=,
//	            && ||, integer conversions, float64(x), b[i], []byte{…}, make([]byte, n),
//	            binary.BigEndian.UintNN(b), math.IsInf(f, ±1), math.IsNaN(f), math.Inf(±1), math.NaN(),
//	            float32(math.Inf(±1)), float32(math.NaN()),
//	            *(*T)(unsafe.Pointer(&x)) between uintN / intN / floatN of the same width N
package main

import (
	"bytes"
	"fmt"
	"go/ast"
	"go/constant"
	"go/parser"
	"go/printer"
	"go/token"
	"go/types"
	"math"
	"os"
	"path/filepath"
	"strings"
)

// ---------------------------------------------------------------- stubs of the imported packages

// Signatures only: what a call MEANS is fixed by the translator (kCall) and Model/GoArith.v.
const keyBinaryStubSrc = `package binary
type bigEndian struct{}
type littleEndian struct{}
var BigEndian bigEndian
var LittleEndian littleEndian
func (bigEndian) Uint16(b []byte) uint16 { return 0 }
func (bigEndian) Uint32(b []byte) uint32 { return 0 }
func (bigEndian) Uint64(b []byte) uint64 { return 0 }
func (bigEndian) PutUint16(b []byte, v uint16) {}
func (bigEndian) PutUint32(b []byte, v uint32) {}
func (bigEndian) PutUint64(b []byte, v uint64) {}
func (littleEndian) Uint16(b []byte) uint16 { return 0 }
func (littleEndian) Uint32(b []byte) uint32 { return 0 }
func (littleEndian) Uint64(b []byte) uint64 { return 0 }
func (littleEndian) PutUint16(b []byte, v uint16) {}
func (littleEndian) PutUint32(b []byte, v uint32) {}
func (littleEndian) PutUint64(b []byte, v uint64) {}
`

// The integer limits are the definitions of $GOROOT/src/math/const.go.
const keyMathStubSrc = `package math
const (
	MaxInt8   = 1<<7 - 1
	MinInt8   = -1 << 7
	MaxInt16  = 1<<15 - 1
	MinInt16  = -1 << 15
	MaxInt32  = 1<<31 - 1
	MinInt32  = -1 << 31
	MaxInt64  = 1<<63 - 1
	MinInt64  = -1 << 63
	MaxUint8  = 1<<8 - 1
	MaxUint16 = 1<<16 - 1
	MaxUint32 = 1<<32 - 1
	MaxUint64 = 1<<64 - 1
)
func IsInf(f float64, sign int) bool { return false }
func IsNaN(f float64) bool { return false }
func Inf(sign int) float64 { return 0 }
func NaN() float64 { return 0 }
`

type keyImporter struct {
	fset     *token.FileSet
	uintSize int
	pkgs     map[string]*types.Package
}

func (im *keyImporter) Import(path string) (*types.Package, error) {
	if p, ok := im.pkgs[path]; ok {
		return p, nil
	}
	if path == "unsafe" {
		return types.Unsafe, nil
	}
	var src string
	switch path {
	case "encoding/binary":
		src = keyBinaryStubSrc
	case "math":
		src = keyMathStubSrc
	case "math/bits":
		src = strings.Replace(bitsStubSrc, "const UintSize = 64", fmt.Sprintf("const UintSize = %d", im.uintSize), 1)
	default:
		return nil, fmt.Errorf("import %q is outside the translated fragment", path)
	}
	f, err := parser.ParseFile(im.fset, strings.ReplaceAll(path, "/", "_")+"_stub.go", src, 0)
	if err != nil {
		return nil, err
	}
	p, err := (&types.Config{}).Check(path, im.fset, []*ast.File{f}, nil)
	if err != nil {
		return nil, err
	}
	im.pkgs[path] = p
	return p, nil
}

var keyStubbed = map[string]bool{"encoding/binary": true, "math": true, "math/bits": true, "unsafe": true}

func init() {
	for _, w := range strings.Fields(`wrapw addw subw mulw notw shlw shrw negw bits_of_int int_of_bits
		be_uint16 be_uint32 be_uint64 be_put_uint16 be_put_uint32 be_put_uint64
		f_mant f_expo f_pinf f_ninf f_nan f_is_pinf f_is_ninf f_is_nan repeat skipn app length`) {
		coqReserved[w] = true
	}
}

// ---------------------------------------------------------------- sorts

type kKind int

const (
	kBad     kKind = iota
	kBool          // bool
	kUint          // N, < 2^w
	kSint          // Z, -2^(w-1) <= . < 2^(w-1)
	kFloat         // N: the IEEE-754 bit pattern (w = 32, 64)
	kF64of32       // a float64 equal to float64(x), x a float32: N, the bit pattern of x
	kBytes         // list N
)

type kSort struct {
	k kKind
	w int
}

func (s kSort) coqType() string {
	switch s.k {
	case kBool:
		return "bool"
	case kUint, kFloat, kF64of32:
		return "N"
	case kSint:
		return "Z"
	case kBytes:
		return "list N"
	}
	return "?"
}

func (s kSort) String() string {
	switch s.k {
	case kBool:
		return "bool"
	case kUint:
		return fmt.Sprintf("uint%d", s.w)
	case kSint:
		return fmt.Sprintf("int%d", s.w)
	case kFloat:
		return fmt.Sprintf("float%d", s.w)
	case kF64of32:
		return "float64(float32)"
	case kBytes:
		return "[]byte"
	}
	return "?"
}

type keyTr struct {
	*fnTr
	word  int // bits.UintSize of this variant (32 / 64); 0: no variant, int and uint values are outside the fragment
	sorts map[types.Object]kSort
}

func (t *keyTr) sortOfType(ty types.Type) kSort {
	if ty == nil {
		return kSort{}
	}
	switch u := ty.Underlying().(type) {
	case *types.Basic:
		switch u.Kind() {
		case types.Bool, types.UntypedBool:
			return kSort{kBool, 0}
		case types.Uint8:
			return kSort{kUint, 8}
		case types.Uint16:
			return kSort{kUint, 16}
		case types.Uint32:
			return kSort{kUint, 32}
		case types.Uint64:
			return kSort{kUint, 64}
		case types.Uint, types.Uintptr:
			if t.word != 0 {
				return kSort{kUint, t.word}
			}
		case types.Int8:
			return kSort{kSint, 8}
		case types.Int16:
			return kSort{kSint, 16}
		case types.Int32:
			return kSort{kSint, 32}
		case types.Int64:
			return kSort{kSint, 64}
		case types.Int:
			if t.word != 0 {
				return kSort{kSint, t.word}
			}
		case types.Float32:
			return kSort{kFloat, 32}
		case types.Float64:
			return kSort{kFloat, 64}
		}
	case *types.Slice:
		if isByte(u.Elem()) {
			return kSort{kBytes, 0}
		}
	}
	return kSort{}
}

func natLit(v constant.Value) (string, bool) {
	iv := constant.ToInt(v)
	if iv.Kind() != constant.Int || constant.Sign(iv) < 0 {
		return "", false
	}
	if u, ok := constant.Uint64Val(iv); ok {
		if u >= 64 {
			return fmt.Sprintf("0x%X", u), true
		}
		return fmt.Sprint(u), true
	}
	return iv.ExactString(), true
}

// kLit: a Go constant at the sort of the type go/types converted it to
func kLit(v constant.Value, s kSort) (string, bool) {
	if v == nil {
		return "", false
	}
	switch s.k {
	case kBool:
		if v.Kind() == constant.Bool {
			if constant.BoolVal(v) {
				return "true", true
			}
			return "false", true
		}
	case kUint:
		return natLit(v)
	case kSint:
		iv := constant.ToInt(v)
		if iv.Kind() != constant.Int {
			return "", false
		}
		if constant.Sign(iv) < 0 {
			l, ok := natLit(constant.UnaryOp(token.SUB, iv, 0))
			return "(-" + l + ")%Z", ok
		}
		l, ok := natLit(iv)
		return l + "%Z", ok
	case kFloat: // the bit pattern of the constant, rounded to the type as the Go compiler does
		fv := constant.ToFloat(v)
		if fv.Kind() != constant.Float {
			return "", false
		}
		if s.w == 32 {
			f, _ := constant.Float32Val(fv)
			return natLit(constant.MakeUint64(uint64(math.Float32bits(f))))
		}
		f, _ := constant.Float64Val(fv)
		return natLit(constant.MakeUint64(math.Float64bits(f)))
	}
	return "", false
}

// ---------------------------------------------------------------- expressions

func (t *keyTr) mentionsUintSize(e ast.Expr) bool {
	found := false
	ast.Inspect(e, func(n ast.Node) bool {
		if id, ok := n.(*ast.Ident); ok {
			if c, ok := t.info.Uses[id].(*types.Const); ok && c.Pkg() != nil && c.Pkg().Path() == "math/bits" && c.Name() == "UintSize" {
				found = true
			}
		}
		return !found
	})
	return found
}

// the value of a constant expression; bits.UintSize has a value only inside a uint / int variant
func (t *keyTr) constOf(e ast.Expr) (constant.Value, bool) {
	tv, ok := t.info.Types[e]
	if !ok || tv.Value == nil {
		return nil, false
	}
	if t.word == 0 && t.mentionsUintSize(e) {
		t.fail(e, "bits.UintSize outside a uint / int specialisation")
	}
	return tv.Value, true
}

func (t *keyTr) localVar(e ast.Expr) (types.Object, kSort, bool) {
	id, ok := ast.Unparen(e).(*ast.Ident)
	if !ok {
		return nil, kSort{}, false
	}
	obj := t.info.Uses[id]
	if obj == nil {
		obj = t.info.Defs[id]
	}
	s, ok := t.sorts[obj]
	return obj, s, ok
}

func (t *keyTr) pkgFunc(fun ast.Expr, path string) (string, bool) { // math.IsInf -> "IsInf"
	sel, ok := ast.Unparen(fun).(*ast.SelectorExpr)
	if !ok {
		return "", false
	}
	f, ok := t.info.Uses[sel.Sel].(*types.Func)
	if !ok || f.Pkg() == nil || f.Pkg().Path() != path {
		return "", false
	}
	if id, ok := ast.Unparen(sel.X).(*ast.Ident); ok {
		if _, ok := t.info.Uses[id].(*types.PkgName); ok {
			return f.Name(), true
		}
	}
	return "", false
}

// binary.BigEndian.PutUint32 -> "PutUint32"
func (t *keyTr) bigEndianMethod(fun ast.Expr) (string, bool) {
	sel, ok := ast.Unparen(fun).(*ast.SelectorExpr)
	if !ok {
		return "", false
	}
	f, ok := t.info.Uses[sel.Sel].(*types.Func)
	if !ok || f.Pkg() == nil || f.Pkg().Path() != "encoding/binary" {
		return "", false
	}
	in, ok := ast.Unparen(sel.X).(*ast.SelectorExpr)
	if !ok {
		return "", false
	}
	v, ok := t.info.Uses[in.Sel].(*types.Var)
	if !ok || v.Pkg() == nil || v.Pkg().Path() != "encoding/binary" || v.Name() != "BigEndian" {
		return "", false
	}
	if id, ok := ast.Unparen(in.X).(*ast.Ident); ok {
		if _, ok := t.info.Uses[id].(*types.PkgName); ok {
			return f.Name(), true
		}
	}
	return "", false
}

func (t *keyTr) signArg(e ast.Expr) int { // the constant sign argument of math.IsInf / math.Inf
	v, ok := t.constOf(e)
	if !ok {
		t.fail(e, "sign argument is not a constant")
	}
	return constant.Sign(constant.ToInt(v))
}

func (t *keyTr) kExpr(e ast.Expr) (string, kSort) {
	e = ast.Unparen(e)
	if v, ok := t.constOf(e); ok {
		s := t.sortOfType(t.info.Types[e].Type)
		if l, ok := kLit(v, s); ok {
			return l, s
		}
		t.fail(e, "constant outside the fragment")
	}
	tv, ok := t.info.Types[e]
	if !ok {
		t.fail(e, "no type recorded (the specialised method does not type-check)")
	}
	switch x := e.(type) {
	case *ast.Ident:
		if obj, s, ok := t.localVar(x); ok {
			return t.nameOf(obj), s
		}
		t.fail(e, "identifier outside the fragment")
	case *ast.StarExpr:
		return t.reinterpret(x)
	case *ast.UnaryExpr:
		a, s := t.kExpr(x.X)
		w := fmt.Sprint(s.w)
		switch {
		case x.Op == token.SUB && s.k == kSint:
			return app("negw", w, a), s // two's complement negation at the width of the operand
		case x.Op == token.XOR && s.k == kUint:
			return app("notw", w, a), s
		case x.Op == token.ADD && (s.k == kUint || s.k == kSint):
			return a, s
		case x.Op == token.NOT && s.k == kBool:
			return app("negb", a), s
		}
		t.fail(e, "unary operator outside the fragment")
	case *ast.BinaryExpr:
		a, s := t.kExpr(x.X)
		return t.kBinary(e, x.Op, a, s, x.Y)
	case *ast.CallExpr:
		return t.kCall(x)
	case *ast.IndexExpr:
		a, s := t.kExpr(x.X)
		if s.k != kBytes {
			t.fail(e, "index of a non-[]byte")
		}
		if v, ok := t.constOf(x.Index); ok {
			n, exact := constant.Uint64Val(constant.ToInt(v))
			if !exact {
				t.fail(e, "index constant")
			}
			return app("nth", fmt.Sprintf("%d%%nat", n), a, "0"), kSort{kUint, 8} // out of range panics in Go; nth's default is never reached under the length hypothesis
		}
		i, is := t.kExpr(x.Index)
		if is.k != kUint {
			t.fail(e, "index type")
		}
		return app("nth", app("N.to_nat", i), a, "0"), kSort{kUint, 8}
	case *ast.CompositeLit:
		if t.sortOfType(tv.Type).k != kBytes {
			t.fail(e, "composite literal outside the fragment (only []byte{...})")
		}
		var elts []string
		for _, el := range x.Elts {
			if _, kv := el.(*ast.KeyValueExpr); kv {
				t.fail(e, "keyed composite literal")
			}
			c, s := t.kExpr(el)
			if s != (kSort{kUint, 8}) {
				t.fail(el, "element type")
			}
			elts = append(elts, top(c))
		}
		return "[" + strings.Join(elts, "; ") + "]", kSort{kBytes, 0}
	}
	t.fail(e, "expression outside the fragment")
	return "", kSort{}
}

// *(*T)(unsafe.Pointer(&x)): the object representation of the variable x read at type T
func (t *keyTr) reinterpret(e *ast.StarExpr) (string, kSort) {
	bad := func() { t.fail(e, "dereference outside the fragment (only *(*T)(unsafe.Pointer(&x)))") }
	call, ok := ast.Unparen(e.X).(*ast.CallExpr)
	if !ok || len(call.Args) != 1 {
		bad()
	}
	ftv, ok := t.info.Types[call.Fun]
	if !ok || !ftv.IsType() {
		bad()
	}
	ptr, ok := ftv.Type.Underlying().(*types.Pointer)
	if !ok {
		bad()
	}
	to := t.sortOfType(ptr.Elem())
	in, ok := ast.Unparen(call.Args[0]).(*ast.CallExpr)
	if !ok || len(in.Args) != 1 {
		bad()
	}
	itv, ok := t.info.Types[in.Fun]
	if !ok || !itv.IsType() || !types.Identical(itv.Type, types.Typ[types.UnsafePointer]) {
		bad()
	}
	addr, ok := ast.Unparen(in.Args[0]).(*ast.UnaryExpr)
	if !ok || addr.Op != token.AND {
		bad()
	}
	obj, from, ok := t.localVar(addr.X)
	if !ok {
		bad()
	}
	name, w := t.nameOf(obj), fmt.Sprint(from.w)
	switch {
	case to.k == kBad || from.k == kBad || to.w != from.w || to.w == 0:
		// a different width would read part of, or beyond, the variable
	case to == from:
		return name, to
	case from.k == kSint && to.k == kUint:
		return app("bits_of_int", w, name), to // the two's complement bits
	case from.k == kUint && to.k == kSint:
		return app("int_of_bits", w, name), to // the signed reading
	case from.k == kFloat && to.k == kUint, from.k == kUint && to.k == kFloat:
		return name, to // a float IS its bit pattern in the translation
	}
	t.fail(e, fmt.Sprintf("reinterpretation of %s as %s", from, to))
	return "", kSort{}
}

func (t *keyTr) kCount(e ast.Expr) string { // shift count: unsigned (a negative int count panics)
	if v, ok := t.constOf(e); ok {
		if l, ok := natLit(v); ok {
			return l
		}
		t.fail(e, "shift count")
	}
	c, s := t.kExpr(e)
	if s.k != kUint {
		t.fail(e, "shift count type")
	}
	return c
}

func (t *keyTr) kBinary(at ast.Node, op token.Token, a string, s kSort, y ast.Expr) (string, kSort) {
	w := fmt.Sprint(s.w)
	if op == token.SHL || op == token.SHR {
		if s.k != kUint {
			t.fail(at, "shift at this type (only unsigned)")
		}
		if op == token.SHL {
			return app("shlw", w, a, t.kCount(y)), s
		}
		return app("shrw", w, a, t.kCount(y)), s
	}
	b, sb := t.kExpr(y)
	if sb != s {
		t.fail(at, fmt.Sprintf("operands of different types (%s, %s)", s, sb))
	}
	switch op {
	case token.AND, token.OR, token.XOR, token.AND_NOT:
		if s.k != kUint {
			t.fail(at, "bit operator at this type (only unsigned)")
		}
		f := map[token.Token]string{token.AND: "N.land", token.OR: "N.lor", token.XOR: "N.lxor", token.AND_NOT: "N.ldiff"}[op]
		return app(f, a, b), s
	case token.ADD, token.SUB, token.MUL:
		if s.k != kUint {
			t.fail(at, "arithmetic at this type (only unsigned)")
		}
		f := map[token.Token]string{token.ADD: "addw", token.SUB: "subw", token.MUL: "mulw"}[op]
		return app(f, w, a, b), s // wraps at the operand width
	case token.EQL, token.NEQ, token.LSS, token.LEQ, token.GTR, token.GEQ:
		pre := "N."
		switch s.k {
		case kUint:
		case kSint:
			pre = "Z."
		case kBool:
			if op == token.EQL {
				return app("Bool.eqb", a, b), kSort{kBool, 0}
			}
			t.fail(at, "comparison at this type")
		default:
			t.fail(at, "comparison at this type (a float comparison is not a comparison of bit patterns)")
		}
		bo := kSort{kBool, 0}
		switch op {
		case token.EQL:
			return app(pre+"eqb", a, b), bo
		case token.NEQ:
			return app("negb", app(pre+"eqb", a, b)), bo
		case token.LSS:
			return app(pre+"ltb", a, b), bo
		case token.LEQ:
			return app(pre+"leb", a, b), bo
		case token.GTR:
			return app(pre+"ltb", b, a), bo
		case token.GEQ:
			return app(pre+"leb", b, a), bo
		}
	case token.LAND, token.LOR:
		if s.k != kBool {
			t.fail(at, "logical operator at this type")
		}
		if op == token.LAND {
			return app("andb", a, b), s
		}
		return app("orb", a, b), s
	}
	t.fail(at, "binary operator outside the fragment")
	return "", kSort{}
}

func (t *keyTr) kCall(x *ast.CallExpr) (string, kSort) {
	if x.Ellipsis != token.NoPos {
		t.fail(x, "call outside the fragment")
	}
	fun := ast.Unparen(x.Fun)
	if tv, ok := t.info.Types[fun]; ok && tv.IsType() { // conversion
		if len(x.Args) != 1 {
			t.fail(x, "conversion")
		}
		to := t.sortOfType(tv.Type)
		if to.k == kFloat { // T(math.Inf(±1)), T(math.NaN()): the bit patterns at the width of T
			if in, ok := ast.Unparen(x.Args[0]).(*ast.CallExpr); ok {
				if name, ok := t.pkgFunc(in.Fun, "math"); ok {
					w := fmt.Sprint(to.w)
					switch {
					case name == "Inf" && len(in.Args) == 1 && t.signArg(in.Args[0]) >= 0:
						return app("f_pinf", w), to
					case name == "Inf" && len(in.Args) == 1:
						return app("f_ninf", w), to
					case name == "NaN" && len(in.Args) == 0:
						return app("f_nan", w), to
					}
				}
			}
		}
		a, from := t.kExpr(x.Args[0])
		w := fmt.Sprint(to.w)
		switch {
		case to.k == kBad || from.k == kBad:
		case to == from:
			return a, to
		case to.k == kUint && from.k == kUint && to.w > from.w:
			return a, to // widening: the value is unchanged
		case to.k == kUint && from.k == kUint:
			return app("wrapw", w, a), to
		case to.k == kSint && from.k == kSint && to.w > from.w:
			return a, to // sign extension: the value is unchanged
		case to.k == kSint && from.k == kSint:
			return app("int_of_bits", w, app("bits_of_int", w, a)), to
		case to.k == kUint && from.k == kSint:
			return app("bits_of_int", w, a), to // sign-extend, then truncate: the value mod 2^w
		case to.k == kSint && from.k == kUint && to.w > from.w:
			return app("Z.of_N", a), to
		case to.k == kSint && from.k == kUint && to.w == from.w:
			return app("int_of_bits", w, a), to
		case to.k == kSint && from.k == kUint:
			return app("int_of_bits", w, app("wrapw", w, a)), to
		case to == kSort{kFloat, 64} && from == kSort{kFloat, 32}:
			return a, kSort{kF64of32, 0} // exact; only its class (±Inf, NaN) may be inspected
		}
		t.fail(x, fmt.Sprintf("conversion of %s to %s", from, to))
	}
	if id, ok := fun.(*ast.Ident); ok {
		if b, ok := t.info.Uses[id].(*types.Builtin); ok && b.Name() == "make" {
			if len(x.Args) < 2 || len(x.Args) > 3 || t.sortOfType(t.info.Types[x.Args[0]].Type).k != kBytes {
				t.fail(x, "make outside the fragment (only make([]byte, n))")
			}
			v, ok := t.constOf(x.Args[1])
			if !ok {
				t.fail(x, "make with a non-constant length")
			}
			n, exact := constant.Uint64Val(constant.ToInt(v))
			if !exact || n > 1<<16 {
				t.fail(x, "make length")
			}
			return app("repeat", "0", fmt.Sprintf("%d%%nat", n)), kSort{kBytes, 0} // n zero bytes
		}
	}
	if name, ok := t.bigEndianMethod(fun); ok && len(x.Args) == 1 {
		if w, ok := map[string]int{"Uint16": 16, "Uint32": 32, "Uint64": 64}[name]; ok {
			a, s := t.kExpr(x.Args[0])
			if s.k != kBytes {
				t.fail(x, "argument type")
			}
			return app(fmt.Sprintf("be_uint%d", w), a), kSort{kUint, w}
		}
	}
	if name, ok := t.pkgFunc(fun, "math"); ok {
		switch {
		case (name == "IsInf" && len(x.Args) == 2) || (name == "IsNaN" && len(x.Args) == 1):
			a, s := t.kExpr(x.Args[0])
			var w string
			switch {
			case s == kSort{kFloat, 64}:
				w = "64"
			case s.k == kF64of32: // float32 -> float64 is exact and keeps the class: the predicate on the float32
				w = "32"
			default:
				t.fail(x, "argument type")
			}
			bo := kSort{kBool, 0}
			if name == "IsNaN" {
				return app("f_is_nan", w, a), bo
			}
			switch sg := t.signArg(x.Args[1]); {
			case sg > 0:
				return app("f_is_pinf", w, a), bo
			case sg < 0:
				return app("f_is_ninf", w, a), bo
			}
			return app("orb", app("f_is_pinf", w, a), app("f_is_ninf", w, a)), bo
		case name == "Inf" && len(x.Args) == 1:
			if t.signArg(x.Args[0]) >= 0 {
				return "(f_pinf 64)", kSort{kFloat, 64}
			}
			return "(f_ninf 64)", kSort{kFloat, 64}
		case name == "NaN" && len(x.Args) == 0:
			return "(f_nan 64)", kSort{kFloat, 64}
		}
	}
	t.fail(x, "call outside the fragment")
	return "", kSort{}
}

// ---------------------------------------------------------------- statements

// the variables declared outside the statement n and assigned inside it
// (binary.BigEndian.PutUintNN(b, e) assigns b), in order of first assignment
func (t *keyTr) assignedOuterOf(n ast.Node) []types.Object {
	var out []types.Object
	seen := map[types.Object]bool{}
	add := func(e ast.Expr) {
		id, ok := ast.Unparen(e).(*ast.Ident)
		if !ok {
			t.fail(e, "assignment target outside the fragment")
		}
		obj := t.info.Uses[id]
		if obj == nil || (obj.Pos() >= n.Pos() && obj.Pos() < n.End()) {
			return // declared inside
		}
		if !seen[obj] {
			seen[obj] = true
			out = append(out, obj)
		}
	}
	ast.Inspect(n, func(m ast.Node) bool {
		switch s := m.(type) {
		case *ast.AssignStmt:
			for _, l := range s.Lhs {
				add(l)
			}
		case *ast.IncDecStmt:
			add(s.X)
		case *ast.ExprStmt:
			if c, ok := s.X.(*ast.CallExpr); ok && len(c.Args) > 0 {
				if _, ok := t.bigEndianMethod(c.Fun); ok {
					add(c.Args[0])
				}
			}
		}
		return true
	})
	return out
}

func (t *keyTr) declare(obj types.Object, s kSort, at ast.Node) string {
	if obj == nil {
		t.fail(at, "declaration")
	}
	if s.k == kBad {
		t.fail(at, fmt.Sprintf("variable of type %s", obj.Type()))
	}
	t.sorts[obj] = s
	return t.nameOf(obj)
}

func zeroOf(s kSort) string {
	switch s.k {
	case kBool:
		return "false"
	case kUint, kFloat:
		return "0"
	case kSint:
		return "0%Z"
	case kBytes:
		return "(@nil N)" // the nil slice
	}
	return "?"
}

func (t *keyTr) kCond(e ast.Expr) string {
	c, s := t.kExpr(e)
	if s.k != kBool {
		t.fail(e, "condition")
	}
	return top(c)
}

// the clause of `switch any(x).(type)` taken when x has the non-interface static type of x
func (t *keyTr) staticClause(s *ast.TypeSwitchStmt) []ast.Stmt {
	es, ok := s.Assign.(*ast.ExprStmt)
	if !ok || s.Init != nil {
		t.fail(s, "type switch with a binding or an init statement")
	}
	ta, ok := ast.Unparen(es.X).(*ast.TypeAssertExpr)
	if !ok || ta.Type != nil {
		t.fail(s, "type switch")
	}
	conv, ok := ast.Unparen(ta.X).(*ast.CallExpr)
	if !ok || len(conv.Args) != 1 {
		t.fail(s, "type switch on something else than any(x)")
	}
	if ctv, ok := t.info.Types[conv.Fun]; !ok || !ctv.IsType() || !types.IsInterface(ctv.Type) {
		t.fail(s, "type switch on something else than any(x)")
	}
	xtv, ok := t.info.Types[conv.Args[0]]
	if !ok || xtv.Type == nil || types.IsInterface(xtv.Type) {
		t.fail(s, "type switch on a value whose static type is an interface")
	}
	var deflt *ast.CaseClause
	for _, c := range s.Body.List {
		cc := c.(*ast.CaseClause)
		if cc.List == nil {
			deflt = cc
			continue
		}
		for _, te := range cc.List {
			if ttv, ok := t.info.Types[te]; ok && ttv.IsType() && types.Identical(ttv.Type, xtv.Type) {
				return cc.Body
			}
		}
	}
	if deflt != nil {
		return deflt.Body
	}
	return nil
}

func hasBranchStmt(list []ast.Stmt) bool {
	found := false
	for _, s := range list {
		ast.Inspect(s, func(n ast.Node) bool {
			switch n.(type) {
			case *ast.BranchStmt, *ast.FuncLit, *ast.DeferStmt, *ast.GoStmt, *ast.LabeledStmt:
				found = true
			}
			return !found
		})
	}
	return found
}

func concatStmts(a []ast.Stmt, b []ast.Stmt) []ast.Stmt {
	out := make([]ast.Stmt, 0, len(a)+len(b))
	out = append(out, a...)
	return append(out, b...)
}

// kStmts translates a statement list; tail() is the term the list continues with when control falls off its end.
func (t *keyTr) kStmts(list []ast.Stmt, tail func() string, ind string) string {
	if len(list) == 0 {
		return ind + tail()
	}
	st, rest := list[0], list[1:]
	let := func(name, code string) string {
		return ind + "let " + name + " := " + top(code) + " in\n" + t.kStmts(rest, tail, ind)
	}
	switch s := st.(type) {
	case *ast.EmptyStmt:
		return t.kStmts(rest, tail, ind)
	case *ast.BlockStmt:
		return t.kStmts(concatStmts(s.List, rest), tail, ind)
	case *ast.ReturnStmt: // statements after a return are unreachable
		return ind + t.ret(s)
	case *ast.TypeSwitchStmt:
		body := t.staticClause(s)
		if hasBranchStmt(body) {
			t.fail(s, "break / goto inside a type switch clause")
		}
		return t.kStmts(concatStmts(body, rest), tail, ind)
	case *ast.DeclStmt:
		gd, ok := s.Decl.(*ast.GenDecl)
		if !ok || gd.Tok != token.VAR || len(gd.Specs) != 1 {
			t.fail(s, "declaration outside the fragment")
		}
		vs := gd.Specs[0].(*ast.ValueSpec)
		if len(vs.Names) != 1 || len(vs.Values) > 1 || vs.Names[0].Name == "_" {
			t.fail(s, "declaration of several variables")
		}
		obj := t.info.Defs[vs.Names[0]]
		if obj == nil {
			t.fail(s, "declaration")
		}
		ds := t.sortOfType(obj.Type())
		code := zeroOf(ds)
		if len(vs.Values) == 1 {
			c, rs := t.kExpr(vs.Values[0])
			if rs.k == kF64of32 && ds == (kSort{kFloat, 64}) {
				ds = rs
			}
			if rs != ds {
				t.fail(s, "declaration with a value of a different type")
			}
			code = c
		}
		return let(t.declare(obj, ds, s), code)
	case *ast.ExprStmt:
		if c, ok := s.X.(*ast.CallExpr); ok && len(c.Args) == 2 {
			if name, ok := t.bigEndianMethod(c.Fun); ok {
				if w, ok := map[string]int{"PutUint16": 16, "PutUint32": 32, "PutUint64": 64}[name]; ok {
					obj, bs, ok := t.localVar(c.Args[0])
					if !ok || bs.k != kBytes {
						t.fail(s, "destination is not a local []byte variable")
					}
					v, vsort := t.kExpr(c.Args[1])
					if vsort != (kSort{kUint, w}) {
						t.fail(s, "argument type")
					}
					return let(t.nameOf(obj), app(fmt.Sprintf("be_put_uint%d", w), t.nameOf(obj), v))
				}
			}
		}
		t.fail(s, "expression statement outside the fragment")
	case *ast.AssignStmt:
		if len(s.Lhs) != 1 || len(s.Rhs) != 1 {
			t.fail(s, "multiple assignment")
		}
		id, ok := ast.Unparen(s.Lhs[0]).(*ast.Ident)
		if !ok || id.Name == "_" {
			t.fail(s, "assignment target outside the fragment")
		}
		if s.Tok == token.DEFINE {
			obj := t.info.Defs[id]
			if obj == nil {
				t.fail(s, "redeclaration by :=")
			}
			c, rs := t.kExpr(s.Rhs[0])
			if rs.k == kBytes {
				if _, _, isVar := t.localVar(s.Rhs[0]); isVar {
					t.fail(s, "a second name for a slice (aliasing is outside the fragment)")
				}
			}
			return let(t.declare(obj, rs, s), c)
		}
		obj, ls, ok := t.localVar(id)
		if !ok {
			t.fail(s, "assignment to something else than a local variable")
		}
		if s.Tok == token.ASSIGN {
			c, rs := t.kExpr(s.Rhs[0])
			if rs != ls {
				t.fail(s, fmt.Sprintf("assignment between different types (%s, %s)", ls, rs))
			}
			if rs.k == kBytes {
				if _, _, isVar := t.localVar(s.Rhs[0]); isVar {
					t.fail(s, "a second name for a slice (aliasing is outside the fragment)")
				}
			}
			return let(t.nameOf(obj), c)
		}
		if op, ok := assignOps[s.Tok]; ok {
			c, _ := t.kBinary(s, op, t.nameOf(obj), ls, s.Rhs[0])
			return let(t.nameOf(obj), c)
		}
		t.fail(s, "assignment operator outside the fragment")
	case *ast.IfStmt:
		if s.Init != nil {
			t.fail(s, "if with an init statement")
		}
		if v, ok := t.constOf(s.Cond); ok { // e.g. bits.UintSize == 32: the branch is chosen statically
			if v.Kind() != constant.Bool {
				t.fail(s.Cond, "condition")
			}
			var chosen []ast.Stmt
			if constant.BoolVal(v) {
				chosen = []ast.Stmt{s.Body}
			} else if s.Else != nil {
				chosen = []ast.Stmt{s.Else}
			}
			return t.kStmts(concatStmts(chosen, rest), tail, ind)
		}
		if !escapes(s) { // no return inside: the if is the value of the outer variables it assigns
			vars := t.assignedOuterOf(s)
			if len(vars) == 0 {
				t.ifValue(s, "tt", ind) // conditions have no side effects in the fragment; still insist that it is translatable
				return t.kStmts(rest, tail, ind)
			}
			for _, o := range vars {
				if _, ok := t.sorts[o]; !ok {
					t.fail(s, "assignment to something else than a local variable")
				}
			}
			pat, val := t.tuple(vars)
			return ind + "let " + pat + " :=\n" + ind + "  " + t.ifValue(s, val, ind+"  ") + " in\n" + t.kStmts(rest, tail, ind)
		}
		// a return inside: the then-branch must end in a return; the else part continues with the rest
		n := len(s.Body.List)
		if n == 0 {
			t.fail(s, "control flow inside an if")
		}
		if _, ok := s.Body.List[n-1].(*ast.ReturnStmt); !ok {
			t.fail(s, "an if with a return inside whose then-branch does not end in a return")
		}
		for _, b := range s.Body.List[:n-1] {
			if escapes(b) {
				t.fail(b, "control flow inside a returning if")
			}
		}
		c := t.kCond(s.Cond)
		thenC := t.kStmts(s.Body.List, nil, ind+"  ")
		var cont []ast.Stmt
		if s.Else != nil {
			cont = []ast.Stmt{s.Else}
		}
		elseC := t.kStmts(concatStmts(cont, rest), tail, ind+"  ")
		return ind + "if " + c + " then (\n" + thenC + "\n" + ind + ") else (\n" + elseC + "\n" + ind + ")"
	}
	t.fail(st, "statement outside the fragment")
	return ""
}

// ifValue: `if c {A} else if d {B} else {C}` without returns, as the value val (the assigned outer variables)
func (t *keyTr) ifValue(s *ast.IfStmt, val string, ind string) string {
	if s.Init != nil {
		t.fail(s, "if with an init statement")
	}
	block := func(list []ast.Stmt) string {
		return "(\n" + t.kStmts(list, func() string { return val }, ind+"  ") + "\n" + ind + ")"
	}
	elsePart := func() string {
		switch e := s.Else.(type) {
		case nil:
			return val
		case *ast.IfStmt:
			return t.ifValue(e, val, ind)
		case *ast.BlockStmt:
			return block(e.List)
		}
		t.fail(s, "else")
		return ""
	}
	if v, ok := t.constOf(s.Cond); ok {
		if v.Kind() != constant.Bool {
			t.fail(s.Cond, "condition")
		}
		if constant.BoolVal(v) {
			return block(s.Body.List)
		}
		return elsePart()
	}
	c := t.kCond(s.Cond)
	return "if " + c + " then " + block(s.Body.List) + " else " + elsePart()
}

// ---------------------------------------------------------------- one specialised method

// Go text inside a Coq comment: "(*" and "*)" would open / close a comment
func coqCommentSafe(s string) string {
	return strings.ReplaceAll(strings.ReplaceAll(s, "(*", "( *"), "*)", "* )")
}

// specialiseKeyMethod re-type-checks the method fd as a plain function with `type <tp> = <conc>` and translates it.
func specialiseKeyMethod(origFset *token.FileSet, imports []*ast.ImportSpec, fd *ast.FuncDecl, tp, conc string, word int, defName string) (text, warn string) {
	var sig bytes.Buffer
	printer.Fprint(&sig, origFset, &ast.FuncDecl{Name: fd.Name, Type: fd.Type, Recv: fd.Recv})
	spec := "   with " + tp + " = " + conc
	if word != 0 {
		spec += fmt.Sprintf(", bits.UintSize = %d", word)
	}
	header := "(* " + coqCommentSafe(strings.Join(strings.Fields(sig.String()), " ")+spec) + " *)\n"
	unsupported := func(msg string) (string, string) {
		return header + "Definition " + defName + " : untranslated := UNSUPPORTED \"" + strings.ReplaceAll(msg, "\"", "\"\"") + "\".\n", defName + ": " + msg
	}

	// the specialised source
	var src bytes.Buffer
	src.WriteString("package keyspec\n\nimport (\n")
	for _, im := range imports {
		path := strings.Trim(im.Path.Value, "\"`")
		if !keyStubbed[path] {
			continue
		}
		src.WriteString("\t")
		if im.Name != nil {
			src.WriteString(im.Name.Name + " ")
		}
		src.WriteString(im.Path.Value + "\n")
	}
	src.WriteString(")\n\ntype " + tp + " = " + conc + "\n\n")
	if err := printer.Fprint(&src, origFset, &ast.FuncDecl{Name: fd.Name, Type: fd.Type, Body: fd.Body}); err != nil {
		return unsupported("cannot print the method: " + err.Error())
	}
	src.WriteString("\n")
	fset := token.NewFileSet()
	file, err := parser.ParseFile(fset, "keyspec.go", src.Bytes(), 0)
	if err != nil {
		return unsupported("the specialised method does not parse: " + err.Error())
	}
	info := &types.Info{
		Types: map[ast.Expr]types.TypeAndValue{},
		Defs:  map[*ast.Ident]types.Object{},
		Uses:  map[*ast.Ident]types.Object{},
	}
	uintSize, arch := 64, "amd64"
	if word == 32 {
		uintSize, arch = 32, "386"
	}
	conf := types.Config{
		Importer: &keyImporter{fset: fset, uintSize: uintSize, pkgs: map[string]*types.Package{}},
		Sizes:    types.SizesFor("gc", arch),
		Error: func(err error) {
			if te, ok := err.(types.Error); ok && te.Soft {
				return // unused variable (the `var k K` of the type switch) / unused import
			}
			fmt.Fprintf(os.Stderr, "srcfacts: translate keys: type error in %s: %v\n", defName, err)
		},
	}
	conf.Check("keyspec", fset, []*ast.File{file}, info) // errors reported above; untyped expressions become UNSUPPORTED
	var sfd *ast.FuncDecl
	for _, d := range file.Decls {
		if x, ok := d.(*ast.FuncDecl); ok {
			sfd = x
		}
	}

	t := &keyTr{
		fnTr:  &fnTr{fset: fset, info: info, consts: map[types.Object]string{}, names: map[types.Object]string{}, used: map[string]bool{}},
		word:  word,
		sorts: map[types.Object]kSort{},
	}
	defer func() {
		if r := recover(); r != nil {
			u, ok := r.(trUnsupported)
			if !ok {
				panic(r)
			}
			text, warn = unsupported(u.msg)
		}
	}()
	var binders []string
	for _, f := range sfd.Type.Params.List {
		if len(f.Names) == 0 {
			t.fail(f.Type, "unnamed parameter")
		}
		for _, id := range f.Names {
			obj := info.Defs[id]
			if obj == nil || id.Name == "_" {
				t.fail(id, "blank parameter")
			}
			s := t.sortOfType(obj.Type())
			if s.k == kBad || s.k == kBool {
				t.fail(f.Type, "parameter type outside the fragment")
			}
			binders = append(binders, "("+t.declare(obj, s, id)+" : "+s.coqType()+")")
		}
	}
	// results: one, or several that every return gives the same variable for (Transform returns b, b)
	var resSort kSort
	nres := 0
	if sfd.Type.Results != nil {
		for _, f := range sfd.Type.Results.List {
			if len(f.Names) != 0 {
				t.fail(f.Type, "named result")
			}
			s := t.sortOfType(info.Types[f.Type].Type)
			if s.k == kBad {
				t.fail(f.Type, "result type outside the fragment")
			}
			if nres > 0 && s != resSort {
				t.fail(f.Type, "results of different types")
			}
			resSort = s
			nres++
		}
	}
	if nres == 0 {
		t.fail(sfd.Name, "no result")
	}
	t.retf = func(s *ast.ReturnStmt) string {
		if len(s.Results) != nres {
			t.fail(s, "return")
		}
		if nres > 1 {
			first, _, ok := t.localVar(s.Results[0])
			for _, r := range s.Results[1:] {
				o, _, ok2 := t.localVar(r)
				if !ok || !ok2 || o != first {
					t.fail(s, "return of several different values (only `return x, x`)")
				}
			}
		}
		c, rs := t.kExpr(s.Results[0])
		if rs != resSort {
			t.fail(s, fmt.Sprintf("return type (%s, %s)", rs, resSort))
		}
		return top(c)
	}
	tail := func() string { t.fail(sfd.Name, "control can reach the end of the function"); return "" }
	body := t.kStmts(sfd.Body.List, tail, "  ")
	return header + "Definition " + defName + " " + strings.Join(binders, " ") + " : " + resSort.coqType() + " :=\n" + body + ".\n", ""
}

// ---------------------------------------------------------------- the file

const keyConventions = `   Conventions (go/cmd/srcfacts/translate_keys.go, primitives in Model/GoArith.v):
   The methods are generic; each definition is the method re-type-checked by go/types with the type
   parameter an alias of one type of the constraint's type set, the clause of "switch any(k).(type)"
   for that type and the branch of "if bits.UintSize == 32" chosen statically (uint / int: both values).
   uintN is N (< 2^N) with the wrap of every operator written out at the operand width (addw subw
   shlw ... take the width in bits); intN is Z in the two's complement range (negw wraps);
   a float32 / float64 IS its IEEE-754 bit pattern, an N; f64 := float64(k) with k a float32 is
   represented by the bit pattern of k (the conversion is exact; only math.IsInf / math.IsNaN look at it).
   The unsafe read * ( *T)(unsafe.Pointer(&x)) between same-width types: bits_of_int (intN read as uintN), int_of_bits
   (uintN read as intN), the identity between a float and its bits. []byte is list N: make([]byte, n)
   is repeat 0 n, binary.BigEndian.PutUintNN(b, e) rebinds b to be_put_uintNN b e (a short b panics in
   Go: not modelled), b[i] is nth i b 0 (out of range panics in Go: the theorems fix the length).
   "return b, b" (both results the same variable) is the single value b. Constant expressions
   (math.MaxUint32 - 1, K(0)) are folded by go/constant at the type go/types gives them.`

var keyCodecs = []struct{ goType, short string }{
	{"UnsignedBinaryKey", "unsigned"},
	{"SignedBinaryKey", "signed"},
	{"FloatBinaryKey", "float"},
}

var keyTypeOrder = []string{"uint8", "uint16", "uint32", "uint64", "uint", "uintptr", "int8", "int16", "int32", "int64", "int", "float32", "float64"}

// the type set of `type <name> interface { A | B | ~C }`, searched in the given files
func constraintTypes(files []*ast.File, name string) []string {
	var out []string
	var terms func(e ast.Expr) bool
	terms = func(e ast.Expr) bool {
		switch x := ast.Unparen(e).(type) {
		case *ast.BinaryExpr:
			return x.Op == token.OR && terms(x.X) && terms(x.Y)
		case *ast.UnaryExpr:
			return x.Op == token.TILDE && terms(x.X)
		case *ast.Ident:
			out = append(out, x.Name)
			return true
		}
		return false
	}
	for _, f := range files {
		for _, d := range f.Decls {
			gd, ok := d.(*ast.GenDecl)
			if !ok || gd.Tok != token.TYPE {
				continue
			}
			for _, sp := range gd.Specs {
				ts := sp.(*ast.TypeSpec)
				it, ok := ts.Type.(*ast.InterfaceType)
				if !ok || ts.Name.Name != name || it.Methods == nil {
					continue
				}
				out = nil
				for _, m := range it.Methods.List {
					if len(m.Names) != 0 || !terms(m.Type) {
						return nil
					}
				}
				// canonical order: by width, the platform-sized type last
				var sorted []string
				seen := map[string]bool{}
				for _, k := range keyTypeOrder {
					for _, o := range out {
						if o == k && !seen[o] {
							seen[o] = true
							sorted = append(sorted, o)
						}
					}
				}
				for _, o := range out {
					if !seen[o] {
						seen[o] = true
						sorted = append(sorted, o)
					}
				}
				return sorted
			}
		}
	}
	return nil
}

func emitKeyTranslations(repo, outdir string) {
	fset := token.NewFileSet()
	var sb strings.Builder
	sb.WriteString("(* REGENERATED by go/cmd/srcfacts (translate_keys.go) from /repo's keys.go on every run — do not edit.\n")
	sb.WriteString("   One definition g_<codec>_<method>_<type>[_<bits.UintSize>] per numeric codec, direction and concrete key type;\n")
	sb.WriteString("   Proofs/TranslateKeysFacts.v proves them equal to the hand-written model Model/Keys.v.\n")
	sb.WriteString(keyConventions + " *)\n")
	sb.WriteString("From GoArt Require Import Model.GoArith.\nFrom Coq Require Import String.\nImport ListNotations.\nOpen Scope N_scope.\n")
	defer func() { writeIfChanged(filepath.Join(outdir, "KeysGen.v"), sb.String()) }()

	keysPath := filepath.Join(repo, "keys.go")
	if _, err := os.Stat(keysPath); err != nil {
		fmt.Fprintln(os.Stderr, "srcfacts: translate keys: keys.go is missing; its translation will be empty")
		sb.WriteString("\n(* keys.go does not exist *)\n")
		return
	}
	keysGo, err := parser.ParseFile(fset, keysPath, nil, parser.ParseComments)
	must(err)
	files := []*ast.File{keysGo}
	if matches, _ := filepath.Glob(filepath.Join(repo, "*.go")); matches != nil { // the constraints uints / ints / floats live in node.go
		for _, p := range matches {
			if p == keysPath || strings.HasSuffix(p, "_test.go") {
				continue
			}
			if f, err := parser.ParseFile(fset, p, nil, parser.SkipObjectResolution); err == nil {
				files = append(files, f)
			}
		}
	}

	for _, codec := range keyCodecs {
		// type <codec>[K <constraint>] struct{}
		tp, constraint := "", ""
		for _, d := range keysGo.Decls {
			gd, ok := d.(*ast.GenDecl)
			if !ok || gd.Tok != token.TYPE {
				continue
			}
			for _, sp := range gd.Specs {
				ts := sp.(*ast.TypeSpec)
				if ts.Name.Name != codec.goType || ts.TypeParams == nil || len(ts.TypeParams.List) != 1 || len(ts.TypeParams.List[0].Names) != 1 {
					continue
				}
				if id, ok := ts.TypeParams.List[0].Type.(*ast.Ident); ok {
					tp, constraint = ts.TypeParams.List[0].Names[0].Name, id.Name
				}
			}
		}
		concs := constraintTypes(files, constraint)
		if tp == "" || len(concs) == 0 {
			fmt.Fprintf(os.Stderr, "srcfacts: translate keys: cannot find type %s[K <constraint>] or the type set of its constraint %q\n", codec.goType, constraint)
			fmt.Fprintf(&sb, "\n(* type %s with a union constraint not found *)\n", codec.goType)
			continue
		}
		fmt.Fprintf(&sb, "\n(* ---- %s[%s %s], %s = %s ---- *)\n", codec.goType, tp, constraint, constraint, strings.Join(concs, " | "))
		for _, method := range []string{"Transform", "Restore"} {
			var fd *ast.FuncDecl
			rtp := tp
			for _, d := range keysGo.Decls {
				x, ok := d.(*ast.FuncDecl)
				if !ok || x.Recv == nil || len(x.Recv.List) != 1 || x.Name.Name != method || x.Body == nil {
					continue
				}
				rt := x.Recv.List[0].Type
				if st, ok := rt.(*ast.StarExpr); ok {
					rt = st.X
				}
				ix, ok := rt.(*ast.IndexExpr)
				if !ok {
					continue
				}
				if id, ok := ix.X.(*ast.Ident); !ok || id.Name != codec.goType {
					continue
				}
				if id, ok := ix.Index.(*ast.Ident); ok {
					fd, rtp = x, id.Name
				}
			}
			if fd == nil {
				fmt.Fprintf(os.Stderr, "srcfacts: translate keys: method %s.%s not found\n", codec.goType, method)
				fmt.Fprintf(&sb, "\n(* method %s.%s not found *)\n", codec.goType, method)
				continue
			}
			for _, conc := range concs {
				base := "g_" + codec.short + "_" + strings.ToLower(method) + "_" + conc
				variants := []struct {
					word int
					name string
				}{{0, base}}
				if conc == "uint" || conc == "int" || conc == "uintptr" {
					variants = variants[:0]
					for _, w := range []int{32, 64} {
						variants = append(variants, struct {
							word int
							name string
						}{w, fmt.Sprintf("%s_%d", base, w)})
					}
				}
				for _, v := range variants {
					text, warn := specialiseKeyMethod(fset, keysGo.Imports, fd, rtp, conc, v.word, v.name)
					if warn != "" {
						fmt.Fprintln(os.Stderr, "srcfacts: translate keys: UNSUPPORTED", warn)
					}
					sb.WriteString("\n" + text)
				}
			}
		}
	}
}
