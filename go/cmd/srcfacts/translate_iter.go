// translate_iter.go: the translator of the explicit-stack traversals of /repo's tree.go
// (all, backward, filter, rangeScan), of lowestCommonParent with the findChild of node.go it
// calls, and of the wrappers topK / bottomK, to Gallina, re-run on every run. Output:
// Gen/IterGen.v. Proofs/TranslateIterFacts.v proves each regenerated definition equal to the
// hand-written stack machine of Model/Iter.v (walk and its four instantiations, lcparent,
// run_bounded), so an edit of the Go text that changes what one of these routines does breaks
// a theorem.
//
// It extends translate_tree.go (same type-checked package, same expression and statement
// translation, same conventions: Model/GoTree.v states what every read stands for) through
// the hooks of treeTr; what it adds to the fragment:
//
//	types       uint -> N (width 64); []nodeRef -> list gref; *nodeRef -> option gref;
//	            a local struct {nodeRef; int} -> gref * Z, a slice of it -> list (gref * Z);
//	            parameters: func(unsafe.Pointer) (K, V) (restore: no Coq parameter),
//	            func(K, V) bool -> xtree -> bool, an interface with methods func() iter.Seq2[K, V]
//	            -> one parameter (nat -> bool) -> ires per such method
//	statements  type T struct{..} (local);  x, y := e1, e2;  k, v := restore(p);
//	            return func(yield func(K, V) bool) { .. } as the last statement of the function:
//	            the closure body is translated in place, its parameter yield being ans : nat -> bool;
//	            in the closure body: return;  a `for` loop as the LAST statement (the main loop: a
//	            Fixpoint on the budget fuel, one unit per evaluation of its condition);
//	            for k, v := range t.M() { .. } as the LAST statement (range_over of Model/GoTree.v)
//	expressions len of those slices, s[i], s[i].f, T{a, b}, append(s, x), s[:hi], s[lo:hi],
//	            unsafe.Slice(&a[0], n), &a[i], *p, p ==/!= nil on *nodeRef, r.findChild(b),
//	            bytes.Compare(a, b), yield(k, v), predicate(k, v)
//
// A closure must not assign a variable of the enclosing function (state shared between the runs
// of the iterator): UNSUPPORTED.
package main

import (
	"bytes"
	"fmt"
	"go/ast"
	"go/printer"
	"go/token"
	"go/types"
	"os"
	"path/filepath"
	"sort"
	"strings"
)

func init() {
	for _, w := range strings.Fields(`ires IDone IPanic IFuel iend ByReturn ByBreak ByEnd ByFuel
		bstep BNext BBreak BReturn BPanic BFuel range_over range_pre range_ans range_fold slice_to slice_from_to
		idx_entries bytes_compare ptr_is_nil st_ rev app length`) {
		coqReserved[w] = true
	}
}

type kvRole struct {
	site ast.Node // the statement that binds the pair
	idx  int      // 0: the key, 1: the value
}

type iterTr struct {
	t         *treeTr
	iterFunc  bool                      // a function returning an iterator closure
	restore   map[types.Object]bool     // parameters func(unsafe.Pointer) (K, V)
	seqSrc    map[types.Object][]string // parameters of an interface type: its methods func() iter.Seq2[K, V]
	seqNames  map[types.Object][]string // their Coq names
	kv        map[types.Object]kvRole   // k, v of `k, v := restore(p)`, the variables of a range loop
	topC      *tCtx                     // the context of the top level of the function body
	closureC  *tCtx                     // the context of the top level of the closure body
	inClosure bool
	yield     types.Object // the parameter of the closure
	yi, yacc  types.Object // synthetic: calls of yield so far, leaves passed so far (last first)
	rangeMode bool         // inside the body of a range loop
	rangeVal  string       // the tuple of its state variables
}

func iterSetup(iterFunc bool, keep **iterTr) func(t *treeTr) {
	return func(t *treeTr) {
		it := &iterTr{t: t, iterFunc: iterFunc, restore: map[types.Object]bool{}, seqSrc: map[types.Object][]string{},
			seqNames: map[types.Object][]string{}, kv: map[types.Object]kvRole{}}
		t.hooks = &treeHooks{expr: it.expr, stmt: it.stmt, assigned: it.assigned, ret: it.ret}
		if keep != nil {
			*keep = it
		}
	}
}

// the sort of an expression without translating it
func (it *iterTr) sortOf(e ast.Expr) tSort {
	e = ast.Unparen(e)
	if _, s, ok := it.t.local(e); ok {
		return s
	}
	return treeSortOf(it.t.info.Types[e].Type)
}

func (it *iterTr) builtin(e ast.Expr, name string) bool {
	id, ok := ast.Unparen(e).(*ast.Ident)
	if !ok {
		return false
	}
	b, ok := it.t.info.Uses[id].(*types.Builtin)
	return ok && b.Name() == name
}

func (it *iterTr) pkgFunc(e ast.Expr, pkg, name string) bool {
	sel, ok := ast.Unparen(e).(*ast.SelectorExpr)
	if !ok || sel.Sel.Name != name {
		return false
	}
	id, ok := ast.Unparen(sel.X).(*ast.Ident)
	if !ok {
		return false
	}
	pn, ok := it.t.info.Uses[id].(*types.PkgName)
	return ok && pn.Imported().Path() == pkg
}

func (it *iterTr) isNil(e ast.Expr) bool {
	tv, ok := it.t.info.Types[ast.Unparen(e)]
	return ok && tv.IsNil()
}

func (it *iterTr) calleeObj(e ast.Expr) types.Object {
	id, ok := ast.Unparen(e).(*ast.Ident)
	if !ok {
		return nil
	}
	return it.t.info.Uses[id]
}

// the leaf the arguments (k, v) of yield / predicate stand for
func (it *iterTr) pairArg(x *ast.CallExpr) string {
	t := it.t
	if len(x.Args) != 2 || x.Ellipsis != token.NoPos {
		t.fail(x, "the arguments are not the pair (k, v) of one `k, v := restore(p)` / one range loop")
	}
	o0, o1 := it.calleeObj(x.Args[0]), it.calleeObj(x.Args[1])
	r0, ok0 := it.kv[o0]
	r1, ok1 := it.kv[o1]
	if !ok0 || !ok1 || r0.site != r1.site || r0.idx != 0 || r1.idx != 1 {
		t.fail(x, "the arguments are not the pair (k, v) of one `k, v := restore(p)` / one range loop")
	}
	return t.nameOf(o0)
}

// ---------------------------------------------------------------- expressions

func (it *iterTr) expr(e ast.Expr) (string, tSort, bool) {
	t := it.t
	switch x := e.(type) {
	case *ast.UnaryExpr:
		if x.Op == token.AND { // &a[i] on an array of nodeRef: a pointer to that cell
			if ix, ok := ast.Unparen(x.X).(*ast.IndexExpr); ok && it.sortOf(ix.X).k == tRefs {
				a, _ := t.tExpr(ix.X)
				i, is := t.tExpr(ix.Index)
				v := t.bindOpt(app("idx_refs", a, t.asZ(i, is, ix.Index)))
				return app("Some", v), tSort{tRefPtr, 0}, true
			}
		}
	case *ast.StarExpr:
		if it.sortOf(x.X).k == tRefPtr {
			a, _ := t.tExpr(x.X)
			return t.bindOpt(a), tSort{tRef, 0}, true
		}
	case *ast.BinaryExpr:
		if x.Op == token.EQL || x.Op == token.NEQ {
			for _, pair := range [][2]ast.Expr{{x.X, x.Y}, {x.Y, x.X}} {
				if it.isNil(pair[1]) && it.sortOf(pair[0]).k == tRefPtr {
					a, _ := t.tExpr(pair[0])
					c := app("ptr_is_nil", a)
					if x.Op == token.NEQ {
						c = app("negb", c)
					}
					return c, tSort{tBool, 0}, true
				}
			}
		}
	case *ast.IndexExpr:
		if it.sortOf(x.X).k == tEntries {
			a, _ := t.tExpr(x.X)
			i, is := t.tExpr(x.Index)
			return t.bindOpt(app("idx_entries", a, t.asZ(i, is, x.Index))), tSort{tEntry, 0}, true
		}
	case *ast.SelectorExpr:
		if sel, ok := t.info.Selections[x]; ok && sel.Kind() == types.FieldVal && it.sortOf(x.X).k == tEntry && len(sel.Index()) == 1 {
			a, _ := t.tExpr(x.X)
			if sel.Index()[0] == 0 {
				return app("fst", a), tSort{tRef, 0}, true
			}
			return app("snd", a), tSort{tInt, 0}, true
		}
	case *ast.CompositeLit:
		if tv, ok := t.info.Types[x]; ok && treeSortOf(tv.Type).k == tEntry {
			st, _ := tv.Type.Underlying().(*types.Struct)
			parts := make([]string, 2)
			if len(x.Elts) != 2 || st == nil {
				t.fail(x, "composite literal without both fields")
			}
			for i, el := range x.Elts {
				idx := i
				val := el
				if kvx, ok := el.(*ast.KeyValueExpr); ok {
					id, ok := kvx.Key.(*ast.Ident)
					if !ok {
						t.fail(x, "composite literal")
					}
					idx = -1
					for j := 0; j < 2; j++ {
						if st.Field(j).Name() == id.Name {
							idx = j
						}
					}
					val = kvx.Value
				}
				if idx < 0 || parts[idx] != "" {
					t.fail(x, "composite literal")
				}
				code, s := t.tExpr(val)
				if (idx == 0 && s.k != tRef) || (idx == 1 && s.k != tInt) {
					t.fail(val, "field value of another type")
				}
				parts[idx] = top(code)
			}
			return "(" + parts[0] + ", " + parts[1] + ")", tSort{tEntry, 0}, true
		}
	case *ast.SliceExpr:
		s := it.sortOf(x.X)
		if !x.Slice3 && x.High != nil && (s.k == tBytes || (s.k == tRefs && s.n == 0) || s.k == tEntries) {
			a, _ := t.tExpr(x.X)
			hi, hs := t.tExpr(x.High)
			hz := t.asZ(hi, hs, x.High)
			res := tSort{s.k, 0}
			if x.Low == nil {
				return t.bindOpt(app("slice_to", a, hz)), res, true
			}
			lo, ls := t.tExpr(x.Low)
			return t.bindOpt(app("slice_from_to", a, t.asZ(lo, ls, x.Low), hz)), res, true
		}
	case *ast.CallExpr:
		return it.call(x)
	}
	return "", tSort{}, false
}

func (it *iterTr) call(x *ast.CallExpr) (string, tSort, bool) {
	t := it.t
	fun := ast.Unparen(x.Fun)
	switch {
	case it.builtin(fun, "append") && len(x.Args) == 2 && x.Ellipsis == token.NoPos:
		s := it.sortOf(x.Args[0])
		if (s.k == tRefs && s.n == 0) || s.k == tEntries {
			a, _ := t.tExpr(x.Args[0])
			c, sc := t.tExpr(x.Args[1])
			if (s.k == tRefs && sc.k != tRef) || (s.k == tEntries && sc.k != tEntry) {
				t.fail(x, "append of an element of another type")
			}
			return "(" + a + " ++ [" + c + "])", s, true
		}
	case it.pkgFunc(fun, "bytes", "Compare") && len(x.Args) == 2:
		a, s := t.tExpr(x.Args[0])
		b, sb := t.tExpr(x.Args[1])
		if s.k != tBytes || sb.k != tBytes {
			t.fail(x, "bytes.Compare of something else than byte slices")
		}
		return app("bytes_compare", a, b), tSort{tInt, 0}, true
	case it.pkgFunc(fun, "unsafe", "Slice") && len(x.Args) == 2:
		// unsafe.Slice(&a[0], n) with a a byte array
		if u, ok := ast.Unparen(x.Args[0]).(*ast.UnaryExpr); ok && u.Op == token.AND {
			if ix, ok := ast.Unparen(u.X).(*ast.IndexExpr); ok {
				s := it.sortOf(ix.X)
				tv := t.info.Types[ast.Unparen(ix.Index)]
				if s.k == tBytes && s.n != 0 && tv.Value != nil && tv.Value.ExactString() == "0" {
					a, _ := t.tExpr(ix.X)
					n, ns := t.tExpr(x.Args[1])
					return t.bindOpt(app("slice_to", a, t.asZ(n, ns, x.Args[1]))), tSort{tBytes, 0}, true
				}
			}
		}
		t.fail(x, "unsafe.Slice of something else than &a[0] with a a byte array")
	}
	if obj := it.calleeObj(fun); obj != nil {
		switch {
		case it.yield != nil && obj == it.yield:
			leaf := it.pairArg(x)
			yi := t.nameOf(it.yi)
			yr := t.fresh("yr")
			t.pre = append(t.pre, tBind{name: yr, code: app(t.nameOf(it.yield), yi), let: true})
			if !it.rangeMode {
				yacc := t.nameOf(it.yacc)
				t.pre = append(t.pre, tBind{name: yacc, code: "(" + leaf + " :: " + yacc + ")", let: true})
			}
			t.pre = append(t.pre, tBind{name: yi, code: app("S", yi), let: true})
			return yr, tSort{tBool, 0}, true
		case t.sorts[obj].k == tPred:
			return app(t.nameOf(obj), it.pairArg(x)), tSort{tBool, 0}, true
		case it.restore[obj]:
			t.fail(x, "a call of restore outside `k, v := restore(p)`")
		}
	}
	if sel, ok := fun.(*ast.SelectorExpr); ok && sel.Sel.Name == "findChild" && len(x.Args) == 1 {
		if s, ok := t.info.Selections[sel]; ok && s.Kind() == types.MethodVal && it.sortOf(sel.X).k == tRef {
			c, ok := t.callees["findChild"]
			if !ok || c.fuel || len(c.params) != 2 {
				t.fail(x, "call of a function that is not translated")
			}
			a, _ := t.tExpr(sel.X)
			b, sb := t.tExpr(x.Args[0])
			if sb != c.params[1] {
				t.fail(x, "argument of another sort")
			}
			n := t.fresh("r")
			t.pre = append(t.pre, tBind{name: n, code: app(c.coq, a, b), gres: true})
			return n, c.res, true
		}
	}
	return "", tSort{}, false
}

// ---------------------------------------------------------------- statements

func (it *iterTr) containsYield(n ast.Node) bool {
	if it.yield == nil || n == nil {
		return false
	}
	found := false
	ast.Inspect(n, func(m ast.Node) bool {
		if id, ok := m.(*ast.Ident); ok && it.t.info.Uses[id] == it.yield {
			found = true
		}
		return !found
	})
	return found
}

// a call of yield assigns the two threaded variables
func (it *iterTr) assigned(n ast.Node) []types.Object {
	if !it.inClosure || !it.containsYield(n) {
		return nil
	}
	if it.rangeMode {
		return []types.Object{it.yi}
	}
	return []types.Object{it.yi, it.yacc}
}

func (it *iterTr) ret(s *ast.ReturnStmt, c *tCtx) (string, bool) {
	t := it.t
	if !it.inClosure {
		return "", false
	}
	if len(s.Results) != 0 {
		t.fail(s, "return with a value inside an iterator closure")
	}
	val := "IDone ByReturn " + t.nameOf(it.yi) + " " + t.nameOf(it.yacc)
	if it.rangeMode {
		val = "BReturn " + it.rangeVal + " " + t.nameOf(it.yi)
	}
	if c.res != nil {
		return val, true
	}
	return t.retC(c) + " (" + val + ")", true // inside an inner loop
}

func (it *iterTr) stmt(st ast.Stmt, rest []ast.Stmt, c *tCtx, ind string) (string, bool) {
	t := it.t
	switch s := st.(type) {
	case *ast.DeclStmt:
		if gd, ok := s.Decl.(*ast.GenDecl); ok && gd.Tok == token.TYPE { // a local type: nothing to run
			for _, sp := range gd.Specs {
				ts := sp.(*ast.TypeSpec)
				if obj := t.info.Defs[ts.Name]; obj == nil || treeSortOf(obj.Type()).k == tBad {
					t.fail(s, "local type outside the fragment (only struct {nodeRef; int})")
				}
			}
			return t.tStmts(rest, c, ind), true
		}
	case *ast.AssignStmt:
		if s.Tok == token.DEFINE && len(s.Lhs) == 2 && len(s.Rhs) == 1 {
			if call, ok := ast.Unparen(s.Rhs[0]).(*ast.CallExpr); ok && it.restore[it.calleeObj(call.Fun)] {
				return it.restoreBind(s, call, rest, c, ind), true
			}
		}
		if s.Tok == token.DEFINE && len(s.Lhs) >= 2 && len(s.Lhs) == len(s.Rhs) {
			return it.parallelDefine(s, rest, c, ind), true
		}
	case *ast.ReturnStmt:
		if len(s.Results) == 1 {
			if fl, ok := ast.Unparen(s.Results[0]).(*ast.FuncLit); ok {
				if !it.iterFunc || it.inClosure || c != it.topC {
					t.fail(s, "a closure returned elsewhere than at the end of the function body")
				}
				return it.closure(fl, ind), true
			}
		}
		if it.iterFunc && !it.inClosure {
			t.fail(s, "the function returns something else than a closure func(yield ..) {..}")
		}
	case *ast.ForStmt:
		if it.inClosure && !it.rangeMode && c == it.closureC {
			if len(rest) != 0 {
				t.fail(rest[0], "statements after the main loop of the closure")
			}
			return it.mainLoop(s, c, ind), true
		}
	case *ast.RangeStmt:
		if it.inClosure && !it.rangeMode && c == it.closureC {
			if len(rest) != 0 {
				t.fail(rest[0], "statements after the range loop of the closure")
			}
			return it.rangeLoop(s, c, ind), true
		}
		t.fail(s, "range loop outside the fragment (only as the last statement of an iterator closure)")
	}
	return "", false
}

// k, v := restore(p)
func (it *iterTr) restoreBind(s *ast.AssignStmt, call *ast.CallExpr, rest []ast.Stmt, c *tCtx, ind string) string {
	t := it.t
	if len(call.Args) != 1 {
		t.fail(s, "restore")
	}
	a, as := t.tExpr(call.Args[0])
	if as.k != tPtr {
		t.fail(s, "restore of something else than an unsafe.Pointer")
	}
	leaf := t.bindOpt(app("cast_leaf", a))
	pre := t.takePre()
	name := t.fresh("kv")
	for i, l := range s.Lhs {
		id, ok := l.(*ast.Ident)
		if !ok {
			t.fail(l, "assignment target")
		}
		if id.Name == "_" {
			continue
		}
		obj := t.info.Defs[id]
		if obj == nil {
			t.fail(l, "redeclaration by :=")
		}
		t.sorts[obj] = tSort{tKV, 0}
		t.names[obj] = name
		it.kv[obj] = kvRole{s, i}
	}
	return t.wrap(c, pre, ind+"let "+name+" := "+leaf+" in\n"+t.tStmts(rest, c, ind), ind)
}

// x, y := e1, e2 with new variables: every ei is evaluated before any of them is bound
func (it *iterTr) parallelDefine(s *ast.AssignStmt, rest []ast.Stmt, c *tCtx, ind string) string {
	t := it.t
	var codes []string
	var objs []types.Object
	var sorts []tSort
	for i, l := range s.Lhs {
		id, ok := l.(*ast.Ident)
		if !ok || id.Name == "_" {
			t.fail(l, "assignment target outside the fragment")
		}
		obj := t.info.Defs[id]
		if obj == nil {
			t.fail(s, "redeclaration by :=")
		}
		code, rs := t.tExpr(s.Rhs[i])
		if want := treeSortOf(obj.Type()); want != rs {
			t.fail(s, fmt.Sprintf("a value of sort %s for a variable of sort %s", rs, want))
		}
		codes, objs, sorts = append(codes, code), append(objs, obj), append(sorts, rs)
	}
	pre := t.takePre()
	var lets strings.Builder
	for i, o := range objs {
		lets.WriteString(ind + "let " + t.declareT(o, sorts[i], s) + " := " + top(codes[i]) + " in\n")
	}
	return t.wrap(c, pre, lets.String()+t.tStmts(rest, c, ind), ind)
}

func (it *iterTr) synthetic(name string, s tSort) types.Object {
	t := it.t
	obj := types.NewVar(token.NoPos, nil, name, types.Typ[types.Int])
	t.sorts[obj] = s
	t.names[obj] = t.fresh(name)
	return obj
}

// return func(yield func(K, V) bool) { .. }: the closure body, in place
func (it *iterTr) closure(fl *ast.FuncLit, ind string) string {
	t := it.t
	ps := fl.Type.Params
	if ps == nil || len(ps.List) != 1 || len(ps.List[0].Names) != 1 || fl.Type.Results != nil {
		t.fail(fl.Type, "the closure is not func(yield func(K, V) bool)")
	}
	yobj := t.info.Defs[ps.List[0].Names[0]]
	sig, ok := yobj.Type().Underlying().(*types.Signature)
	if !ok || sig.Params().Len() != 2 || sig.Results().Len() != 1 || treeSortOf(sig.Results().At(0).Type()).k != tBool {
		t.fail(fl.Type, "the closure is not func(yield func(K, V) bool)")
	}
	// state shared between the runs of the iterator
	for _, o := range t.assignedIn(fl.Body) {
		t.fail(fl.Type, "the closure assigns the variable "+o.Name()+" of the enclosing function (state shared between the runs of the iterator)")
	}
	ast.Inspect(fl.Body, func(n ast.Node) bool {
		switch x := n.(type) {
		case *ast.FuncLit:
			t.fail(x.Type, "nested closure")
		case *ast.UnaryExpr:
			if x.Op == token.AND {
				if o, _, ok := t.local(x.X); ok && !(o.Pos() >= fl.Pos() && o.Pos() < fl.End()) {
					t.fail(x, "the closure takes the address of a variable of the enclosing function")
				}
			}
		}
		return true
	})
	it.yield = yobj
	t.sorts[yobj] = tSort{tYield, 0}
	t.names[yobj] = t.fresh("ans")
	it.yi = it.synthetic("yi", tSort{tNat, 0})
	it.yacc = it.synthetic("yacc", tSort{tLeaves, 0})
	it.inClosure = true
	t.resCoq = "ires"
	yi, yacc := t.nameOf(it.yi), t.nameOf(it.yacc)
	cc := &tCtx{res: &tResNames{panicC: "IPanic", fuelC: "IFuel"}}
	cc.fall = func() string { return "IDone ByEnd " + yi + " " + yacc }
	it.closureC = cc
	return ind + "let " + yi + " := O in\n" + ind + "let " + yacc + " := (@nil xtree) in\n" + t.tStmts(fl.Body.List, cc, ind)
}

func (it *iterTr) binders(objs []types.Object) (binders, args []string) {
	t := it.t
	for _, o := range objs {
		binders = append(binders, "("+t.nameOf(o)+" : "+top(t.sorts[o].coqType())+")")
		args = append(args, t.nameOf(o))
	}
	return
}

// the main loop of the closure: its last statement. One unit of the budget per evaluation of the condition.
func (it *iterTr) mainLoop(s *ast.ForStmt, c *tCtx, ind string) string {
	t := it.t
	if s.Init != nil || s.Post != nil || s.Cond == nil {
		t.fail(s, "the main loop of a closure is not `for cond { .. }`")
	}
	t.nloops++
	number := t.nloops
	name := fmt.Sprintf("%s_loop%d", t.base, number)
	var state []types.Object
	for _, o := range t.assignedIn(s) {
		if o != it.yi && o != it.yacc {
			if _, ok := t.sorts[o]; !ok {
				t.fail(s, "the loop assigns something else than a local variable")
			}
			state = append(state, o)
		}
	}
	sort.Slice(state, func(i, j int) bool { return state[i].Pos() < state[j].Pos() })
	state = append(state, it.yi, it.yacc)
	isState := map[types.Object]bool{}
	for _, o := range state {
		isState[o] = true
	}
	var params []types.Object
	for _, o := range t.freeIn(s) {
		if !isState[o] && !t.zeroVars[o] {
			params = append(params, o)
		}
	}
	binders, args := it.binders(append(append([]types.Object{}, params...), state...))
	yi, yacc := t.nameOf(it.yi), t.nameOf(it.yacc)
	call := func(f string) string { return strings.TrimSpace(name + " " + f + " " + strings.Join(args, " ")) }
	next := func() string { return call("fuel") }
	lc := &tCtx{res: c.res, fall: next, cont: next, brk: func() string { return "IDone ByBreak " + yi + " " + yacc }}
	saved := it.closureC
	it.closureC = nil // the body is not the top level of the closure
	savedPre := t.takePre()
	body := t.tStmts(s.Body.List, lc, "      ")
	cond, cs := t.tExpr(s.Cond)
	if cs.k != tBool {
		t.fail(s.Cond, "condition")
	}
	fn := t.wrap(lc, t.takePre(), "    if "+top(cond)+" then (\n"+body+"\n    ) else IDone ByEnd "+yi+" "+yacc, "    ")
	t.pre = savedPre
	it.closureC = saved
	var src bytes.Buffer
	printer.Fprint(&src, t.fset, &ast.ForStmt{Cond: s.Cond, Body: &ast.BlockStmt{}})
	hdr := "(* loop " + fmt.Sprint(number) + " of " + t.fd.Name.Name + ", the main loop of the closure: " +
		coqCommentSafe(strings.Join(strings.Fields(strings.TrimSuffix(strings.TrimSpace(src.String()), "}")), " ")) + " ... }\n" +
		"   one unit of fuel per evaluation of the condition; " + yi + " = calls of yield so far, " + yacc + " = the leaves passed, last first *)\n"
	t.aux = append(t.aux, hdr+"Fixpoint "+name+" (fuel : nat) "+strings.Join(binders, " ")+" {struct fuel} : ires :=\n"+
		"  match fuel with\n  | O => IDone ByFuel "+yi+" "+yacc+"\n  | S fuel =>\n"+fn+"\n  end.\n")
	return ind + call(t.fuelArg())
}

// for k, v := range t.M() { .. }: the last statement of the closure
func (it *iterTr) rangeLoop(s *ast.RangeStmt, c *tCtx, ind string) string {
	t := it.t
	bad := func() {
		t.fail(s.X, "range over something else than t.M() with M a method func() iter.Seq2[K, V] of an interface parameter t")
	}
	call, ok := ast.Unparen(s.X).(*ast.CallExpr)
	if !ok || len(call.Args) != 0 {
		bad()
	}
	sel, ok := ast.Unparen(call.Fun).(*ast.SelectorExpr)
	if !ok {
		bad()
	}
	src := it.calleeObj(sel.X)
	seq := ""
	for i, m := range it.seqSrc[src] {
		if m == sel.Sel.Name {
			seq = it.seqNames[src][i]
		}
	}
	if seq == "" {
		bad()
	}
	kid, ok1 := s.Key.(*ast.Ident)
	vid, ok2 := s.Value.(*ast.Ident)
	if s.Tok != token.DEFINE || !ok1 || !ok2 || kid.Name == "_" || vid.Name == "_" {
		t.fail(s, "the range loop does not declare both of its variables")
	}
	kobj, vobj := t.info.Defs[kid], t.info.Defs[vid]
	xname := t.fresh("x")
	for i, o := range []types.Object{kobj, vobj} {
		t.sorts[o] = tSort{tKV, 0}
		t.names[o] = xname
		it.kv[o] = kvRole{s, i}
	}
	// the body uses them only as the arguments of yield, which it calls at most once per run
	nyield := 0
	var inYield func(n ast.Node, inside bool)
	inYield = func(n ast.Node, inside bool) {
		ast.Inspect(n, func(m ast.Node) bool {
			switch x := m.(type) {
			case *ast.CallExpr:
				if it.calleeObj(x.Fun) == it.yield && !inside {
					nyield++
					for _, a := range x.Args {
						inYield(a, true)
					}
					return false
				}
			case *ast.ForStmt, *ast.RangeStmt:
				if it.containsYield(x) {
					t.fail(x, "a call of yield inside a loop inside the body of a range loop")
				}
			case *ast.Ident:
				if o := t.info.Uses[x]; (o == kobj || o == vobj) && !inside {
					t.fail(x, "a variable of the range loop used elsewhere than as an argument of yield")
				}
			}
			return true
		})
	}
	inYield(s.Body, false)
	if nyield > 1 {
		t.fail(s, "several calls of yield in the body of a range loop")
	}
	var state []types.Object
	for _, o := range t.assignedIn(s.Body) {
		if o != it.yi && o != it.yacc {
			if _, ok := t.sorts[o]; !ok {
				t.fail(s, "the loop assigns something else than a local variable")
			}
			state = append(state, o)
		}
	}
	sort.Slice(state, func(i, j int) bool { return state[i].Pos() < state[j].Pos() })
	isState := map[types.Object]bool{it.yi: true, it.yacc: true, kobj: true, vobj: true}
	for _, o := range state {
		isState[o] = true
	}
	var params []types.Object
	for _, o := range t.freeIn(s.Body) {
		if !isState[o] && !t.zeroVars[o] {
			params = append(params, o)
		}
	}
	pat, val, typ := t.tupleT(state)
	pbinders, pargs := it.binders(params)
	yi, yacc := t.nameOf(it.yi), t.nameOf(it.yacc)
	name := t.base + "_body"
	it.rangeMode, it.rangeVal = true, val
	savedRes := t.resCoq
	t.resCoq = "bstep (" + typ + ")"
	nextC := func() string { return "BNext " + val + " " + yi }
	bc := &tCtx{res: &tResNames{panicC: "BPanic", fuelC: "BFuel"}, fall: nextC, cont: nextC,
		brk: func() string { return "BBreak " + val + " " + yi }}
	saved := it.closureC
	it.closureC = nil
	savedPre := t.takePre()
	body := t.tStmts(s.Body.List, bc, "  ")
	if len(t.pre) != 0 {
		t.fail(s, "internal: pending checked reads")
	}
	t.pre = savedPre
	it.closureC = saved
	t.resCoq = savedRes
	it.rangeMode = false
	stBinder := "(" + val + " : " + typ + ")"
	destruct := ""
	if len(state) != 1 {
		stBinder = "(st_ : " + typ + ")"
		destruct = "  let '" + pat + " := st_ in\n"
	}
	var srcText bytes.Buffer
	printer.Fprint(&srcText, t.fset, &ast.RangeStmt{Key: s.Key, Value: s.Value, Tok: s.Tok, X: s.X, Body: &ast.BlockStmt{}})
	hdr := "(* the body of " + coqCommentSafe(strings.Join(strings.Fields(strings.TrimSuffix(strings.TrimSpace(srcText.String()), "}")), " ")) + " ... } in " + t.fd.Name.Name +
		": one run, as the yield of the iterator ranged over.\n   " + val + " = the captured variables it assigns, " + yi + " = calls of the enclosing yield so far;\n" +
		"   BNext: it runs to its end or continues (true), BBreak / BReturn: break / return (false) *)\n"
	t.aux = append(t.aux, hdr+"Definition "+name+" "+strings.TrimSpace(strings.Join(pbinders, " ")+" "+stBinder)+" ("+yi+" : nat) : bstep ("+typ+") :=\n"+destruct+body+".\n")
	step := name
	if len(pargs) > 0 {
		step = app(name, pargs...)
	}
	return ind + "range_over " + step + " " + seq + " " + val + " " + yi + " " + yacc
}

// ---------------------------------------------------------------- functions returning an iterator closure

func translateIterFunc(sh *treeSharedState, callees map[string]*treeCallee, consts map[string]string, fd *ast.FuncDecl, coq string, aux []string) (text, warn string) {
	var it *iterTr
	t := &treeTr{
		fnTr:     &fnTr{fset: sh.fset, info: sh.info, consts: map[types.Object]string{}, names: map[types.Object]string{}, used: map[string]bool{}},
		sorts:    map[types.Object]tSort{},
		callees:  callees,
		consts:   consts,
		base:     coq,
		zeroVars: map[types.Object]bool{},
		fd:       fd,
	}
	iterSetup(true, &it)(t)
	header := t.signature(fd)
	defer func() {
		if r := recover(); r != nil {
			u, ok := r.(trUnsupported)
			if !ok {
				panic(r)
			}
			warn = coq + ": " + u.msg
			text = header + "Definition " + coq + " : untranslated := UNSUPPORTED \"" + strings.ReplaceAll(u.msg, "\"", "\"\"") + "\".\n"
			for _, a := range aux {
				text += "Definition " + coq + a + " : untranslated := UNSUPPORTED \"see " + coq + "\".\n"
			}
		}
	}()
	if fd.Body == nil || fd.Recv != nil {
		t.fail(fd.Name, "not a function with a body")
	}
	info := sh.info
	var binders []string
	for _, f := range fd.Type.Params.List {
		if len(f.Names) == 0 {
			t.fail(f.Type, "unnamed parameter")
		}
		for _, id := range f.Names {
			obj := info.Defs[id]
			if obj == nil || id.Name == "_" {
				t.fail(id, "blank parameter")
			}
			if s := treeSortOf(obj.Type()); s.k != tBad {
				binders = append(binders, "("+t.declareT(obj, s, id)+" : "+top(s.coqType())+")")
				continue
			}
			switch u := obj.Type().Underlying().(type) {
			case *types.Signature:
				ps, rs := u.Params(), u.Results()
				switch {
				case ps.Len() == 1 && treeSortOf(ps.At(0).Type()).k == tPtr && rs.Len() == 2:
					it.restore[obj] = true // func(unsafe.Pointer) (K, V): no parameter, see Model/GoTree.v
					continue
				case ps.Len() == 2 && rs.Len() == 1 && treeSortOf(rs.At(0).Type()).k == tBool:
					binders = append(binders, "("+t.declareT(obj, tSort{tPred, 0}, id)+" : xtree -> bool)")
					continue
				}
			case *types.Interface:
				var ms, ns []string
				for i := 0; i < u.NumMethods(); i++ {
					m := u.Method(i)
					sig := m.Type().(*types.Signature)
					if sig.Params().Len() == 0 && sig.Results().Len() == 1 && namedName(sig.Results().At(0).Type()) == "Seq2" {
						n := t.fresh(id.Name + "_" + m.Name())
						ms, ns = append(ms, m.Name()), append(ns, n)
						binders = append(binders, "("+n+" : (nat -> bool) -> ires)")
					}
				}
				if len(ms) > 0 {
					it.seqSrc[obj], it.seqNames[obj] = ms, ns
					continue
				}
			}
			t.fail(f.Type, fmt.Sprintf("parameter type %s outside the fragment", obj.Type()))
		}
	}
	if fd.Type.Results == nil || len(fd.Type.Results.List) != 1 || namedName(info.Types[fd.Type.Results.List[0].Type].Type) != "Seq2" {
		t.fail(fd.Name, "the result is not an iter.Seq2")
	}
	t.resCoq = "ires"
	ctx := &tCtx{res: &tResNames{panicC: "IPanic", fuelC: "IFuel"}}
	ctx.fall = func() string { t.fail(fd.Name, "control can reach the end of the function"); return "" }
	it.topC = ctx
	code := t.tStmts(fd.Body.List, ctx, "  ")
	if len(t.pre) != 0 {
		t.fail(fd.Name, "internal: pending checked reads")
	}
	if it.yield == nil {
		t.fail(fd.Name, "no closure returned")
	}
	if t.needFuel {
		binders = append([]string{"(fuel : nat)"}, binders...)
	}
	binders = append(binders, "("+t.nameOf(it.yield)+" : nat -> bool)")
	text = strings.Join(t.aux, "\n")
	if len(t.aux) > 0 {
		text += "\n"
	}
	text += header + "(* the closure it returns, run with the consumer " + t.nameOf(it.yield) + " *)\nDefinition " + coq + " " + strings.Join(binders, " ") + " : ires :=\n" + code + ".\n"
	return text, ""
}

// ---------------------------------------------------------------- the file

const iterConventions = `   Conventions: those of Gen/TreeGen.v (go/cmd/srcfacts/translate_tree.go), and for the functions that return an
   iterator closure (go/cmd/srcfacts/translate_iter.go; vocabulary and its stated Go meaning: Model/GoTree.v):
   the definition g_<f> is the closure the function returns, RUN with the consumer ans : nat -> bool (the answer of
   yield to its i-th call); the statements of the function before "return func(yield ..) {..}" come first. Its
   result is ires: IDone how calls acc (how: ByReturn / ByBreak / ByEnd / ByFuel; acc: the leaves yield was called
   with, LAST FIRST), IPanic, IFuel. The main loop of the closure is a Fixpoint on fuel that spends one unit per
   evaluation of its condition and threads yi (calls of yield so far) and yacc; the inner counting loops are the
   lres Fixpoints of Gen/TreeGen.v with the budgets  a >= b: a - b + 1,  a > b: a - b,  a < b: b - a  taken at loop
   entry. A slice is the list of its elements: q[len(q)-1] is the LAST element, append(q, x) is q ++ [x] (the stack
   of the traversals has its top LAST). k, v := restore(p) binds the leaf p points to; yield(k, v) is
   "let yr := ans yi in let yacc := leaf :: yacc in let yi := S yi" with value yr. A range loop over an iterator
   is range_over body seq (Model/GoTree.v), its body a Definition returning bstep.`

func emitIterTranslations(repo, outdir string) {
	var sb strings.Builder
	sb.WriteString("(* REGENERATED by go/cmd/srcfacts (translate_iter.go) from /repo's tree.go and node.go on every run — do not edit.\n")
	sb.WriteString("   findChild, lowestCommonParent, the explicit-stack traversals all / backward / filter / rangeScan and the wrappers\n")
	sb.WriteString("   topK / bottomK, read over the raw trees of Model/PoolTree.v; Proofs/TranslateIterFacts.v proves them equal to the\n")
	sb.WriteString("   hand-written stack machine of Model/Iter.v.\n")
	sb.WriteString(iterConventions + " *)\n")
	sb.WriteString("From GoArt Require Import Model.GoTree Gen.Node4Gen Gen.Node16Gen Gen.TreeGen.\nFrom Coq Require Import String.\nImport ListNotations.\nOpen Scope N_scope.\n")
	defer func() { writeIfChanged(filepath.Join(outdir, "IterGen.v"), sb.String()) }()

	sh := treeShared
	if sh == nil {
		fmt.Fprintln(os.Stderr, "srcfacts: translate iter: the tree translation did not run")
		sb.WriteString("\n(* the tree translation did not run *)\n")
		return
	}
	find := func(file, name, recv string) *ast.FuncDecl {
		for _, f := range sh.files {
			if filepath.Base(sh.fset.Position(f.Pos()).Filename) != file {
				continue
			}
			for _, d := range f.Decls {
				if fd, ok := d.(*ast.FuncDecl); ok && fd.Name.Name == name && recvTypeName(fd) == recv {
					return fd
				}
			}
		}
		return nil
	}
	callees := map[string]*treeCallee{}
	for k, v := range sh.callees {
		callees[k] = v
	}
	consts := map[string]string{}
	var defs []string
	report := func(fd *ast.FuncDecl, coq, warn string) {
		for _, te := range sh.typeErrs {
			if te.Pos >= fd.Pos() && te.Pos < fd.End() {
				fmt.Fprintf(os.Stderr, "srcfacts: translate iter: type error in %s: %s\n", coq, te.Msg)
			}
		}
		if warn != "" {
			fmt.Fprintln(os.Stderr, "srcfacts: translate iter: UNSUPPORTED", warn)
		}
	}
	missing := func(what string) {
		fmt.Fprintln(os.Stderr, "srcfacts: translate iter: "+what+" not found")
		defs = append(defs, "(* "+what+" not found *)\n")
	}
	// plain functions: the translator of translate_tree.go with the hooks of this file
	for _, fn := range []struct{ file, name, recv string }{{"node.go", "findChild", "nodeRef"}, {"tree.go", "lowestCommonParent", ""}} {
		fd := find(fn.file, fn.name, fn.recv)
		if fd == nil {
			missing(fn.file + ": func " + fn.name)
			continue
		}
		coq := "g_" + fn.name
		text, warn, self := translateTreeFunc(sh.fset, sh.info, callees, consts, treeFuncSpec{fd: fd, coq: coq, setup: iterSetup(false, nil)})
		report(fd, coq, warn)
		if warn != "" && fn.name == "lowestCommonParent" {
			text += "Definition " + coq + "_loop1 : untranslated := UNSUPPORTED \"see " + coq + "\".\n"
		}
		if self != nil {
			callees[fn.name] = self
		}
		defs = append(defs, text)
	}
	// functions returning an iterator closure
	for _, fn := range []struct {
		name string
		aux  []string
	}{{"all", []string{"_loop1"}}, {"backward", []string{"_loop1"}}, {"filter", []string{"_loop1"}}, {"rangeScan", []string{"_loop1"}},
		{"topK", []string{"_body"}}, {"bottomK", []string{"_body"}}} {
		fd := find("tree.go", fn.name, "")
		if fd == nil {
			missing("tree.go: func " + fn.name)
			continue
		}
		coq := "g_" + fn.name
		text, warn := translateIterFunc(sh, callees, consts, fd, coq, fn.aux)
		report(fd, coq, warn)
		defs = append(defs, text)
	}
	var cnames []string
	for n := range consts {
		if _, dup := sh.consts[n]; !dup { // Gen/TreeGen.v defines the ones it uses
			cnames = append(cnames, n)
		}
	}
	sort.Strings(cnames)
	for _, n := range cnames {
		sb.WriteString("\n" + consts[n])
	}
	for _, d := range defs {
		sb.WriteString("\n" + d)
	}
}
