// translate.go: a translator from the straight-line machine arithmetic of
// /repo/node4.go and /repo/node16_other.go to Gallina, re-run on every run.
// Output: Gen/Node4Gen.v and Gen/Node16Gen.v, one definition g_<name> per Go
// function and per package constant. Proofs/TranslateFacts.v proves that these
// regenerated definitions are the hand-written Model/Node4.v and Model/Node16.v,
// so an edit of the Go text that changes what a routine computes breaks a theorem.
//
// The types of all expressions (in particular the type an untyped constant such
// as the 0xFF of `0xFF << bitPos` is converted to) come from go/types. The two
// files are self-contained (they import math/bits only), so they are type-checked
// as a package of their own with a stub for math/bits: no GOROOT, no build tags
// (node16_other.go is excluded from an amd64/arm64 build) and no network needed.
//
// Supported fragment (anything else makes the whole function UNSUPPORTED):
//
//	types       uint8/byte, uint32, uint/uint64 -> N;  int -> Z (unbounded);  bool;
//	            *uint32 / *uint8 parameter -> N in, new value out;
//	            *[n]byte, [n]byte, []byte -> list N (read only)
//	statements  x := e   x = e   *p = e   x op= e   *p op= e   (op: & | ^ &^ << >> + - *)
//	            if c { ...; return e }      if c { assignments }      return e      return
//	            for i := range <constant> { assignments / ifs }  (a fold_left over seq 0 n)
//	expressions identifiers, constants (folded by go/constant), ^x -x !x, & | ^ &^ << >> + - *,
//	            == != < > <= >=, && ||, conversions between the integer types above,
//	            bits.TrailingZeros32, bits.TrailingZeros, a[i], []byte{...}, *p, parentheses
package main

import (
	"bytes"
	"fmt"
	"go/ast"
	"go/constant"
	"go/parser"
	"go/printer"
	"go/token"
	"go/types"
	"os"
	"path/filepath"
	"strings"
)

// ---------------------------------------------------------------- math/bits stub

const bitsStubSrc = `package bits
const UintSize = 64
func TrailingZeros(x uint) int { return 0 }
func TrailingZeros8(x uint8) int { return 0 }
func TrailingZeros16(x uint16) int { return 0 }
func TrailingZeros32(x uint32) int { return 0 }
func TrailingZeros64(x uint64) int { return 0 }
func LeadingZeros(x uint) int { return 0 }
func LeadingZeros8(x uint8) int { return 0 }
func LeadingZeros16(x uint16) int { return 0 }
func LeadingZeros32(x uint32) int { return 0 }
func LeadingZeros64(x uint64) int { return 0 }
func Len(x uint) int { return 0 }
func Len8(x uint8) int { return 0 }
func Len16(x uint16) int { return 0 }
func Len32(x uint32) int { return 0 }
func Len64(x uint64) int { return 0 }
func OnesCount(x uint) int { return 0 }
func OnesCount8(x uint8) int { return 0 }
func OnesCount16(x uint16) int { return 0 }
func OnesCount32(x uint32) int { return 0 }
func OnesCount64(x uint64) int { return 0 }
`

type trImporter struct {
	fset *token.FileSet
	bits *types.Package
}

func (im *trImporter) Import(path string) (*types.Package, error) {
	if path != "math/bits" {
		return nil, fmt.Errorf("import %q is outside the translated fragment (only math/bits)", path)
	}
	if im.bits == nil {
		f, err := parser.ParseFile(im.fset, "bits_stub.go", bitsStubSrc, 0)
		if err != nil {
			return nil, err
		}
		p, err := (&types.Config{}).Check("math/bits", im.fset, []*ast.File{f}, nil)
		if err != nil {
			return nil, err
		}
		im.bits = p
	}
	return im.bits, nil
}

// ---------------------------------------------------------------- sorts

type trSort int

const (
	sBad   trSort = iota
	sBool         // bool
	sU8           // N, < 2^8
	sU32          // N, < 2^32
	sU64          // N, < 2^64 (uint, uint64)
	sInt          // Z, unbounded
	sList         // list N: *[n]byte, [n]byte, []byte
	sPtr8         // *uint8 in/out parameter
	sPtr32        // *uint32 in/out parameter
)

func (s trSort) isN() bool { return s == sU8 || s == sU32 || s == sU64 }

func (s trSort) coqType() string {
	switch s {
	case sBool:
		return "bool"
	case sU8, sU32, sU64, sPtr8, sPtr32:
		return "N"
	case sInt:
		return "Z"
	case sList:
		return "list N"
	}
	return "?"
}

func isByte(t types.Type) bool {
	b, ok := t.Underlying().(*types.Basic)
	return ok && b.Kind() == types.Uint8
}

func sortOfType(t types.Type) trSort {
	if t == nil {
		return sBad
	}
	switch u := t.Underlying().(type) {
	case *types.Basic:
		switch u.Kind() {
		case types.Bool, types.UntypedBool:
			return sBool
		case types.Uint8:
			return sU8
		case types.Uint32:
			return sU32
		case types.Uint, types.Uint64:
			return sU64
		case types.Int, types.UntypedInt, types.UntypedRune:
			return sInt
		}
	case *types.Slice:
		if isByte(u.Elem()) {
			return sList
		}
	case *types.Array:
		if isByte(u.Elem()) {
			return sList
		}
	case *types.Pointer:
		switch e := u.Elem().Underlying().(type) {
		case *types.Array:
			if isByte(e.Elem()) {
				return sList
			}
		case *types.Basic:
			switch e.Kind() {
			case types.Uint8:
				return sPtr8
			case types.Uint32:
				return sPtr32
			}
		}
	}
	return sBad
}

func derefSort(s trSort) trSort {
	switch s {
	case sPtr8:
		return sU8
	case sPtr32:
		return sU32
	}
	return sBad
}

// ---------------------------------------------------------------- per-function translator

type trUnsupported struct{ msg string }

type fnTr struct {
	fset   *token.FileSet
	info   *types.Info
	consts map[types.Object]string // translated package constants -> g_<name>
	names  map[types.Object]string // parameters and locals -> Coq names
	used   map[string]bool
	retf   func(s *ast.ReturnStmt) string // translation of a return statement (set by translateFunc)
}

var coqReserved = func() map[string]bool {
	m := map[string]bool{}
	for _, w := range strings.Fields(`as at cofix else end exists exists2 fix for forall fun if IF in let match mod
		return then using where with Set Prop Type SProp by do
		u32 sub32 add32 mul32 not32 shl32 shr32 tz tz_pos tz_uint M32 uint_of_int u32_of_int u8_of_int
		untranslated UNSUPPORTED nth fold_left seq negb andb orb true false N Z nat list bool tt pair fst snd
		ones01 lo7BitsMask hiBitMask`) {
		m[w] = true
	}
	return m
}()

func (t *fnTr) fail(n ast.Node, why string) {
	panic(trUnsupported{why + ": " + t.text(n)})
}

func (t *fnTr) text(n ast.Node) string {
	var b bytes.Buffer
	printer.Fprint(&b, t.fset, n)
	return strings.Join(strings.Fields(b.String()), " ")
}

// one Coq name per Go object (a shadowing inner declaration gets a fresh name)
func (t *fnTr) nameOf(obj types.Object) string {
	if n, ok := t.names[obj]; ok {
		return n
	}
	var sb strings.Builder
	for i, r := range obj.Name() {
		ok := r == '_' || (r >= 'a' && r <= 'z') || (r >= 'A' && r <= 'Z') || (i > 0 && r >= '0' && r <= '9')
		if ok {
			sb.WriteRune(r)
		} else {
			sb.WriteString("_")
		}
	}
	base := sb.String()
	if base == "_" || base == "" {
		base = "v"
	}
	if coqReserved[base] || strings.HasPrefix(base, "g_") {
		base += "_"
	}
	n := base
	for k := 2; t.used[n]; k++ {
		n = fmt.Sprintf("%s_%d", base, k)
	}
	t.used[n] = true
	t.names[obj] = n
	return n
}

func (t *fnTr) fresh(base string) string {
	n := base
	for k := 2; t.used[n] || coqReserved[n]; k++ {
		n = fmt.Sprintf("%s_%d", base, k)
	}
	t.used[n] = true
	return n
}

// strip one pair of outer parentheses
func top(code string) string {
	if len(code) < 2 || code[0] != '(' || code[len(code)-1] != ')' {
		return code
	}
	depth := 0
	for i := 0; i < len(code); i++ {
		switch code[i] {
		case '(':
			depth++
		case ')':
			depth--
			if depth == 0 && i != len(code)-1 {
				return code
			}
		}
	}
	return code[1 : len(code)-1]
}

func app(f string, args ...string) string {
	return "(" + f + " " + strings.Join(args, " ") + ")"
}

func litOf(v constant.Value, s trSort) (string, bool) {
	if v == nil {
		return "", false
	}
	if s == sBool && v.Kind() == constant.Bool {
		if constant.BoolVal(v) {
			return "true", true
		}
		return "false", true
	}
	iv := constant.ToInt(v)
	if iv.Kind() != constant.Int {
		return "", false
	}
	neg := constant.Sign(iv) < 0
	abs := iv
	if neg {
		abs = constant.UnaryOp(token.SUB, iv, 0)
	}
	digits := abs.ExactString()
	if u, ok := constant.Uint64Val(abs); ok && u >= 64 {
		digits = fmt.Sprintf("0x%X", u)
	}
	switch {
	case s.isN() && !neg:
		return digits, true
	case s == sInt && neg:
		return "(-" + digits + ")%Z", true
	case s == sInt:
		return digits + "%Z", true
	}
	return "", false
}

// does the expression mention one of the translated package constants?
func (t *fnTr) mentionsNamedConst(e ast.Expr) bool {
	found := false
	ast.Inspect(e, func(n ast.Node) bool {
		if id, ok := n.(*ast.Ident); ok {
			if _, ok := t.consts[t.info.Uses[id]]; ok {
				found = true
			}
		}
		return !found
	})
	return found
}

// a constant expression built from literals only: folded with Go's own constant arithmetic
func (t *fnTr) foldable(e ast.Expr) (constant.Value, bool) {
	tv, ok := t.info.Types[e]
	if !ok || tv.Value == nil || t.mentionsNamedConst(e) {
		return nil, false
	}
	return tv.Value, true
}

func (t *fnTr) sortOfExpr(e ast.Expr) trSort {
	tv, ok := t.info.Types[e]
	if !ok {
		t.fail(e, "no type recorded (the file does not type-check)")
	}
	s := sortOfType(tv.Type)
	if s == sBad {
		t.fail(e, fmt.Sprintf("type %s is outside the fragment", tv.Type))
	}
	return s
}

// expr translates an expression to a (parenthesised or atomic) Gallina term of the sort of its Go type.
func (t *fnTr) expr(e ast.Expr) (string, trSort) {
	if p, ok := e.(*ast.ParenExpr); ok {
		return t.expr(p.X)
	}
	if v, ok := t.foldable(e); ok {
		s := t.sortOfExpr(e)
		if l, ok := litOf(v, s); ok {
			return l, s
		}
		t.fail(e, "constant outside the fragment")
	}
	switch x := e.(type) {
	case *ast.Ident:
		obj := t.info.Uses[x]
		if g, ok := t.consts[obj]; ok {
			use := t.sortOfExpr(e)
			if sortOfType(obj.Type()) == use {
				if b, ok := obj.Type().(*types.Basic); !ok || b.Info()&types.IsUntyped == 0 {
					return g, use
				}
			}
			if l, ok := litOf(t.info.Types[e].Value, use); ok { // untyped constant: its value at the type of this use
				return l, use
			}
			t.fail(e, "constant outside the fragment")
		}
		if v, ok := obj.(*types.Var); ok && !v.IsField() && v.Parent() != nil && v.Parent() != v.Pkg().Scope() {
			s := sortOfType(v.Type())
			if s == sBad || s == sPtr8 || s == sPtr32 {
				t.fail(e, fmt.Sprintf("use of a variable of type %s", v.Type()))
			}
			return t.nameOf(v), s
		}
		t.fail(e, "identifier outside the fragment")
	case *ast.StarExpr:
		if id, ok := x.X.(*ast.Ident); ok {
			if v, ok := t.info.Uses[id].(*types.Var); ok {
				if s := derefSort(sortOfType(v.Type())); s != sBad {
					return t.nameOf(v), s
				}
			}
		}
		t.fail(e, "dereference outside the fragment")
	case *ast.UnaryExpr:
		a, s := t.expr(x.X)
		switch {
		case x.Op == token.XOR && s == sU32:
			return app("not32", a), s
		case x.Op == token.XOR && s == sU8:
			return app("N.lxor", a, "0xFF"), s
		case x.Op == token.XOR && s == sInt:
			return app("Z.lnot", a), s
		case x.Op == token.SUB && s == sInt:
			return app("Z.opp", a), s
		case x.Op == token.SUB && s == sU32:
			return app("sub32", "0", a), s
		case x.Op == token.ADD && (s.isN() || s == sInt):
			return a, s
		case x.Op == token.NOT && s == sBool:
			return app("negb", a), s
		}
		t.fail(e, "unary operator outside the fragment")
	case *ast.BinaryExpr:
		a, s := t.expr(x.X)
		return t.binary(e, x.Op, a, s, x.Y)
	case *ast.CallExpr:
		return t.call(x)
	case *ast.IndexExpr:
		a, s := t.expr(x.X)
		if s != sList {
			t.fail(e, "index of a non-byte-array")
		}
		var idx string
		if v, ok := t.foldable(x.Index); ok {
			n, exact := constant.Uint64Val(constant.ToInt(v))
			if !exact {
				t.fail(e, "index constant")
			}
			idx = fmt.Sprintf("%d%%nat", n)
		} else {
			i, is := t.expr(x.Index)
			switch {
			case is == sInt:
				idx = app("Z.to_nat", i)
			case is.isN():
				idx = app("N.to_nat", i)
			default:
				t.fail(e, "index type")
			}
		}
		return app("nth", idx, a, "0"), sU8 // an out-of-range index panics in Go; nth's default is never reached under length = n
	case *ast.CompositeLit:
		if t.sortOfExpr(e) != sList {
			t.fail(e, "composite literal outside the fragment")
		}
		if _, isArr := t.info.Types[e].Type.Underlying().(*types.Slice); !isArr {
			t.fail(e, "array literal (only []byte{...})")
		}
		var elts []string
		for _, el := range x.Elts {
			if _, kv := el.(*ast.KeyValueExpr); kv {
				t.fail(e, "keyed composite literal")
			}
			c, s := t.expr(el)
			if s != sU8 {
				t.fail(el, "element type")
			}
			elts = append(elts, top(c))
		}
		return "[" + strings.Join(elts, "; ") + "]", sList
	}
	t.fail(e, "expression outside the fragment")
	return "", sBad
}

// shift counts: unsigned, or a non-negative int (a negative count panics in Go)
func (t *fnTr) countN(e ast.Expr) string {
	if v, ok := t.foldable(e); ok {
		if l, ok := litOf(v, sU64); ok {
			return l
		}
		t.fail(e, "shift count")
	}
	c, s := t.expr(e)
	switch {
	case s.isN():
		return c
	case s == sInt:
		return app("Z.to_N", c)
	}
	t.fail(e, "shift count")
	return ""
}

func (t *fnTr) countZ(e ast.Expr) string {
	if v, ok := t.foldable(e); ok {
		if l, ok := litOf(v, sInt); ok {
			return l
		}
		t.fail(e, "shift count")
	}
	c, s := t.expr(e)
	switch {
	case s.isN():
		return app("Z.of_N", c)
	case s == sInt:
		return c
	}
	t.fail(e, "shift count")
	return ""
}

// binary translates `a op y` where a (of sort s) is already translated; at is the node for messages.
func (t *fnTr) binary(at ast.Node, op token.Token, a string, s trSort, y ast.Expr) (string, trSort) {
	switch op {
	case token.SHL:
		switch s {
		case sU32:
			return app("shl32", a, t.countN(y)), s
		case sU8:
			return "(" + app("N.shiftl", a, t.countN(y)) + " mod 256)", s
		case sInt:
			return app("Z.shiftl", a, t.countZ(y)), s
		}
		t.fail(at, "<< at this type")
	case token.SHR:
		switch s {
		case sU32:
			return app("shr32", a, t.countN(y)), s
		case sU8, sU64:
			return app("N.shiftr", a, t.countN(y)), s
		case sInt:
			return app("Z.shiftr", a, t.countZ(y)), s
		}
		t.fail(at, ">> at this type")
	}
	b, sb := t.expr(y)
	if sb != s {
		t.fail(at, "operands of different types")
	}
	pre := "N."
	if s == sInt {
		pre = "Z."
	}
	switch op {
	case token.AND, token.OR, token.XOR, token.AND_NOT:
		if !(s.isN() || s == sInt) {
			t.fail(at, "bit operator at this type")
		}
		f := map[token.Token]string{token.AND: "land", token.OR: "lor", token.XOR: "lxor", token.AND_NOT: "ldiff"}[op]
		return app(pre+f, a, b), s
	case token.ADD, token.SUB, token.MUL:
		f := map[token.Token]string{token.ADD: "add", token.SUB: "sub", token.MUL: "mul"}[op]
		switch s {
		case sU32:
			return app(f+"32", a, b), s // wraps mod 2^32
		case sInt:
			return app("Z."+f, a, b), s // unbounded
		}
		t.fail(at, "arithmetic at this type (only uint32 and int)")
	case token.EQL, token.NEQ, token.LSS, token.LEQ, token.GTR, token.GEQ:
		if !(s.isN() || s == sInt) {
			t.fail(at, "comparison at this type")
		}
		switch op {
		case token.EQL:
			return app(pre+"eqb", a, b), sBool
		case token.NEQ:
			return app("negb", app(pre+"eqb", a, b)), sBool
		case token.LSS:
			return app(pre+"ltb", a, b), sBool
		case token.LEQ:
			return app(pre+"leb", a, b), sBool
		case token.GTR:
			return app(pre+"ltb", b, a), sBool
		case token.GEQ:
			return app(pre+"leb", b, a), sBool
		}
	case token.LAND, token.LOR:
		if s != sBool {
			t.fail(at, "logical operator at this type")
		}
		if op == token.LAND {
			return app("andb", a, b), sBool
		}
		return app("orb", a, b), sBool
	}
	t.fail(at, "binary operator outside the fragment")
	return "", sBad
}

func (t *fnTr) call(x *ast.CallExpr) (string, trSort) {
	if len(x.Args) != 1 || x.Ellipsis != token.NoPos {
		t.fail(x, "call outside the fragment")
	}
	fun := ast.Unparen(x.Fun)
	if tv, ok := t.info.Types[fun]; ok && tv.IsType() { // conversion
		to := sortOfType(tv.Type)
		a, from := t.expr(x.Args[0])
		switch {
		case to == from:
			return a, to
		case to == sU32 && from == sU8, to == sU64 && (from == sU8 || from == sU32):
			return a, to // widening: the value is unchanged
		case to == sU32 && from == sU64:
			return app("u32", a), to
		case to == sU8 && from.isN():
			return "(" + a + " mod 256)", to
		case to == sInt && from.isN():
			return app("Z.of_N", a), to // uint32/uint8 always fit; a uint above 2^63 is outside the unbounded-int assumption
		case to == sU64 && from == sInt:
			return app("uint_of_int", a), to
		case to == sU32 && from == sInt:
			return app("u32_of_int", a), to
		case to == sU8 && from == sInt:
			return app("u8_of_int", a), to
		}
		t.fail(x, "conversion outside the fragment")
	}
	if sel, ok := fun.(*ast.SelectorExpr); ok {
		if f, ok := t.info.Uses[sel.Sel].(*types.Func); ok && f.Pkg() != nil && f.Pkg().Path() == "math/bits" {
			a, s := t.expr(x.Args[0])
			switch {
			case f.Name() == "TrailingZeros32" && s == sU32:
				return app("Z.of_N", app("tz", a)), sInt
			case f.Name() == "TrailingZeros" && s == sU64:
				return app("Z.of_N", app("tz_uint", a)), sInt
			}
		}
	}
	t.fail(x, "call outside the fragment")
	return "", sBad
}

// cond translates a condition; neg says the caller must swap the branches
// (`a != b` is emitted as the test a =? b with the branches exchanged).
func (t *fnTr) cond(e ast.Expr) (string, bool) {
	e = ast.Unparen(e)
	if _, ok := t.foldable(e); !ok {
		switch x := e.(type) {
		case *ast.BinaryExpr:
			if x.Op == token.NEQ {
				a, s := t.expr(x.X)
				c, _ := t.binary(e, token.EQL, a, s, x.Y)
				return c, true
			}
		case *ast.UnaryExpr:
			if x.Op == token.NOT {
				c, neg := t.cond(x.X)
				return c, !neg
			}
		}
	}
	c, s := t.expr(e)
	if s != sBool {
		t.fail(e, "condition")
	}
	return c, false
}

// ---------------------------------------------------------------- statements

func escapes(b ast.Node) bool { // return / break / continue / goto / closures / defer / go inside b
	found := false
	ast.Inspect(b, func(n ast.Node) bool {
		switch n.(type) {
		case *ast.ReturnStmt, *ast.BranchStmt, *ast.FuncLit, *ast.DeferStmt, *ast.GoStmt, *ast.LabeledStmt:
			found = true
		}
		return !found
	})
	return found
}

// the variables declared outside the block b and assigned inside it, in order of first assignment
func (t *fnTr) assignedOuter(b *ast.BlockStmt) []types.Object {
	var out []types.Object
	seen := map[types.Object]bool{}
	add := func(e ast.Expr) {
		e = ast.Unparen(e)
		if st, ok := e.(*ast.StarExpr); ok {
			e = ast.Unparen(st.X)
		}
		id, ok := e.(*ast.Ident)
		if !ok {
			t.fail(e, "assignment target outside the fragment")
		}
		obj := t.info.Uses[id]
		if obj == nil {
			return // a := declaration: local to the block
		}
		if obj.Pos() >= b.Pos() && obj.Pos() < b.End() {
			return
		}
		if !seen[obj] {
			seen[obj] = true
			out = append(out, obj)
		}
	}
	ast.Inspect(b, func(n ast.Node) bool {
		switch s := n.(type) {
		case *ast.AssignStmt:
			for _, l := range s.Lhs {
				add(l)
			}
		case *ast.IncDecStmt:
			add(s.X)
		}
		return true
	})
	return out
}

func (t *fnTr) tuple(objs []types.Object) (pat, val string) {
	var ns []string
	for _, o := range objs {
		ns = append(ns, t.nameOf(o))
	}
	if len(ns) == 1 {
		return ns[0], ns[0]
	}
	return "'(" + strings.Join(ns, ", ") + ")", "(" + strings.Join(ns, ", ") + ")"
}

var assignOps = map[token.Token]token.Token{
	token.AND_ASSIGN: token.AND, token.OR_ASSIGN: token.OR, token.XOR_ASSIGN: token.XOR, token.AND_NOT_ASSIGN: token.AND_NOT,
	token.SHL_ASSIGN: token.SHL, token.SHR_ASSIGN: token.SHR,
	token.ADD_ASSIGN: token.ADD, token.SUB_ASSIGN: token.SUB, token.MUL_ASSIGN: token.MUL,
}

// stmts translates a statement list; tail() is the term the list continues with when control falls off its end.
func (t *fnTr) stmts(list []ast.Stmt, tail func() string, ind string) string {
	if len(list) == 0 {
		return ind + tail()
	}
	st, rest := list[0], list[1:]
	switch s := st.(type) {
	case *ast.EmptyStmt:
		return t.stmts(rest, tail, ind)
	case *ast.ReturnStmt:
		if len(rest) != 0 {
			t.fail(rest[0], "statement after return")
		}
		return ind + t.ret(s)
	case *ast.AssignStmt:
		if len(s.Lhs) != 1 || len(s.Rhs) != 1 {
			t.fail(s, "multiple assignment")
		}
		var obj types.Object
		var ls trSort
		switch l := ast.Unparen(s.Lhs[0]).(type) {
		case *ast.Ident:
			if l.Name == "_" {
				t.fail(s, "blank assignment")
			}
			if s.Tok == token.DEFINE {
				obj = t.info.Defs[l]
			}
			if obj == nil {
				obj = t.info.Uses[l]
			}
			if v, ok := obj.(*types.Var); !ok || v.Parent() == nil || v.Parent() == v.Pkg().Scope() {
				t.fail(s, "assignment to a non-local")
			}
			ls = sortOfType(obj.Type())
			if !(ls.isN() || ls == sInt || ls == sBool || (ls == sList && s.Tok == token.DEFINE)) {
				t.fail(s, fmt.Sprintf("assignment to a variable of type %s", obj.Type()))
			}
		case *ast.StarExpr:
			id, ok := ast.Unparen(l.X).(*ast.Ident)
			if !ok {
				t.fail(s, "assignment target")
			}
			obj = t.info.Uses[id]
			if _, ok := obj.(*types.Var); !ok {
				t.fail(s, "assignment target")
			}
			ls = derefSort(sortOfType(obj.Type()))
			if ls == sBad {
				t.fail(s, "assignment through a pointer outside the fragment")
			}
		default:
			t.fail(s, "assignment target outside the fragment")
		}
		var code string
		if s.Tok == token.DEFINE || s.Tok == token.ASSIGN {
			c, rs := t.expr(s.Rhs[0])
			if rs != ls {
				t.fail(s, "assignment between different types")
			}
			code = c
		} else if op, ok := assignOps[s.Tok]; ok {
			if s.Tok == token.DEFINE {
				t.fail(s, "assignment")
			}
			code, _ = t.binary(s, op, t.nameOf(obj), ls, s.Rhs[0])
		} else {
			t.fail(s, "assignment operator outside the fragment")
		}
		return ind + "let " + t.nameOf(obj) + " := " + top(code) + " in\n" + t.stmts(rest, tail, ind)
	case *ast.IfStmt:
		if s.Init != nil || s.Else != nil {
			t.fail(s, "if with init or else")
		}
		c, neg := t.cond(s.Cond)
		n := len(s.Body.List)
		if n > 0 {
			if _, ok := s.Body.List[n-1].(*ast.ReturnStmt); ok { // if c { ...; return e }; rest
				for _, b := range s.Body.List[:n-1] {
					if escapes(b) {
						t.fail(b, "control flow inside a returning if")
					}
				}
				thenC := t.stmts(s.Body.List, nil, ind+"  ")
				elseC := t.stmts(rest, tail, ind+"  ")
				if neg {
					thenC, elseC = elseC, thenC
				}
				return ind + "if " + top(c) + " then (\n" + thenC + "\n" + ind + ") else (\n" + elseC + "\n" + ind + ")"
			}
		}
		if escapes(s.Body) {
			t.fail(s, "control flow inside an if")
		}
		vars := t.assignedOuter(s.Body)
		if len(vars) == 0 { // conditions have no side effects in the fragment
			t.cond(s.Cond)
			return t.stmts(rest, tail, ind)
		}
		pat, val := t.tuple(vars)
		body := t.stmts(s.Body.List, func() string { return val }, ind+"    ")
		var ite string
		if neg {
			ite = "if " + top(c) + " then " + val + " else (\n" + body + ")"
		} else {
			ite = "if " + top(c) + " then (\n" + body + ") else " + val
		}
		return ind + "let " + pat + " := " + ite + " in\n" + t.stmts(rest, tail, ind)
	case *ast.RangeStmt:
		// for i := range <constant n>: a fold over 0 .. n-1 of the variables the body assigns
		v, ok := t.foldable(s.X)
		if !ok || s.Value != nil || (s.Key != nil && s.Tok != token.DEFINE) {
			t.fail(s, "range loop outside the fragment (only `for i := range <constant>`)")
		}
		n, exact := constant.Uint64Val(constant.ToInt(v))
		if !exact || n > 1<<16 {
			t.fail(s, "range bound")
		}
		if escapes(s.Body) {
			t.fail(s, "control flow inside a loop")
		}
		vars := t.assignedOuter(s.Body)
		if len(vars) == 0 {
			return t.stmts(rest, tail, ind)
		}
		pat, val := t.tuple(vars)
		nat := t.fresh("i_n")
		bind := ""
		if id, ok := s.Key.(*ast.Ident); ok && id.Name != "_" {
			iv := t.info.Defs[id]
			switch is := sortOfType(iv.Type()); {
			case is == sInt:
				bind = ind + "    let " + t.nameOf(iv) + " := Z.of_nat " + nat + " in\n"
			case is.isN():
				bind = ind + "    let " + t.nameOf(iv) + " := N.of_nat " + nat + " in\n"
			default:
				t.fail(s, "loop variable type")
			}
		} else if s.Key != nil {
			if _, ok := s.Key.(*ast.Ident); !ok {
				t.fail(s, "loop variable")
			}
		}
		body := t.stmts(s.Body.List, func() string { return val }, ind+"    ")
		return ind + "let " + pat + " := fold_left (fun " + pat + " (" + nat + " : nat) =>\n" + bind + body + ")\n" +
			ind + "  (seq 0 " + fmt.Sprint(n) + ") " + val + " in\n" + t.stmts(rest, tail, ind)
	}
	t.fail(st, "statement outside the fragment")
	return ""
}

func (t *fnTr) ret(s *ast.ReturnStmt) string { return t.retf(s) }

// ---------------------------------------------------------------- functions, constants, files

func translateFunc(fset *token.FileSet, info *types.Info, consts map[types.Object]string, fd *ast.FuncDecl) (text string, warn string) {
	t := &fnTr{fset: fset, info: info, consts: consts, names: map[types.Object]string{}, used: map[string]bool{}}
	name := "g_" + fd.Name.Name
	var sigText bytes.Buffer
	printer.Fprint(&sigText, fset, &ast.FuncDecl{Name: fd.Name, Type: fd.Type, Recv: fd.Recv})
	header := "(* " + strings.Join(strings.Fields(sigText.String()), " ") + " *)\n"
	defer func() {
		if r := recover(); r != nil {
			u, ok := r.(trUnsupported)
			if !ok {
				panic(r)
			}
			warn = fd.Name.Name + ": " + u.msg
			text = header + "Definition " + name + " : untranslated := UNSUPPORTED \"" + strings.ReplaceAll(u.msg, "\"", "\"\"") + "\".\n"
		}
	}()
	if fd.Recv != nil || fd.Type.TypeParams != nil || fd.Body == nil {
		t.fail(fd.Name, "method, generic function or function without body")
	}
	var binders []string
	var outs []types.Object
	for _, f := range fd.Type.Params.List {
		if len(f.Names) == 0 {
			t.fail(f.Type, "unnamed parameter")
		}
		for _, id := range f.Names {
			obj := info.Defs[id]
			if obj == nil || id.Name == "_" {
				t.fail(id, "blank parameter")
			}
			s := sortOfType(obj.Type())
			if s == sBad || s == sBool {
				t.fail(f.Type, "parameter type outside the fragment")
			}
			if s == sPtr8 || s == sPtr32 {
				outs = append(outs, obj)
			}
			binders = append(binders, "("+t.nameOf(obj)+" : "+s.coqType()+")")
		}
	}
	var resType string
	var resSort trSort
	nres := 0
	if fd.Type.Results != nil {
		for _, f := range fd.Type.Results.List {
			if len(f.Names) != 0 {
				t.fail(f.Type, "named result")
			}
			nres++
			resSort = sortOfType(info.Types[f.Type].Type)
			if !(resSort.isN() || resSort == sInt || resSort == sBool || resSort == sList) {
				t.fail(f.Type, "result type outside the fragment")
			}
			resType = resSort.coqType()
		}
	}
	var tail func() string
	var ret func(s *ast.ReturnStmt) string
	switch {
	case nres == 1:
		if len(outs) != 0 {
			t.fail(fd.Name, "a result and a pointer in/out parameter together")
		}
		tail = func() string { t.fail(fd.Name, "control can reach the end of a function with a result"); return "" }
		ret = func(s *ast.ReturnStmt) string {
			if len(s.Results) != 1 {
				t.fail(s, "return")
			}
			c, rs := t.expr(s.Results[0])
			if rs != resSort {
				t.fail(s, "return type")
			}
			return top(c)
		}
	case nres == 0 && len(outs) > 0:
		var tys []string
		for range outs {
			tys = append(tys, "N")
		}
		resType = strings.Join(tys, " * ")
		_, val := t.tuple(outs)
		tail = func() string { return val }
		ret = func(s *ast.ReturnStmt) string {
			if len(s.Results) != 0 {
				t.fail(s, "return")
			}
			return val
		}
	default:
		t.fail(fd.Name, "no single result and no pointer in/out parameter")
	}
	t.retf = ret
	body := t.stmts(fd.Body.List, tail, "  ")
	text = header + "Definition " + name + " " + strings.Join(binders, " ") + " : " + resType + " :=\n" + body + ".\n"
	return text, ""
}

const trConventions = `   Conventions (go/cmd/srcfacts/translate.go, primitives in Model/Node4.v and Model/GoArith.v):
   uint32, byte, uint are N with the wrap of every operator written out (sub32 add32 mul32 not32
   shl32 shr32, "mod 256"); a uint32 shifted by a count >= 32 is 0 (shl32, shr32). int is Z and
   UNBOUNDED (no wrap is modelled: the theorems of Proofs/TranslateFacts.v bound the inputs so that
   every int stays below 2^17). An int used as a shift count or an index is assumed non-negative
   (Go panics otherwise) and passed as Z.to_N / Z.to_nat. A *uint32 in/out parameter is an N
   argument and the function returns the new value. *[16]byte is a list N (Go panics on an index
   out of range; nth's default 0 is never reached when length = 16). "if a != b {A}; B" is
   emitted as "if a =? b then B else A". Constant expressions made of literals only are folded by
   go/constant at the type go/types gives them.`

func emitTranslations(repo, outdir string) {
	fset := token.NewFileSet()
	srcs := []struct{ goFile, coqFile string }{
		{"node4.go", "Node4Gen.v"},
		{"node16_other.go", "Node16Gen.v"},
	}
	var files []*ast.File
	present := map[string]*ast.File{}
	for _, s := range srcs {
		p := filepath.Join(repo, s.goFile)
		if _, err := os.Stat(p); err != nil {
			fmt.Fprintf(os.Stderr, "srcfacts: translate: %s is missing; its translation will be empty\n", s.goFile)
			continue
		}
		f, err := parser.ParseFile(fset, p, nil, parser.ParseComments)
		must(err)
		present[s.goFile] = f
		files = append(files, f)
	}
	info := &types.Info{
		Types: map[ast.Expr]types.TypeAndValue{},
		Defs:  map[*ast.Ident]types.Object{},
		Uses:  map[*ast.Ident]types.Object{},
	}
	conf := types.Config{
		Importer: &trImporter{fset: fset},
		Error: func(err error) {
			fmt.Fprintln(os.Stderr, "srcfacts: translate: type error (the two files are checked on their own):", err)
		},
	}
	conf.Check("art", fset, files, info) // errors reported above; untyped expressions become UNSUPPORTED

	// package constants of the translated files
	consts := map[types.Object]string{}
	for _, f := range files {
		for _, d := range f.Decls {
			if gd, ok := d.(*ast.GenDecl); ok && gd.Tok == token.CONST {
				for _, sp := range gd.Specs {
					for _, id := range sp.(*ast.ValueSpec).Names {
						if c, ok := info.Defs[id].(*types.Const); ok && id.Name != "_" {
							consts[c] = "g_" + id.Name
						}
					}
				}
			}
		}
	}

	for _, s := range srcs {
		var sb strings.Builder
		fmt.Fprintf(&sb, "(* REGENERATED by go/cmd/srcfacts (translate.go) from /repo's %s on every run — do not edit.\n", s.goFile)
		sb.WriteString("   One definition g_<name> per Go function and package constant; Proofs/TranslateFacts.v proves them\n")
		sb.WriteString("   equal to the hand-written model.\n")
		sb.WriteString(trConventions + " *)\n")
		sb.WriteString("From GoArt Require Import Model.GoArith.\nFrom Coq Require Import String.\nImport ListNotations.\nOpen Scope N_scope.\n")
		f := present[s.goFile]
		if f == nil {
			sb.WriteString("\n(* " + s.goFile + " does not exist *)\n")
		} else {
			for _, d := range f.Decls {
				switch x := d.(type) {
				case *ast.GenDecl:
					if x.Tok != token.CONST {
						continue
					}
					for _, sp := range x.Specs {
						vs := sp.(*ast.ValueSpec)
						for i, id := range vs.Names {
							c, ok := info.Defs[id].(*types.Const)
							if !ok || id.Name == "_" {
								continue
							}
							src := ""
							if i < len(vs.Values) {
								var b bytes.Buffer
								printer.Fprint(&b, fset, vs.Values[i])
								src = " = " + strings.Join(strings.Fields(b.String()), " ")
							}
							srt := sortOfType(c.Type())
							lit, ok := litOf(c.Val(), srt)
							fmt.Fprintf(&sb, "\n(* const %s%s   (type %s) *)\n", id.Name, src, c.Type())
							if !ok {
								msg := "constant outside the fragment: " + id.Name
								fmt.Fprintln(os.Stderr, "srcfacts: translate: UNSUPPORTED", msg)
								fmt.Fprintf(&sb, "Definition g_%s : untranslated := UNSUPPORTED \"%s\".\n", id.Name, msg)
								continue
							}
							fmt.Fprintf(&sb, "Definition g_%s : %s := %s.\n", id.Name, srt.coqType(), lit)
						}
					}
				case *ast.FuncDecl:
					text, warn := translateFunc(fset, info, consts, x)
					if warn != "" {
						fmt.Fprintln(os.Stderr, "srcfacts: translate: UNSUPPORTED", warn)
					}
					sb.WriteString("\n" + text)
				}
			}
		}
		writeIfChanged(filepath.Join(outdir, s.coqFile), sb.String())
	}
}
