#!/bin/bash
# Builds the whole framework from files on disk only (offline): Go harness (amd64/386/race/checkptr)
# from /repo's working tree, regenerated Coq facts, the Coq development from clean, the extracted
# model driver; then the forbidden-construct scan.
set -u
cd /verif
rm -f coq/Makefile coq/Makefile.conf coq/.Makefile.d
rm -rf build/t-*
find coq -name '*.vo' -o -name '*.vok' -o -name '*.vos' -o -name '*.glob' -o -name '.*.aux' | xargs -r rm -f
python3 - <<'PY'
import sys
sys.path.insert(0, "/verif/bin")
import vlib, json
b = vlib.ensure_build(need386=True, need_race=True, need_checkptr=True)
print(json.dumps({k: v for k, v in b.status.items() if k != "log"}))
if not (b.status.get("go_ok") and b.status.get("coq_ok") and b.status.get("driver_ok")):
    print(b.status["log"].get("go_build", "")[-2000:])
    print(b.status["log"].get("make", "")[-3000:])
    print(b.status["log"].get("driver", "")[-2000:])
    sys.exit(1)
PY
rc=$?
if grep -rn --include='*.v' -E '(^|[^A-Za-z_])(Admitted|admit|Axiom|Parameter|Conjecture|Admit Obligations)([^A-Za-z_]|$)|Unset Guard|bypass_check|type-in-type|impredicative-set' coq | grep -v '^coq/[A-Za-z/0-9_]*\.v:[0-9]*:\s*(\*' ; then
  echo "setup: forbidden construct found in the Coq development (listed above)"
  rc=1
fi
exit $rc
