#!/usr/bin/env python3
"""Property-specific legs of bin/vcheck."""
import glob, json, os, re, struct, time
from vlib import *
import vshape

def _enough(ctx):
    return len([v for v in ctx.violations if v[0] not in ("correspondence", "proof")]) > 4

def _outs(ctx):
    for f in sorted(glob.glob(os.path.join(ctx.work, "*", "*.cmds"))):
        yield f, read_cmds(f), load_lines(f[:-5] + ".out")

# ------------------------------------------------------------------ C07: independent order oracle

def _abs_value(kind, txt):
    """abstract value of a key text, for Python's own comparison (never the library's encoders)"""
    w = int(kind[1:])
    if kind[0] == "u":
        return (0, int(txt, 16))
    if kind[0] == "s":
        return (0, int(txt, 16))
    if txt == "nan":
        return (-1, 0)
    bits = int(txt, 16)
    if w == 4:
        f = struct.unpack(">f", struct.pack(">I", bits))[0]
    else:
        f = struct.unpack(">d", struct.pack(">Q", bits))[0]
    if f != f:
        return (-1, 0)
    neg_zero = (f == 0 and (bits >> (8 * w - 1)) == 1)
    return (0, f, 0 if neg_zero else 1)

def extra_codec(ctx):
    from vprops import report_violation
    per = {}
    n = 0
    for f, cmds, out in _outs(ctx):
        for i, c in enumerate(cmds):
            t = c.split()
            if t[0] != "ENC" or t[1].startswith("comp:") or i >= len(out):
                continue
            o = out[i].split()
            if len(o) != 3:
                report_violation(ctx, "oracle", "codec call failed", {"commands": [c], "implementation": out[i]}, "codec-%d" % i)
                continue
            n += 1
            kind = t[1]
            key = t[3]
            w = int(kind[1:])
            val = _abs_value(kind, key)
            enc, dec = o[1], o[2]
            if "!" in dec:
                # the harness decoded the same encoding twice, or encoded the same value twice, and got two answers
                report_violation(ctx, "oracle", "the codec does not give the same answer twice: " + dec.split("!", 1)[1],
                                 {"commands": [c], "implementation": out[i]}, "codec-twice-%d" % i)
                dec = dec.split("!", 1)[0]
            if len(enc) != 2 * w:
                report_violation(ctx, "oracle", "encoding of %s has %d bytes, expected %d" % (c, len(enc) // 2, w),
                                 {"commands": [c], "implementation": out[i]}, "codec-len-%d" % i)
            if _abs_value(kind, dec) != val or (val[0] == 0 and kind[0] == "f" and dec != key):
                report_violation(ctx, "oracle", "Restore(Transform(x)) != x", {"commands": [c], "implementation": out[i]}, "codec-rt-%d" % i)
            per.setdefault((kind, t[2]), {})[enc] = (val, key, c)
            if _enough(ctx):
                return {}
    pairs = 0
    for (kind, variant), m in per.items():
        items = sorted(m.items())          # by encoding, bytewise (hex of fixed length)
        byval = {}
        for enc, (val, key, c) in items:
            if val in byval and byval[val][0] != enc:
                report_violation(ctx, "oracle", "one value has two encodings", {"commands": [byval[val][1], c]}, "codec-inj-%s" % kind)
            byval[val] = (enc, c)
        for (e1, (v1, k1, c1)), (e2, (v2, k2, c2)) in zip(items, items[1:]):
            pairs += 1
            if not (v1 < v2):
                report_violation(ctx, "oracle", "encode(x) < encode(y) bytewise but not x < y (or two values share an encoding)",
                                 {"commands": [c1, c2], "implementation": [e1, e2]}, "codec-order-%s" % kind)
                break
    return {"codec_calls_checked_by_order_oracle": n, "adjacent_pairs_checked": pairs,
            "types": sorted("%s/%s" % k for k in per)}

# ------------------------------------------------------------------ C10: node table oracle

def extra_node(ctx):
    from vprops import report_violation
    probes = 0
    for f, cmds, out in _outs(ctx):
        present = {}
        for i, c in enumerate(cmds):
            t = c.split()
            if i >= len(out):
                break
            if t[0] == "NNEW":
                present[t[1]] = {}
            elif t[0] == "NADD":
                present[t[1]][int(t[2], 16)] = int(t[3])
            elif t[0] == "NDEL":
                present[t[1]].pop(int(t[2], 16), None)
            elif t[0] == "NFIND":
                probes += 1
                want = present[t[1]].get(int(t[2], 16))
                exp = "NFIND none" if want is None else "NFIND %d" % want
                if out[i] != exp:
                    report_violation(ctx, "oracle", "probe finds the wrong child", {"commands": history_of(cmds, i), "implementation": out[i], "required": exp},
                                     "node-find-%s-%d" % (os.path.basename(f)[:-5], i))
            elif t[0] == "NPROBE":
                probes += 256
                exp = "NPROBE" + "".join(" %x:%d" % (b, present[t[1]][b]) for b in sorted(present[t[1]]))
                if out[i] != exp:
                    report_violation(ctx, "oracle", "probing all 256 bytes does not give exactly the registered children",
                                     {"commands": history_of(cmds, i), "implementation": out[i], "required": exp}, "node-probe-%s-%d" % (os.path.basename(f)[:-5], i))
            elif t[0] == "NENUM":
                exp = "NENUM" + "".join(" %d" % present[t[1]][b] for b in sorted(present[t[1]]))
                if out[i] != exp:
                    report_violation(ctx, "oracle", "children do not enumerate in ascending unsigned byte order",
                                     {"commands": history_of(cmds, i), "implementation": out[i], "required": exp}, "node-enum-%s-%d" % (os.path.basename(f)[:-5], i))
            elif t[0] in ("N4S", "N4I"):
                probes += 1
                keys, b = int(t[1], 16), int(t[2], 16)
                lanes = [(keys >> (8 * j)) & 0xff for j in range(4)]
                if t[0] == "N4S":
                    r = next((j for j in range(4) if lanes[j] == b), -1)
                else:
                    r = next((j for j in range(4) if lanes[j] >= b), -1)
                if out[i] != "%s %d" % (t[0], r):
                    report_violation(ctx, "oracle", "SWAR routine differs from the scalar scan", {"commands": [c], "implementation": out[i], "required": "%s %d" % (t[0], r)},
                                     "node4-%d" % i)
            elif t[0] in ("N16S", "N16I"):
                probes += 1
                kb, ln, b = bytes.fromhex(t[1]), int(t[2], 16), int(t[3], 16)
                if t[0] == "N16S":
                    r = next((j for j in range(min(ln, 16)) if kb[j] == b), -1)
                else:
                    r = next((j for j in range(min(ln, 16)) if kb[j] > b), -1)
                if out[i] != "%s %d" % (t[0], r):
                    report_violation(ctx, "oracle", "vector routine differs from the scalar scan over the occupied slots",
                                     {"commands": [c], "implementation": out[i], "required": "%s %d" % (t[0], r)}, "node16-%d" % i)
            if _enough(ctx):
                return {}
    # known finding D11 (model only: arm64 cannot be executed here): it is reported as long as its refutation
    # theorem (Proofs/IsaFacts.v: arm64_search16_ignores_len_refuted, about the REGENERATED arm64 program) compiles
    vo = os.path.join(COQ, "Proofs", "IsaFacts.vo")
    src = os.path.join(COQ, "Proofs", "IsaFacts.v")
    refuted = os.path.exists(vo) and os.path.getmtime(vo) >= os.path.getmtime(src) - 1 and \
        "arm64_search16_ignores_len_refuted" in open(src).read()
    for k in ctx.known:
        if k.get("property") == "C10" and k.get("key") == "arm64-search16-ignores-len":
            if refuted:
                ctx.known_hits.append(k)
            else:
                ctx.stats.setdefault("known_findings_no_longer_failing", []).append("D11")
    return {"probes_checked_by_scalar_oracle": probes, "arm64_refutation_theorem_compiled": refuted}

# ------------------------------------------------------------------ C11: well-formedness oracle on the implementation's dumps

def extra_shape(ctx):
    from vprops import report_violation
    n = 0
    classes = {}
    # the closure files reach every state along each of its incoming transitions: a dump text is checked once
    # (leaf values erased: the well-formedness oracle does not look at them)
    memo = {}
    leaf_val = re.compile(r',-?\d+\)')
    for f, cmds, out in _outs(ctx):
        for i, c in enumerate(cmds):
            if not c.startswith("DUMP ") or i >= len(out):
                continue
            n += 1
            mk = leaf_val.sub(',)', out[i])
            r = memo.get(mk)
            if r is None:
                errs, known = vshape.well_formed(out[i])
                r = memo[mk] = (list(errs), known, re.findall(r'(?<![0-9a-f])(4|16|48|256)\(', out[i]))
            errs, known = list(r[0]), r[1]
            for m in r[2]:
                classes[m] = classes.get(m, 0) + 1
            if known:
                for k in ctx.known:
                    if k.get("property") == "C11" and k.get("key") == "fanout-256-wraps":
                        ctx.known_hits.append(k)
                        break
                else:
                    errs.append("node256 with 256 children records fan-out 0")
            if errs:
                report_violation(ctx, "oracle", "index not well-formed after an operation: " + "; ".join(errs[:3]),
                                 {"commands": history_of(cmds, i), "implementation": out[i][:2000]}, "wf-%s-%d" % (os.path.basename(f)[:-5], i))
                if _enough(ctx):
                    return {}
    return {"dumps_checked_by_wellformedness_oracle": n, "node_classes_seen_in_dumps": classes}

# ------------------------------------------------------------------ C12: pool audit (diagnostic only)

def extra_pool(ctx):
    rc, out = sh([ctx.build.harness, "pools"], 60)
    return {"pool_audit_diagnostic": out.strip()[-200:]}

def extra_gc(ctx):
    import vruntime
    rc, out = sh([ctx.build.harness, "layouts"], 60)
    res = {"layout_lines": len(out.strip().split("\n"))}
    res.update(vruntime.gcstress(ctx))     # value types x key kinds under GOGC=1 + forced collections on the checkptr build
    return res

# ------------------------------------------------------------------ C19

def run_genout(ctx):
    from vprops import finish, proof_leg, report_violation
    g = {}
    p = os.path.join(ctx.build.dir, "genout.json")
    if os.path.exists(p):
        g = json.load(open(p))
    else:
        report_violation(ctx, "oracle", "generator could not be run: " + ctx.build.status["log"].get("genout", ""), {}, "genout")
    if g.get("first_diff") or not g.get("gen_ok", False):
        report_violation(ctx, "oracle", "trees.go is not the formatted output of the generator",
                         {"first_difference": g.get("first_diff"), "generator_ran": g.get("gen_ok")}, "genout")
    proof = proof_leg(ctx)
    cov = {"programs": max(0, g.get("checked_parts", 1) - 1), "disagreements_checked": g.get("checked_parts", 0),
           "samples": [{"instantiation_chunks_generated": g.get("generated_parts"), "checked_in": g.get("checked_parts"), "first_difference": g.get("first_diff")}],
           "exhaustive": True,
           "explanation": "generator run on a scratch copy + gofmt; both texts regenerated into Gen/GenOut.v; Properties/C19.v proves their equality by kernel evaluation"}
    return finish(ctx, cov, ["text/template, gofmt and the Go toolchain are trusted"], proof)

def run_race(ctx):
    from vprops import finish, proof_leg
    import vruntime
    return vruntime.run_race(ctx)

def run_heap(ctx):
    import vruntime
    return vruntime.run_heap(ctx)
