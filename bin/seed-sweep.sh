#!/bin/bash
# seed-sweep.sh <seed> [<seed> ...] : runs every quick check with other seeds on an ISOLATED copy of /verif and a
# scratch worktree of /repo@HEAD (false-alarm hunting; development aid, nothing is written to /verif or /repo).
T=$(mktemp -d /tmp/vsweep-XXXXXX)
cleanup() { git -C /repo worktree remove --force "$T/repo" >/dev/null 2>&1; rm -rf "$T"; }
trap cleanup EXIT
git -C /repo worktree add -q --detach "$T/repo" HEAD || exit 2
git -C /verif archive HEAD | (mkdir -p "$T/verif" && tar -x -C "$T/verif")
rsync -a --include='*/' --include='*.vo' --include='*.glob' --include='.*.aux' --include='Makefile*' --include='.Makefile.d' --exclude='*' /verif/coq/ "$T/verif/coq/"
mkdir -p "$T/verif/replays" "$T/verif/build"
sed -i "s#=> /repo#=> $T/repo#" "$T/verif/go/go.mod"
export VERIF_ROOT="$T/verif" VERIF_REPO="$T/repo" GOFLAGS=-mod=mod GOPROXY=off
"$T/verif/bin/vcheck" C19 --tier quick >/dev/null 2>&1   # shared build first
for s in "$@"; do
  for p in C01 C02 C03 C04 C05 C06 C07 C08 C09 C10 C11 C12 C13 C14 C15 C16 C17 C18 C19; do echo "$s $p"; done
done | xargs -P 4 -L1 sh -c 'out=$(VERIF_SEED=$0 "$VERIF_ROOT/bin/vcheck" $1 --tier quick 2>&1 | grep -v "^WARNING" | grep -v "^KNOWN-FINDING" | tail -1); echo "seed=$0 $1: $(echo "$out" | cut -c1-150)"' 
