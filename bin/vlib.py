#!/usr/bin/env python3
"""Shared machinery of bin/vcheck: building from /repo's working tree, running the
implementation harness and the extracted Coq model on the same command files,
comparing, shrinking, known findings, evidence."""
import fcntl, glob, hashlib, json, os, re, shutil, subprocess, sys, time
from concurrent.futures import ThreadPoolExecutor

ROOT = os.environ.get("VERIF_ROOT", "/verif")    # overridable only for mutant evaluation in a scratch copy
REPO = os.environ.get("VERIF_REPO", "/repo")
BUILD = os.path.join(ROOT, "build")
COQ = os.path.join(ROOT, "coq")
GO_TOOLCHAIN = "/root/go/pkg/mod/golang.org/toolchain@v0.0.1-go1.24.0.linux-amd64/bin/go"

def go_env(extra=None):
    env = dict(os.environ)
    env.update({"GOFLAGS": "-mod=mod", "GOPROXY": "off", "GOSUMDB": "off", "CGO_ENABLED": env.get("CGO_ENABLED", "1")})
    if os.path.exists(GO_TOOLCHAIN):
        env["GOTOOLCHAIN"] = "local"
    else:
        env.pop("GOSUMDB", None)
        env["GOTOOLCHAIN"] = "auto"
    if extra:
        env.update(extra)
    return env

def go_bin():
    return GO_TOOLCHAIN if os.path.exists(GO_TOOLCHAIN) else "go"

def sh(cmd, timeout=600, cwd=None, env=None, inp=None):
    """run under a timeout; returns (rc, stdout+stderr)"""
    try:
        p = subprocess.run(cmd, cwd=cwd, env=env, input=inp, stdout=subprocess.PIPE, stderr=subprocess.STDOUT,
                           timeout=timeout, text=True, shell=isinstance(cmd, str))
        return p.returncode, p.stdout
    except subprocess.TimeoutExpired as e:
        return 124, (e.stdout or "") + "\nTIMEOUT after %ds: %s" % (timeout, cmd)

# ---------------------------------------------------------------- build

def repo_hash():
    h = hashlib.sha256()
    files = []
    for dp, dn, fn in os.walk(REPO):
        dn[:] = [d for d in dn if d not in (".git", "testdata", "bench")]
        for f in fn:
            if f.endswith((".go", ".s", ".tmpl", ".mod", ".sum")) and not f.endswith("_test.go"):
                files.append(os.path.join(dp, f))
    for f in sorted(files):
        h.update(f.encode()); h.update(b"\0")
        with open(f, "rb") as fh:
            h.update(fh.read())
        h.update(b"\0")
    # the framework itself is part of the key, so that editing it rebuilds
    for pat in ("go/cmd/*/*.go", "ocaml/driver.ml", "ocaml/drivermain.ml", "ocaml/genhook.ml", "coq/_CoqProject", "coq/*/*.v"):
        for f in sorted(glob.glob(os.path.join(ROOT, pat))):
            if "/Gen/" in f:
                continue
            h.update(f.encode())
            with open(f, "rb") as fh:
                h.update(fh.read())
    return h.hexdigest()[:20]

class Build:
    def __init__(self, d, status):
        self.dir = d
        self.status = status
        self.harness = os.path.join(d, "harness")
        self.harness386 = os.path.join(d, "harness386")
        self.harness_race = os.path.join(d, "harness_race")
        self.harness_checkptr = os.path.join(d, "harness_checkptr")
        self.driver = os.path.join(d, "driver")
        self.gendriver = os.path.join(d, "gendriver")   # may not exist (see ensure_build)

def _coq_failed_file(log):
    """the first file that failed to compile (with make -k there may be several: see coq_failed_all)"""
    m = re.findall(r'File "\./([^"]+)", line (\d+)', log)
    return m[0] if m else None

def _coq_failed_all(log):
    out, seen = [], set()
    for f, l in re.findall(r'File "\./([^"]+)", line (\d+)', log):
        if f not in seen:
            seen.add(f)
            out.append([f, l])
    return out

def ensure_build(need386=False, need_race=False, need_checkptr=False, verbose=True):
    os.makedirs(BUILD, exist_ok=True)
    lock = open(os.path.join(BUILD, "lock"), "w")
    fcntl.flock(lock, fcntl.LOCK_EX)
    try:
        h = repo_hash()
        d = os.path.join(BUILD, "t-" + h)
        stf = os.path.join(d, "status.json")
        status = None
        if os.path.exists(stf):
            status = json.load(open(stf))
        if status is None:
            t0 = time.time()
            os.makedirs(d, exist_ok=True)
            status = {"hash": h, "go_ok": False, "coq_ok": False, "coq_failed": None, "log": {}}
            env = go_env()
            gocwd = os.path.join(ROOT, "go")
            shutil.copy(os.path.join(REPO, "go.sum"), os.path.join(gocwd, "go.sum"))
            rc, out = sh([go_bin(), "build", "-tags", "verif", "-o", os.path.join(d, "harness"), "./cmd/harness"], 600, gocwd, env)
            status["log"]["go_build"] = out[-4000:]
            rc2, out2 = sh([go_bin(), "build", "-o", os.path.join(d, "srcfacts"), "./cmd/srcfacts"], 600, gocwd, env)
            status["go_ok"] = (rc == 0 and rc2 == 0)
            if rc2 == 0:
                rc3, out3 = sh([os.path.join(d, "srcfacts"), REPO, os.path.join(COQ, "Gen")], 120)
                status["log"]["srcfacts"] = out3[-2000:]
                status["srcfacts_ok"] = (rc3 == 0)
            # C18: struct layouts of the compiled types (reflection hook) as a regenerated Coq table
            try:
                gen_layouts(d)
            except Exception as e:  # noqa
                status["log"]["layouts"] = "layouts failed: %r" % (e,)
            # C19: generator output vs checked-in file, as a Coq obligation
            try:
                gen_genout(d)
            except Exception as e:  # noqa
                status["log"]["genout"] = "genout failed: %r" % (e,)
            # Coq: full .vo build (never -vos)
            if not os.path.exists(os.path.join(COQ, "Makefile")):
                sh("coq_makefile -f _CoqProject -o Makefile", 60, COQ)
            rc, out = sh("make -k -j16 2>&1", 3000, COQ)
            status["coq_ok"] = (rc == 0)
            status["log"]["make"] = out[-6000:]
            if rc != 0:
                status["coq_failed"] = _coq_failed_file(out)
                status["coq_failed_all"] = _coq_failed_all(out)
            # Print Assumptions of every property file, recorded once per build (Properties/Cnn.v only hold
            # `Theorem .. exact ..` + `Print Assumptions`, so recompiling them is cheap)
            adir = os.path.join(d, "assumptions")
            os.makedirs(adir, exist_ok=True)
            def _pa(f):
                rc_, out_ = sh("coqc -Q . GoArt %s 2>&1" % f, 900, COQ)
                open(os.path.join(adir, os.path.basename(f)[:-2] + ".txt"), "w").write("rc=%d\n%s" % (rc_, out_))
            with ThreadPoolExecutor(max_workers=16) as ex:
                list(ex.map(_pa, sorted(os.path.relpath(x, COQ) for x in glob.glob(os.path.join(COQ, "Properties", "C*.v")))))
            # extraction + driver (the model files compile even when a proof breaks)
            oc = os.path.join(ROOT, "ocaml")
            rc, out = sh("coqc -Q ../coq GoArt ../coq/Extract/Extract.v 2>&1 && ocamlfind ocamlopt -w -a model.mli model.ml driver.ml drivermain.ml -o %s 2>&1"
                         % os.path.join(d, "driver"), 900, oc)
            status["driver_ok"] = (rc == 0)
            status["log"]["driver"] = out[-3000:]
            # optional: the same driver with the REGENERATED program beside the model (Extract/ExtractGen.v imports the
            # proof files that define the run drivers, so it exists only when the whole development compiles)
            og = os.path.join(oc, "gen")
            os.makedirs(og, exist_ok=True)
            rc, out = sh("coqc -Q ../../coq GoArt ../../coq/Extract/ExtractGen.v 2>&1 && sed 's/^open Model$/open Genmodel/' ../driver.ml > driver.ml && "
                         "cp ../genhook.ml ../drivermain.ml . && ocamlfind ocamlopt -w -a genmodel.mli genmodel.ml driver.ml genhook.ml drivermain.ml -o %s 2>&1"
                         % os.path.join(d, "gendriver"), 900, og)
            status["gendriver_ok"] = (rc == 0)
            status["log"]["gendriver"] = out[-1500:]
            status["build_s"] = round(time.time() - t0, 1)
            json.dump(status, open(stf, "w"), indent=1)
            # keep the three most recent build directories
            ds = sorted(glob.glob(os.path.join(BUILD, "t-*")), key=os.path.getmtime)
            for old in ds[:-3]:
                shutil.rmtree(old, ignore_errors=True)
        b = Build(d, status)
        env = go_env()
        gocwd = os.path.join(ROOT, "go")
        if need386 and not os.path.exists(b.harness386):
            sh([go_bin(), "build", "-tags", "verif", "-o", b.harness386, "./cmd/harness"], 600, gocwd, go_env({"GOARCH": "386", "CGO_ENABLED": "0"}))
        if need_race and not os.path.exists(b.harness_race):
            sh([go_bin(), "build", "-race", "-tags", "verif", "-o", b.harness_race, "./cmd/harness"], 900, gocwd, env)
        if need_checkptr and not os.path.exists(b.harness_checkptr):
            sh([go_bin(), "build", "-gcflags=all=-d=checkptr", "-tags", "verif", "-o", b.harness_checkptr, "./cmd/harness"], 900, gocwd, env)
        return b
    finally:
        fcntl.flock(lock, fcntl.LOCK_UN)
        lock.close()

def gen_layouts(bdir):
    """C18: `harness layouts` (reflect on the compiled node / leaf types) -> Gen/Layouts.v.
    On any failure the tables are empty (the obligations over them then fail, they are not vacuous)."""
    types, fields = [], []
    try:
        rc, out = sh([os.path.join(bdir, "harness"), "layouts"], 60)
        if rc == 0:
            for l in out.splitlines():
                m = re.match(r'^type (\S+) size (\d+) align (\d+)$', l)
                if m:
                    types.append('("%s", %s%%N, %s%%N)' % m.groups())
                m = re.match(r'^field (\S+) (\S+) (\S+) (\d+) (\d+)$', l)
                if m:
                    fields.append('("%s", "%s", "%s", %s%%N, %s%%N)' % m.groups())
    except Exception:  # noqa
        types, fields = [], []
    content = "\n".join([
        '(* REGENERATED on every run from `harness layouts` (reflection on the compiled types) - do not edit. *)',
        'From Coq Require Import List String NArith.', 'Import ListNotations.', 'Open Scope string_scope.', '',
        '(* (type, size, alignment) *)',
        'Definition layout_types : list (string * N * N) :=\n  [' + ";\n   ".join(types) + '].', '',
        '(* (type, field, reflect kind of the field type, offset, size) *)',
        'Definition layout_fields : list (string * string * string * N * N) :=\n  [' + ";\n   ".join(fields) + '].', ''])
    path = os.path.join(COQ, "Gen", "Layouts.v")
    if not os.path.exists(path) or open(path).read() != content:
        open(path, "w").write(content)

def gen_genout(bdir):
    """C19: run the repository's generator on a scratch copy outside /repo and /verif,
    gofmt it, and emit both texts (split per instantiation) as Gen/GenOut.v."""
    import tempfile
    scratch = tempfile.mkdtemp(prefix="goart-gen-")
    try:
        for f in ("go.mod", "go.sum"):
            shutil.copy(os.path.join(REPO, f), scratch)
        shutil.copytree(os.path.join(REPO, "cmd"), os.path.join(scratch, "cmd"))
        rc, out = sh([go_bin(), "run", "cmd/go-art/main.go"], 600, scratch, go_env())
        gen_ok = rc == 0 and os.path.exists(os.path.join(scratch, "trees.go"))
        generated = ""
        if gen_ok:
            gofmt = os.path.join(os.path.dirname(go_bin()), "gofmt") if os.path.exists(GO_TOOLCHAIN) else "gofmt"
            sh([gofmt, "-w", "trees.go"], 120, scratch, go_env())
            generated = open(os.path.join(scratch, "trees.go")).read()
        checked = open(os.path.join(REPO, "trees.go")).read() if os.path.exists(os.path.join(REPO, "trees.go")) else ""
    finally:
        shutil.rmtree(scratch, ignore_errors=True)
    def split(txt):
        # header + one chunk per instantiation, cut at "type xxxLeafNode[V any] struct"
        idx = [m.start() for m in re.finditer(r'^type \w+LeafNode\[V any\] struct', txt, re.M)]
        if not idx:
            return [txt]
        parts = [txt[:idx[0]]]
        for i, s in enumerate(idx):
            parts.append(txt[s:idx[i + 1] if i + 1 < len(idx) else len(txt)])
        return parts
    def coq_lines(txt):
        ls = txt.split("\n")
        return "[" + ";\n    ".join('"%s"' % l.replace('"', '""') for l in ls) + "]"
    g, c = split(generated), split(checked)
    out = ['(* REGENERATED on every run: the output of `go run cmd/go-art/main.go` + gofmt on a scratch',
           '   copy, and the checked-in trees.go, both split at the instantiations. Do not edit. *)',
           'From Coq Require Import List String.', 'Import ListNotations.', 'Open Scope string_scope.', '',
           'Definition generator_ran : bool := %s.' % ("true" if gen_ok else "false"), '']
    out.append("Definition generated : list (list string) :=\n  [" + ";\n   ".join(coq_lines(p) for p in g) + "].\n")
    out.append("Definition checked_in : list (list string) :=\n  [" + ";\n   ".join(coq_lines(p) for p in c) + "].\n")
    content = "\n".join(out)
    path = os.path.join(COQ, "Gen", "GenOut.v")
    if not os.path.exists(path) or open(path).read() != content:
        open(path, "w").write(content)
    json.dump({"generated_parts": len(g), "checked_parts": len(c), "gen_ok": gen_ok,
               "first_diff": first_diff(g, c)}, open(os.path.join(bdir, "genout.json"), "w"))

def first_diff(g, c):
    for i in range(max(len(g), len(c))):
        a = g[i].split("\n") if i < len(g) else []
        b = c[i].split("\n") if i < len(c) else []
        for j in range(max(len(a), len(b))):
            x = a[j] if j < len(a) else None
            y = b[j] if j < len(b) else None
            if x != y:
                return {"part": i, "line": j, "generated": x, "checked_in": y}
    return None

# ---------------------------------------------------------------- Coq cone of a property

def coq_cone(prop_file):
    """transitive .v dependencies of a file inside the development, from coqdep"""
    rc, out = sh("coqdep -f _CoqProject 2>/dev/null", 120, COQ)
    deps = {}
    for line in out.split("\n"):
        if ":" not in line:
            continue
        lhs, rhs = line.split(":", 1)
        tgt = [t for t in lhs.split() if t.endswith(".vo")]
        if not tgt:
            continue
        src = tgt[0][:-1]
        deps[src] = [r[:-1] for r in rhs.split() if r.endswith(".vo") and not r.startswith("/")]
    seen, todo = set(), [prop_file]
    while todo:
        f = todo.pop()
        if f in seen:
            continue
        seen.add(f)
        todo += deps.get(f, [])
    return sorted(seen)

STMT_RE = re.compile(r'^\s*(?:Local\s+|Global\s+|#\[[^\]]*\]\s*)*(Theorem|Lemma|Corollary|Proposition|Fact|Remark|Example)\s+([A-Za-z0-9_\']+)', re.M)

def proof_status(prop_file, build):
    """obligations = statements in the cone; discharged = those in files whose .vo is
    present and newer than the source, minus Admitted ones."""
    cone = coq_cone(prop_file)
    obligations = discharged = admitted = 0
    stale = []
    forbidden = []
    for f in cone:
        p = os.path.join(COQ, f)
        if not os.path.exists(p):
            continue
        txt = open(p).read()
        n = len(STMT_RE.findall(txt))
        a = len(re.findall(r'\bAdmitted\s*\.', txt)) + len(re.findall(r'\badmit\s*\.', txt))
        for tok in ("Axiom ", "Parameter ", "Conjecture ", "Unset Guard", "bypass_check", "Admit Obligations", "-type-in-type"):
            if re.search(r'(^|\s)' + re.escape(tok), txt):
                forbidden.append(f + ": " + tok.strip())
        obligations += n
        vo = p + "o"
        if os.path.exists(vo) and os.path.getmtime(vo) >= os.path.getmtime(p) - 1:
            discharged += n - a
        else:
            stale.append(f)
        admitted += a
    return {"cone": cone, "obligations": obligations, "discharged": discharged, "admitted": admitted,
            "stale": stale, "forbidden": forbidden}

def print_assumptions(prop_file, build=None):
    """the Print Assumptions output recorded when the build compiled Properties/Cnn.v"""
    if build is not None:
        p = os.path.join(build.dir, "assumptions", os.path.basename(prop_file)[:-2] + ".txt")
        if os.path.exists(p):
            txt = open(p).read()
            m = re.match(r'rc=(\d+)\n', txt)
            return (int(m.group(1)) if m else 1), txt[m.end():] if m else txt
    rc, out = sh("coqc -Q . GoArt %s 2>&1" % prop_file, 900, COQ)
    return rc, out

# ---------------------------------------------------------------- running command files

def read_cmds(path):
    return [l for l in open(path).read().split("\n") if l.strip() and not l.startswith("#")]

def run_pair(build, cmds_path, opts=(), harness=None, want_model=True, timeout=900, coq_terms=False, driver=None):
    """run implementation (+oracle, +side checks) and the extracted model on one command file"""
    base = cmds_path[:-5]
    h = harness or build.harness
    rc, out = sh([h, "exec", *opts, cmds_path, base + ".out", base + ".exp", base + ".side"], timeout)
    res = {"cmds": cmds_path, "impl_rc": rc, "impl_log": out[-2000:]}
    if want_model:
        rc2, out2 = sh("ulimit -v 8000000; %s %s %s %s" % (driver or build.driver, cmds_path, base + ".mod", (base + "_cases.v") if coq_terms else ""), timeout)
        res["model_rc"] = rc2
        res["model_log"] = out2[-2000:]
    return res

def load_lines(path):
    if not os.path.exists(path):
        return []
    return open(path).read().split("\n")

def tag_of(line):
    return line.split(" ", 1)[0] if line else ""

def compare(cmds_path, tags_corr, tags_oracle, project=None):
    """returns (stats, corr_mismatches, oracle_mismatches, side)"""
    base = cmds_path[:-5]
    cmds = read_cmds(cmds_path)
    out, mod, exp = load_lines(base + ".out"), load_lines(base + ".mod"), load_lines(base + ".exp")
    side = [l for l in load_lines(base + ".side") if l]
    corr, orc = [], []
    n_c = n_o = 0
    for i, c in enumerate(cmds):
        t = tag_of(c)
        o = out[i] if i < len(out) else "<missing>"
        if tags_corr is not None and (t in tags_corr):
            m = mod[i] if i < len(mod) else "<missing>"
            n_c += 1
            a, b = (project(o), project(m)) if project else (o, m)
            if a != b:
                corr.append((i, c, o, m))
        if tags_oracle is not None and (t in tags_oracle):
            e = exp[i] if i < len(exp) else "*"
            if e != "*":
                n_o += 1
                if e != o:
                    orc.append((i, c, o, e))
    return {"commands": len(cmds), "compared_model": n_c, "compared_oracle": n_o}, corr, orc, side

def history_of(cmds, idx):
    """the commands of the tree (or node) the idx-th command works on, up to idx"""
    toks = cmds[idx].split()
    if len(toks) < 2 or toks[0] in ("ENC", "N4S", "N4I", "N4G", "N4P", "N4L", "N4R", "N4C", "N4D", "N16S", "N16I"):
        return [cmds[idx]]
    tid = toks[1]
    return [c for c in cmds[:idx + 1] if len(c.split()) > 1 and c.split()[1] == tid]

def still_fails(build, cmds, mode, workdir, opts=(), harness=None):
    """re-run a command list; does its LAST command still disagree (mode 'oracle': with the
    oracle, 'model': with the model)? returns (bool, impl_line, other_line)"""
    p = os.path.join(workdir, "shrink.cmds")
    open(p, "w").write("\n".join(cmds) + "\n")
    run_pair(build, p, opts, harness, want_model=(mode == "model"), timeout=120)
    out = load_lines(p[:-5] + ".out")
    other = load_lines(p[:-5] + (".exp" if mode == "oracle" else ".mod"))
    i = len(cmds) - 1
    if i >= len(out) or i >= len(other):
        return False, "", ""
    if mode == "oracle" and other[i] == "*":
        return False, out[i], other[i]
    return out[i] != other[i], out[i], other[i]

def valid_history(cmds):
    """shrinking must stay inside the contract of the node handle: NADD of an absent byte, NDEL of a present one"""
    present = set()
    for c in cmds:
        t = c.split()
        if t[0] == "NADD":
            if t[2] in present:
                return False
            present.add(t[2])
        elif t[0] == "NDEL":
            # ... and at least two children stay (with one child left node4.deleteChild replaces the handle's
            # node by that child, which the bare node handle and the raw dump do not model)
            if t[2] not in present or len(present) <= 2:
                return False
            present.discard(t[2])
    return True

def shrink(build, cmds, mode, workdir, opts=(), harness=None, budget=150):
    """greedy delta debugging on the command list (first = NEW/NNEW and last are kept)"""
    fails, a, b = still_fails(build, cmds, mode, workdir, opts, harness)
    if not fails:
        return cmds, a, b, False
    runs = 0
    chunk = max(1, (len(cmds) - 2) // 2)
    while chunk >= 1 and runs < budget:
        i = 1
        progressed = False
        while i < len(cmds) - 1 and runs < budget:
            cand = cmds[:i] + cmds[i + chunk:] if i + chunk < len(cmds) else cmds[:i] + cmds[-1:]
            if len(cand) < 2 or cand[-1] != cmds[-1]:
                cand = cmds[:i] + cmds[-1:]
            if not valid_history(cand):
                i += chunk
                continue
            runs += 1
            f, a2, b2 = still_fails(build, cand, mode, workdir, opts, harness)
            if f:
                cmds, a, b = cand, a2, b2
                progressed = True
            else:
                i += chunk
        if not progressed:
            chunk //= 2
    return cmds, a, b, True

# ---------------------------------------------------------------- known findings

def load_known():
    known, fixed = [], []
    p = os.path.join(ROOT, "KNOWN_FINDINGS.txt")
    if os.path.exists(p):
        for l in open(p):
            l = l.strip()
            if l.startswith("known:"):
                d = dict(re.findall(r'(\w+)=(\S+)', l))
                d["text"] = l
                known.append(d)
            elif l.startswith("fixed:"):
                fixed.append(l)
    return known, fixed

# ---------------------------------------------------------------- evidence

def write_evidence(prop, tier, seed, level, coverage, assumptions, wall, violations):
    os.makedirs(os.path.join(ROOT, "evidence"), exist_ok=True)
    ev = {"property_id": prop, "tier": tier, "seed": int(seed), "level": level, "coverage": coverage,
          "assumptions": assumptions, "wall_s": round(wall, 2), "violations": violations}
    tmp = os.path.join(ROOT, "evidence", prop + ".json.tmp")
    json.dump(ev, open(tmp, "w"), indent=1)
    os.replace(tmp, os.path.join(ROOT, "evidence", prop + ".json"))

def manifest_level(prop):
    try:
        m = json.load(open(os.path.join(ROOT, "MANIFEST.json")))
        for c in m["checks"]:
            if c["property_id"] == prop:
                return c["level_claimed"]["category"]
    except Exception:
        pass
    return "other"
