#!/usr/bin/env python3
"""runtime legs (race detector, heap, GC stress) — filled in later"""
def run_race(ctx):
    raise SystemExit("C16 runtime leg not implemented yet")
def run_heap(ctx):
    raise SystemExit("C17 runtime leg not implemented yet")
