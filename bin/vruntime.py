#!/usr/bin/env python3
"""Runtime legs of C16 (race detector), C17 (live heap against history) and C18 (GC stress under
checkptr).  These three properties are about the Go runtime; the Coq side carries only the static
part (see DESIGN.md section 5), so what is measured here is reported at level "other"."""
import json, os, time
from vlib import *

def _last_json(out):
    for line in reversed(out.strip().split("\n")):
        line = line.strip()
        if line.startswith("{") and line.endswith("}"):
            try:
                return json.loads(line)
            except Exception:
                continue
    return None

def _tail(out, n=3000):
    return out[-n:]

def _diag(out):
    """the lines of a Go runtime report that say what happened (a fatal error's goroutine dump hides them in the tail)"""
    keys = ("fatal error:", "checkptr", "panic:", "WARNING: DATA RACE", "unexpected fault address", "SIGSEGV", "found bad pointer", "TIMEOUT after")
    return [l.strip()[:300] for l in out.split("\n") if any(k in l for k in keys)][:6]

RUNTIME_ASSUMPTIONS = [
    "the Go runtime (scheduler, collector, allocator, sync.Pool) and the race detector / checkptr instrumentation are trusted as shipped with the toolchain",
    "schedules, collector timings and heap numbers are explored / measured, not quantified over: this leg can refute, never prove",
    "see DESIGN.md section 8 for the trusted base",
]

# ------------------------------------------------------------------ C16

def run_race(ctx):
    from vprops import finish, proof_leg, report_violation, corpus_replays
    corpus_replays(ctx)
    h = ctx.build.harness_race
    G = 8
    if ctx.tier == "quick":
        plan = [(1, 160), (4, 160)]
    else:
        plan = [(p, 600) for p in (1, 2, 4, 16)] + [(p, 250) for p in (1, 2, 4, 16)]
    runs = []
    nontrivial, samples = set(), []
    ops = mism = histories = readers = distinct = 0
    if not os.path.exists(h):
        report_violation(ctx, "crash", "the -race build of the harness is missing (go build -race failed)", {"harness": h}, "race-build")
        plan = []
    for i, (procs, nops) in enumerate(plan):
        seed = ctx.seed * 1000 + i
        cmd = [h, "race", str(seed), str(G), str(nops)]
        envx = {"GOMAXPROCS": str(procs), "GORACE": "halt_on_error=1 exitcode=66"}
        env = dict(os.environ)
        env.update(envx)
        t0 = time.time()
        rc, out = sh(cmd, 900 if ctx.tier == "quick" else 3000, env=env)
        js = _last_json(out) if rc in (0, 1) else None
        run = {"gomaxprocs": procs, "seed": seed, "nops": nops, "rc": rc, "wall_s": round(time.time() - t0, 1)}
        payload = {"command_line": " ".join(cmd), "env": envx, "exit_code": rc, "diagnostic_lines": _diag(out), "output_head": out[:3000], "output_tail": _tail(out, 1500)}
        if rc == 66 or "DATA RACE" in out:
            where = [l.strip() for l in out.split("\n") if l.strip().startswith(("github.com/Clement-Jean/go-art", "sync.(*Pool)")) or (REPO.rstrip("/") + "/") in l][:8]
            payload["race_frames_in_library"] = where
            report_violation(ctx, "oracle", "the race detector reports a data race (GOMAXPROCS=%d): %s" % (procs, "; ".join(where[:3])), payload, "race-p%d-%d" % (procs, i))
        elif js is None:
            report_violation(ctx, "crash", "harness race did not complete (exit %d)" % rc, payload, "race-crash-p%d-%d" % (procs, i))
        elif rc != 0 or js.get("partA_mismatches", 0) or js.get("partB_mismatches", 0) or js.get("partC_mismatches", 0) or js.get("partD_mismatches", 0):
            payload["report"] = {k: v for k, v in js.items() if k != "nontrivial_hashes"}
            report_violation(ctx, "oracle", "a goroutine observed a result that differs from the sequential execution (GOMAXPROCS=%d): %s"
                             % (procs, js.get("first_mismatch", "")[:400]), payload, "race-mismatch-p%d-%d" % (procs, i))
        if js:
            ops += js.get("partA_ops", 0) + js.get("partB_ops", 0) + js.get("partC_ops", 0) + js.get("partD_ops", 0)
            mism += js.get("partA_mismatches", 0) + js.get("partB_mismatches", 0)
            histories += js.get("partA_histories", 0)
            readers += js.get("partB_readers", 0) * js.get("partB_trees", 0)
            distinct += js.get("distinct_hashes", 0)
            nontrivial |= set(js.get("nontrivial_hashes", []))
            samples += js.get("samples", [])[1:4]
            run.update({k: js.get(k) for k in ("partA_goroutines", "partA_histories", "partA_histories_with_wide_nodes", "partA_ops", "partA_mismatches",
                                               "partB_trees", "partB_readers", "partB_ops", "partB_mismatches", "partB_tree_sizes", "partC_goroutines", "partC_ops", "partC_mismatches", "partD_ops", "partD_mismatches", "yields", "panics")})
            run["kinds_partA"] = len(js.get("partA_kinds", []))
        runs.append(run)
        if len(ctx.violations) >= 3:
            break
    proof = proof_leg(ctx)
    cov = {
        "evaluations": ops,
        "distinct_nontrivial": len(nontrivial),
        "rule": "each run: harness_race race <seed> 8 <nops> under GORACE=halt_on_error=1 with the listed GOMAXPROCS. Part A: 8 goroutines x 3 generated histories "
                "(gen.history / gen.fanout, profile full, kinds cycling through all 22 instantiations) on private trees, released together from a barrier, "
                "runtime.Gosched at a third of the commands, every output line compared with the property oracle. Part B: 9 shared trees (byte-string, unsigned, "
                "signed, float, compound; 300-500 keys) each read by 8 goroutines running their own permutation of a read-only command list (S/MIN/MAX/SIZE/ALL/BWD/"
                "TOPK/BOTK/RNG/PFX with early stops and re-iteration), compared with the sequential answers. evaluations = commands executed; distinct_nontrivial = "
                "histories and reader lists that are distinct by the SHA-1 of their command text AND whose tree showed a node of class 16/48/256 in a dump.",
        "samples": samples[:6] or [{"note": "no run completed"}],
        "explanation": "Runtime leg of C16: exploration of schedules under the race detector (happens-before analysis of every access the executed schedules perform) "
                       "plus comparison of every goroutine's results with a sequential reference. The static part (sole shared mutable package-level state is the "
                       "sync.Pool array; query paths do not write) belongs to Properties/C16.v when present (see proof.*).",
        "exhaustive": False,
        "runs": runs,
        "goroutine_histories": histories,
        "reader_lists": readers,
        "distinct_command_lists": distinct,
        "mismatches": mism,
        "gomaxprocs_settings": [p for p, _ in plan],
    }
    cov.update(ctx.stats)
    return finish(ctx, cov, RUNTIME_ASSUMPTIONS, proof)

# ------------------------------------------------------------------ C17

HEAP_BYTES_PER_OP = 8.0          # a leak of one leaf per operation is >= 32 B/op
HEAP_EMPTY_RETAINED = 64 * 1024

def heap_excesses(js):
    """which measured numbers exceed the thresholds: list of (kind, what, value, limit)"""
    bad = []
    for k in js.get("kinds", []):
        for what in ("query_bytes_per_op", "overwrite_bytes_per_op", "churn_bytes_per_op", "worst_single_method_bytes_per_call"):
            if k.get(what, 0) > HEAP_BYTES_PER_OP:
                bad.append((k["kind"], what + ((" (" + k.get("worst_single_method", "") + ")") if what.startswith("worst") else ""), k[what], HEAP_BYTES_PER_OP))
        if k.get("empty_after_deletes_bytes", 0) > HEAP_EMPTY_RETAINED:
            bad.append((k["kind"], "empty_after_deletes_bytes", k["empty_after_deletes_bytes"], HEAP_EMPTY_RETAINED))
        if not k.get("size_ok", True):
            bad.append((k["kind"], "size_ok", False, True))
        ln = k.get("collation_buf_len_after_queries", -1)
        lim = max(1024, 8 * k.get("longest_sort_key", 0))
        if ln > lim:
            bad.append((k["kind"], "collation_buf_len_after_queries", ln, lim))
    for b in js.get("bulk", []):
        # what stays after a large dense tree was emptied must not depend on its peak (pooled nodes are the collector's to reclaim)
        if b.get("retained_after_deleting_everything", 0) > HEAP_BULK_RETAINED:
            bad.append((b["kind"], "bulk: retained after deleting %d keys (peak %d B)" % (b.get("keys", 0), b.get("peak_bytes", 0)),
                        b["retained_after_deleting_everything"], HEAP_BULK_RETAINED))
    for c in js.get("cross_tree", []):
        # small trees that took over the nodes a big tree released keep alive what THEY store (a few hundred bytes each)
        if c.get("retained_by_the_small_trees_after_the_big_tree_is_gone", 0) > HEAP_CROSS_RETAINED:
            bad.append(("alpha/string", "cross-tree: retained by %d small trees after a tree with %d-byte values (%d B) is gone"
                        % (c.get("groups", 0), c.get("value_bytes", 0), c.get("big_tree_bytes", 0)),
                        c["retained_by_the_small_trees_after_the_big_tree_is_gone"], HEAP_CROSS_RETAINED))
    for b in js.get("big_values", []):
        # large values: what stays beyond the remaining keys' own values, and after deleting everything, is a few KiB of nodes
        for what in ("excess_after_deleting_some_bytes", "retained_after_deleting_everything"):
            if b.get(what, 0) > HEAP_BIG_EXCESS:
                bad.append(("alpha/string", "big values (%d keys of %d B, every iterator run once, %d keys left): %s"
                            % (b.get("keys", 0), b.get("value_bytes", 0), b.get("remaining_keys", 0), what), b[what], HEAP_BIG_EXCESS))
    return bad

HEAP_BIG_EXCESS = 256 * 1024
HEAP_BULK_RETAINED = 512 * 1024
HEAP_CROSS_RETAINED = 512 * 1024

def run_heap(ctx):
    from vprops import finish, proof_leg, report_violation, corpus_replays
    corpus_replays(ctx)        # corpus/D9-* if present (none is committed: the defect is not visible in a command file's outputs)
    N = 100000 if ctx.tier == "quick" else 5000000
    runs, samples = [], []
    ops = 0
    kinds_ok = set()
    seeds = [ctx.seed] if ctx.tier == "quick" else [ctx.seed, ctx.seed + 1]
    for seed in seeds:
        cmd = [ctx.build.harness, "heap", str(seed), str(N), "200"]
        t0 = time.time()
        rc, out = sh(cmd, 3000)
        js = _last_json(out)
        if rc != 0 or js is None:
            report_violation(ctx, "crash", "harness heap did not complete (exit %d): %s" % (rc, "; ".join(_diag(out)[:2])),
                             {"command_line": " ".join(cmd), "exit_code": rc, "diagnostic_lines": _diag(out), "output_head": out[:3000], "output_tail": _tail(out, 1500)},
                             "heap-crash-%d" % seed)
            continue
        bad = heap_excesses(js)
        for kind in sorted(set(b[0] for b in bad))[:4]:
            mine = [b for b in bad if b[0] == kind]
            report_violation(ctx, "oracle", "%s tree of %d keys, %d operations per phase: %s"
                             % (kind, js["kinds"][0].get("keys", 0), N, "; ".join("%s = %s exceeds %s" % (w, v, l) for (_, w, v, l) in mine)),
                             {"command_line": " ".join(cmd), "exceeded": [{"kind": kind, "number": w, "value": v, "limit": l} for (_, w, v, l) in mine],
                              "measurement_line": json.dumps(js), "measurement": [k for k in js["kinds"] if k["kind"] == kind]},
                             "heap-%s-%d" % ("".join(c if c.isalnum() else "_" for c in kind)[:30], seed))
        for k in js["kinds"]:
            ops += 3 * k["n"] + 2 * k["keys"]
            if not [b for b in bad if b[0] == k["kind"]]:
                kinds_ok.add((seed, k["kind"]))
        runs.append({"seed": seed, "n": N, "wall_s": round(time.time() - t0, 1), "noise_bytes": js.get("noise_bytes"), "kinds": js["kinds"],
                     "bulk": js.get("bulk"), "cross_tree": js.get("cross_tree"), "big_values": js.get("big_values")})
        samples += [{"kind": k["kind"], "keys": k["keys"], "operations_per_phase": k["n"], "tree_bytes": k["built_bytes"],
                     "bytes_per_op": {"queries": k["query_bytes_per_op"], "overwrites": k["overwrite_bytes_per_op"], "churn": k["churn_bytes_per_op"]},
                     "retained_after_deleting_everything": k["empty_after_deletes_bytes"],
                     "collation_buffer_len": k["collation_buf_len_after_queries"]} for k in js["kinds"][:8]]
    proof = proof_leg(ctx)
    cov = {
        "evaluations": ops,
        "distinct_nontrivial": len(kinds_ok),
        "rule": "harness heap <seed> N 200: per kind (alpha string/bytes, uint64, int32, float64, collation string:root and bytes:de, compound) a pool of 300 generated "
                "keys of which 200 are stored; live heap = runtime.MemStats.HeapAlloc after two forced collections, taken before the tree exists, after the build, after N "
                "queries (Search present/absent/partial, Minimum/Maximum, every 64th an iteration/TopK/BottomK/Range/Prefix), after N overwrites, after N delete+insert "
                "rounds at constant size, and after deleting every key; one query method at a time (incl. N/2 Search/Delete of keys never asked about before: what a tree "
                "remembers per distinct queried key grows only there); a bulk build-and-empty of 120000 / 60000 keys; and a cross-tree phase (a tree with 32 KiB values whose node4s collapse "
                "and node16s shrink, a small tree built from the pool right after each release, the big tree dropped: the small trees may retain 0 B). Thresholds: %.0f B/op per phase, %d B retained when empty, collation buffer length <= max(1024, 8 x longest "
                "sort key). evaluations = tree operations performed; distinct_nontrivial = (seed, kind) measurements within all thresholds, each covering 3N operations."
                % (HEAP_BYTES_PER_OP, HEAP_EMPTY_RETAINED),
        "samples": samples[:8] or [{"note": "no run completed"}],
        "explanation": "Runtime leg of C17: the retained heap is measured against the length of the history at bounded content; a per-operation leak of one leaf (>= 32 B) "
                       "or of one sort key (~40 B, defect D9) is 4x or more above the threshold while the numbers measured on a sound tree are below 0.1 B/op. "
                       "The storage account on the model (inner nodes <= leaves - 1, one leaf and key array per stored key, collation buffer bounded) belongs to "
                       "Properties/C17.v when present (see proof.*).",
        "exhaustive": False,
        "runs": runs,
        "thresholds": {"bytes_per_op": HEAP_BYTES_PER_OP, "empty_retained_bytes": HEAP_EMPTY_RETAINED, "bulk_retained_bytes": HEAP_BULK_RETAINED, "cross_tree_retained_bytes": HEAP_CROSS_RETAINED},
    }
    cov.update(ctx.stats)
    return finish(ctx, cov, RUNTIME_ASSUMPTIONS, proof)

# ------------------------------------------------------------------ C18 (added to the generic run by vspecial.extra_gc)

def gcstress(ctx):
    from vprops import report_violation
    h = ctx.build.harness_checkptr
    if not os.path.exists(h):
        report_violation(ctx, "crash", "the checkptr build of the harness is missing (go build -gcflags=all=-d=checkptr failed)", {"harness": h}, "gcstress-build")
        return {}
    nkeys = 200 if ctx.tier == "quick" else 1500
    seeds = [ctx.seed] if ctx.tier == "quick" else [ctx.seed, ctx.seed + 1, ctx.seed + 2]
    res = {"gcstress_runs": []}
    for seed in seeds:
        cmd = [h, "gcstress", str(seed), str(nkeys)]
        env = dict(os.environ)
        env.update({"GOGC": "1"})
        t0 = time.time()
        rc, out = sh(cmd, 3000, env=env)
        js = _last_json(out)
        if rc != 0 or js is None:
            diag = _diag(out)
            fault = bool(diag)
            what = ("runtime fault: " + "; ".join(diag[:2])) if fault else \
                   ("stored key or value differs from the reference: " + js.get("first_mismatch", "") if js else "run did not complete (exit %d)" % rc)
            report_violation(ctx, "oracle" if (js or fault) else "crash",
                             "gcstress (GOGC=1, forced collections, -d=checkptr): %s" % what[:700],
                             {"command_line": " ".join(cmd), "env": {"GOGC": "1"}, "exit_code": rc, "diagnostic_lines": diag, "output_head": out[:3000],
                              "output_tail": _tail(out, 1500), "report": {k: v for k, v in (js or {}).items() if k != "samples"}}, "gcstress-%d" % seed)
        if js:
            r = {k: js.get(k) for k in ("trees", "ops", "equalities_checked", "forced_collections", "mismatches", "keys_per_kind")}
            r.update({"seed": seed, "wall_s": round(time.time() - t0, 1)})
            res["gcstress_runs"].append(r)
            res["gcstress_trees"] = res.get("gcstress_trees", 0) + js.get("trees", 0)
            res["gcstress_ops"] = res.get("gcstress_ops", 0) + js.get("ops", 0)
            res["gcstress_equalities_checked"] = res.get("gcstress_equalities_checked", 0) + js.get("equalities_checked", 0)
            res.setdefault("gcstress_samples", js.get("samples", [])[:4])
    res["gcstress_rule"] = ("harness_checkptr gcstress <seed> <nkeys> with GOGC=1: value types *T, string, []byte, struct{}, [25]uint64 (and, for uint64, alpha []byte and collation keys, values whose pointers sit inside a composite: [2]*T, [2]string, struct{[1]*T;int;[2]string}, any, map[string]*T, *[]string, [1][]byte) x key kinds alpha string, alpha []byte, "
                            "uint64, int16, float64, collation string:de, compound; fill / delete a third / overwrite a third / re-insert with a forced collection every 5 "
                            "operations and inside iterations, then Search of every key and All/Backward/Range(min,max)/Minimum/Maximum compared with an independently "
                            "built reference map by reflect.DeepEqual")
    return res
