#!/usr/bin/env python3
"""Parser of the structural dump and an independent well-formedness oracle for C11
(written from the property text): every branch point has >= 2 children under
distinct ascending bytes equal to the byte every key below has there, each
compressed path equals the bytes all keys below share there, the recorded
fan-out equals the real number of children and fits the size class, reachable
keys = reported size, and the shape (size classes erased) is the canonical
compressed radix tree of the key set."""
import re

class P:
    def __init__(self, s):
        self.s, self.i = s, 0
    def peek(self):
        return self.s[self.i]
    def eat(self, c):
        assert self.s[self.i:self.i + len(c)] == c, (self.s[self.i:self.i + 30], c)
        self.i += len(c)
    def until(self, chars):
        j = self.i
        while self.s[j] not in chars:
            j += 1
        r = self.s[self.i:j]
        self.i = j
        return r

def parse_node(p):
    if p.peek() == "-":
        p.eat("-")
        return None
    if p.peek() == "L":
        p.eat("L(")
        gk = p.until(","); p.eat(",")
        tk = p.until(","); p.eat(",")
        v = p.until(")"); p.eat(")")
        return {"leaf": True, "gk": bytes.fromhex(gk), "tk": bytes.fromhex(tk), "v": v}
    kind = int(p.until("(")); p.eat("(")
    pl = int(p.until(",")); p.eat(",")
    prefix = bytes.fromhex(p.until(",")); p.eat(",")
    ln = int(p.until(",")); p.eat(",")
    raw = None
    if kind != 256:
        raw = p.until(","); p.eat(",")
    p.eat("[")
    ch = []
    if p.peek() != "]":
        while True:
            ch.append(parse_node(p))
            if p.peek() == ";":
                p.eat(";")
            else:
                break
    p.eat("]"); p.eat(")")
    return {"leaf": False, "kind": kind, "pl": pl, "prefix": prefix, "len": ln, "raw": raw, "ch": ch}

def parse_dump(line):
    """'DUMP <size> <tree>' -> (size, tree or None)"""
    t = line.split(" ", 2)
    size = int(t[1])
    if t[2] == "nil":
        return size, None
    return size, parse_node(P(t[2] + "\0"))

def children(n):
    """[(branch byte, child)] in storage order"""
    k = n["kind"]
    if k == 4:
        w = int(n["raw"], 16)
        return [((w >> (8 * i)) & 0xff, c) for i, c in enumerate(n["ch"])]
    if k == 16:
        kb = bytes.fromhex(n["raw"])
        return [(kb[i], c) for i, c in enumerate(n["ch"])]
    if k == 48:
        idx = bytes.fromhex(n["raw"])
        out = []
        for b in range(256):
            if idx[b]:
                out.append((b, n["ch"][idx[b] - 1] if idx[b] - 1 < len(n["ch"]) else None))
        return out
    return [(b, c) for b, c in enumerate(n["ch"]) if c is not None]

def leaves(n):
    if n["leaf"]:
        return [n]
    out = []
    for _, c in children(n):
        if c is not None:
            out += leaves(c)
    return out

CLASS_MIN = {4: 2, 16: 4, 48: 13, 256: 38}   # below these the node would have been shrunk

def check(n, depth, errs, known, path=""):
    """returns the list of transformed keys below n"""
    if n["leaf"]:
        return [n["tk"]]
    ch = children(n)
    bs = [b for b, _ in ch]
    if any(c is None for _, c in ch):
        errs.append("%s: index points at an empty slot" % path)
        ch = [(b, c) for b, c in ch if c is not None]
    if len(ch) < 2:
        errs.append("%s: branch point with %d children" % (path, len(ch)))
    if bs != sorted(set(bs)):
        errs.append("%s: branch bytes not strictly ascending: %s" % (path, bs))
    if n["kind"] == 48:
        used = sum(1 for c in n["ch"] if c is not None)
        if used != len(ch):
            errs.append("%s: node48 has %d occupied slots but %d indexed bytes" % (path, used, len(ch)))
    if n["len"] != len(ch):
        if n["kind"] == 256 and len(ch) == 256 and n["len"] == 0:
            known.append("D10")
        else:
            errs.append("%s: recorded fan-out %d but %d children (class %d)" % (path, n["len"], len(ch), n["kind"]))
    if len(ch) > n["kind"]:
        errs.append("%s: %d children do not fit class %d" % (path, len(ch), n["kind"]))
    keys = []
    d2 = depth + n["pl"]
    for b, c in ch:
        ks = check(c, d2 + 1, errs, known, path + "/%02x" % b)
        for k in ks:
            if len(k) <= d2 or k[d2] != b:
                errs.append("%s: key %s below branch byte %02x does not have it at position %d" % (path, k.hex(), b, d2))
        keys += ks
    if keys:
        k0 = keys[0]
        for k in keys:
            if k[depth:d2] != k0[depth:d2]:
                errs.append("%s: keys below do not share the %d-byte compressed path at %d" % (path, n["pl"], depth))
                break
        m = min(n["pl"], 10)
        if n["prefix"][:m] != k0[depth:depth + m]:
            errs.append("%s: inline path bytes %s differ from the keys' bytes %s" % (path, n["prefix"][:m].hex(), k0[depth:depth + m].hex()))
    return keys

def shape(n):
    """size class, raw storage and values erased"""
    if n["leaf"]:
        return ("L", n["tk"])
    return ("N", n["pl"], tuple((b, shape(c)) for b, c in children(n) if c is not None))

def canon(keys, depth=0):
    """the compressed radix tree of a sorted list of distinct prefix-free keys"""
    if len(keys) == 1:
        return ("L", keys[0])
    a, b = keys[0], keys[-1]
    l = depth
    while l < len(a) and l < len(b) and a[l] == b[l]:
        l += 1
    groups = {}
    for k in keys:
        groups.setdefault(k[l] if l < len(k) else -1, []).append(k)
    return ("N", l - depth, tuple((bb, canon(ks, l + 1)) for bb, ks in sorted(groups.items())))

def well_formed(dump_line):
    """returns (errors, known_findings)"""
    errs, known = [], []
    try:
        size, root = parse_dump(dump_line)
    except Exception as e:  # noqa
        return ["dump does not parse: %r" % (e,)], []
    if root is None:
        if size != 0:
            errs.append("empty tree reports size %d" % size)
        return errs, known
    keys = check(root, 0, errs, known, "root")
    if len(keys) != size:
        errs.append("reachable keys %d but reported size %d" % (len(keys), size))
    if keys != sorted(keys):
        errs.append("leaves are not in ascending key order")
    if len(set(keys)) != len(keys):
        errs.append("a key is stored twice")
    if not errs:
        if shape(root) != canon(sorted(keys)):
            errs.append("shape is not the canonical compressed radix tree of the key set")
    return errs, known
