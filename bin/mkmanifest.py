#!/usr/bin/env python3
"""Writes /verif/MANIFEST.json from the table below (levels are edited here as theorems land)."""
import json, os

ROOT = "/verif"
# property -> (level category, technique, text, note)
P = {
 "C01": ("exploration", "Coq model + extracted-model/implementation correspondence + map oracle (theorems in progress)",
         "Search/Insert/Delete of the hand-written Gallina tree model (Model/Tree.v, Model/Api.v) are run, extracted, on the same histories as the implementation and compared after every call; an independent ideal-map oracle decides the property on the implementation's outputs. The refinement theorem to the ideal map is being proved; until Properties/C01.v exists this is exploration.",
         "generators bound the exploration; model tied to code by correspondence only"),
 "C02": ("exploration", "Coq model + correspondence + sorted-reference oracle (theorems in progress)",
         "All()/Backward() of the stack-machine model (Model/Iter.v) against the implementation and a reference sorted by an independent comparator.", "as C01"),
 "C03": ("exploration", "Coq model + correspondence + filtered-reference oracle (theorems in progress)",
         "Range of the model (rangeScan stack machine with per-entry depth, per-kind bound normalisation) against the implementation and the filtered sorted reference.", "carve-outs of the property are marked unspecified by the oracle"),
 "C04": ("exploration", "Coq model + correspondence + HasPrefix oracle (theorems in progress)",
         "Prefix of the model (single-path lowestCommonParent + filter) against implementation and bytes.HasPrefix reference.", "as C01"),
 "C05": ("exploration", "Coq model + correspondence + sorted-reference oracle (theorems in progress)",
         "Minimum/Maximum/TopK/BottomK of the model against implementation and reference.", "as C01"),
 "C06": ("exploration", "Coq model + correspondence + cardinality oracle (theorems in progress)",
         "size counter of the model (incremented per insertion path as in the code) against Size() and the reference cardinality after every operation.", "as C01"),
 "C07": ("proof", "machine-checked proof in Coq (order isomorphism, injectivity, round trip for all widths/bit patterns) + exhaustive/boundary correspondence of the extracted codecs with keys.go",
         "Properties/C07.v: for every width and every value/bit pattern the model encodings have fixed length, are injective, order-isomorphic (floats: NaN < -Inf < ... < -0 < +0 < ... < +Inf, all NaNs alike) and round-trip exactly; concatenations order tuples lexicographically. The model is tied to keys.go by running the extracted functions and the exported Go codecs on the same inputs (exhaustive for 8/16-bit types, boundaries/adjacent patterns/random for 32/64-bit, amd64 and 386 builds).",
         "trusted: Coq kernel, extraction, the correspondence harness; float order is defined on bit patterns (sign/magnitude), validated against Go's native comparison by the order oracle"),
 "C08": ("exploration", "Coq model + correspondence with sort keys from the real collator + collator.Compare oracle",
         "collation trees: the model is driven with (original bytes, sort key) pairs computed by the real x/text collator; outputs compared with the implementation and with a reference ordered by collator.Compare.", "x/text/collate is data, not verified"),
 "C09": ("exploration", "Coq proof of the schema-codec contract + model/implementation correspondence on random schemas",
         "schema_contract (Proofs/KeysFacts.v) proves injective/prefix-free/order-embedding/round-trip for every schema of 1..n numeric fields + optional terminated string; compound trees over random schemas are compared with model and tuple-comparator oracle.", "as C01"),
 "C10": ("exploration", "Coq proofs of the SWAR/bitfield routines for arbitrary lane contents + node-table correspondence (node layer theorems in progress)",
         "Proofs/Node4Facts.v proves searchNode4/insertPosNode4/shift/set/get/construct and the node16 bitfield routines equal to scalar scans for all 2^32 words x 256 probes / all 16-byte arrays and fill counts; the raw node model (Model/Node.v) is compared with the implementation's primitives and a bare node handle through every size class on amd64 (assembly) and 386 (portable Go).",
         "arm64 assembly is outside what can be executed here (known finding D11)"),
 "C11": ("exploration", "raw structural dump correspondence (model tree = implementation tree after every operation) + independent well-formedness/canonical-shape oracle",
         "after every single operation the implementation's node graph is dumped through the verif hook and compared byte for byte (raw key words, stale lanes, inline path bytes, counters) with the model's tree; a separate oracle written from the property text checks well-formedness and canonical shape on the implementation's dumps.", "known finding D10"),
 "C12": ("exploration", "interleaved multi-tree histories: every tree against its own model instance (which never recycles) + dumps",
         "2..8 trees of mixed kinds interleaved on one goroutine with grow/shrink churn and drain-to-empty phases; each tree's results and raw dumps equal those of its own model instance, which uses fresh zero nodes only.", "use-after-release aliasing is outside a value model"),
 "C13": ("exploration", "caller-buffer sentinel checks on every call + oracle after buffer reuse",
         "[]byte keys are passed as sub-slices of sentinel-filled, reused buffers (spare capacity and exactly-full); every byte of the backing array is checked after each call, and the tree is compared with model and oracle while buffers are overwritten.", "Go slice semantics modelled later (Model/Mem.v)"),
 "C14": ("exploration", "Coq model of the consumer protocol + correspondence on every stop position and re-iteration + regenerated captured-variable table",
         "every sequence method is ranged 1..3 times over the same sequence value with stop positions 0..len; delivered elements, number of yield calls and calls after a refusal are compared with the model and the oracle; Gen/SrcFacts.v lists assignments to captured variables in returned closures (must be empty).", "as C01"),
 "C15": ("exploration", "structural digest before/after every read-only or no-op call",
         "VerifDump before and after every query / failed delete / overwrite must be identical (overwrite: identical after erasing leaf values), on all kinds, with present/absent/partial-path arguments.", "as C01"),
 "C19": ("translation_validation", "generator re-run on a scratch copy + gofmt; kernel-checked equality of the two texts (Properties/C19.v)",
         "the generator is run outside /repo, its formatted output and the checked-in trees.go are regenerated into Gen/GenOut.v split per instantiation, and Coq proves them equal by evaluation; the first differing instantiation/line is the replay.",
         "text/template and gofmt trusted; exhaustive over the five instantiations"),
}
NA = {
 "C16": "runtime leg (race detector) not built yet in this commit",
 "C17": "runtime leg (heap measurement) not built yet in this commit",
 "C18": "runtime leg (GC stress/checkptr) not built yet in this commit",
}

def main():
    checks = []
    for pid in sorted(P):
        lvl, tech, text, note = P[pid]
        checks.append({
            "property_id": pid,
            "quick_cmd": "bin/vcheck %s --tier quick" % pid,
            "thorough_cmd": "bin/vcheck %s --tier thorough" % pid,
            "evidence_file": "evidence/%s.json" % pid,
            "replay_cmd_template": "bin/vcheck %s --replay {path}" % pid,
            "engine": "vcheck",
            "level_claimed": {"category": lvl, "text": text, "design_ref": "DESIGN.md section 5 (%s)" % pid},
            "level_note": note,
            "technique": tech,
        })
    m = {
        "version": 1,
        "setup_cmd": "bin/setup.sh",
        "hooks": {
            "guard": "verif",
            "enable": "go build -tags verif (the harness module /verif/go replaces github.com/Clement-Jean/go-art by /repo)",
            "baseline_off_cmd": "cd /repo && GOFLAGS=-mod=mod GOPROXY=off go test -vet=off -count=1 ./...",
            "source_commits": ["56c87fc"],
            "add_only": True,
        },
        "engines": [
            {"name": "vcheck", "path": "bin/vcheck", "serves_properties": sorted(P),
             "kind_free_text": "Coq 8.16.1 development (coq/) + extraction to OCaml (ocaml/driver) + Go correspondence harness (go/cmd/harness) + Go source-fact extractor (go/cmd/srcfacts), orchestrated by Python"},
        ],
        "checks": checks,
        "notes": "Every check rebuilds from /repo's working tree (content-hashed cache under build/). VERIF_SEED and VERIF_TIER are honoured. Known findings: KNOWN_FINDINGS.txt; corpus of replays: corpus/.",
        "not_applicable": [{"property_id": k, "reason": v} for k, v in sorted(NA.items())],
    }
    json.dump(m, open(os.path.join(ROOT, "MANIFEST.json"), "w"), indent=1)

if __name__ == "__main__":
    main()
