#!/usr/bin/env python3
"""Per-property configuration and the generic check procedure of bin/vcheck."""
import glob, hashlib, json, os, re, shutil, sys, time
from concurrent.futures import ThreadPoolExecutor
from vlib import *
import vshape

ALL_TREE_TAGS = {"I", "S", "D", "MIN", "MAX", "SIZE", "ALL", "BWD", "TOPK", "BOTK", "RNG", "PFX"}
NODE_TAGS = {"N4S", "N4I", "N4G", "N4P", "N4L", "N4R", "N4C", "N4D", "N16S", "N16I", "NADD", "NDEL", "NFIND", "NPROBE", "NENUM", "NDUMP", "NRAW"}

# families: (family, files_quick, files_thorough, nops, histories_per_file[, nops_thorough, histories_per_file_thorough])
# family closure (go/cmd/harness/gen_closure.go): one small key universe per file index, explored exhaustively over the
# implementation's raw states; nops = depth bound, histories_per_file = state bound (0: the generator's defaults, 4000 and
# 1500 for the collation universe, which does not close).  Depth 16 closes the other five universes (they need 11..15).
# closure:shape / closure:map write only the observations C11 / C01 compare (the extracted model is the slow side).
PROPS = {
    "C01": dict(title="exact key->value map", families=[("tree:map", 16, 160, 160, 22), ("nul", 2, 16, 60, 10), ("huge", 1, 3, 1, 2), ("closure:map", 6, 6, 8, 0, 16, 0)],
                corr={"I", "S", "D"}, oracle={"I", "S", "D"}, theorem="Properties/C01.v",
                corpus=["D1", "D2", "D14"]),
    "C02": dict(title="iteration complete, duplicate-free, sorted", families=[("tree:iter", 16, 160, 120, 22), ("nul:clean", 2, 16, 60, 10)], side="C02",
                corr={"ALL", "BWD"}, oracle={"ALL", "BWD"}, theorem="Properties/C02.v"),
    "C03": dict(title="Range exact", families=[("tree:range", 16, 160, 120, 22)],
                corr={"RNG"}, oracle={"RNG"}, theorem="Properties/C03.v", corpus=["D4", "D5", "D12", "D13"]),
    "C04": dict(title="Prefix exact", families=[("tree:prefix:alpha", 10, 100, 120, 22), ("tree:prefix:coll", 6, 60, 100, 14)],
                corr={"PFX"}, oracle={"PFX"}, theorem="Properties/C04.v", corpus=["D6a", "D6b", "D6c"], opts=["-buf"]),
    "C05": dict(title="Minimum/Maximum/TopK/BottomK", families=[("tree:extremes", 16, 160, 120, 22)],
                corr={"MIN", "MAX", "TOPK", "BOTK"}, oracle={"MIN", "MAX", "TOPK", "BOTK"}, theorem="Properties/C05.v"),
    "C06": dict(title="Size", families=[("tree:size", 16, 160, 140, 22)],
                corr={"SIZE"}, oracle={"SIZE", "ALL"}, theorem="Properties/C06.v", corpus=["D3"]),
    "C07": dict(title="numeric key encodings", families=[("codec", 4, 40, 0, 0)],
                corr={"ENC"}, oracle=set(), theorem="Properties/C07.v", need386=True, special="codec"),
    "C08": dict(title="collation trees", families=[("tree:full:coll", 20, 160, 110, 14)],
                corr=ALL_TREE_TAGS, oracle=ALL_TREE_TAGS - {"RNG"}, theorem="Properties/C08.v", opts=["-buf"], side="C08"),
    "C09": dict(title="compound trees", families=[("tree:full:comp", 12, 120, 120, 20), ("tree:full:raw", 2, 20, 120, 12), ("huge", 1, 3, 1, 2), ("codec", 2, 20, 0, 0)],
                corr=ALL_TREE_TAGS | {"ENC"}, oracle=ALL_TREE_TAGS - {"PFX"}, theorem="Properties/C09.v", opts=["-buf"], side="C09"),
    "C10": dict(title="inner node tables", families=[("node4", 3, 12, 0, 0), ("node16", 3, 12, 0, 0), ("nodeseq", 8, 80, 0, 0)],
                corr=NODE_TAGS, oracle=set(), theorem="Properties/C10.v", need386=True, special="node", corpus=["D11"]),
    "C11": dict(title="index well-formed", families=[("tree:shape", 16, 160, 90, 18), ("huge", 1, 2, 1, 2), ("closure:shape", 6, 6, 16, 0, 20, 12000)],
                corr={"DUMP"}, oracle={"SIZE"}, theorem="Properties/C11.v", special="shape", corpus=["D10"]),
    # nodeseq: the bare node handle with NRAW lines = the raw node of Model/Pool.v (every slot) against the real node
    "C12": dict(title="recycled nodes", families=[("multi", 12, 120, 110, 4), ("nodeseq", 3, 30, 0, 0)],
                corr=ALL_TREE_TAGS | {"DUMP"} | NODE_TAGS, oracle=ALL_TREE_TAGS, theorem="Properties/C12.v", special="pool"),
    "C13": dict(title="key arguments", families=[("tree:full:alpha", 10, 100, 120, 22), ("tree:full:coll", 6, 60, 100, 14)],
                corr=ALL_TREE_TAGS, oracle=ALL_TREE_TAGS, theorem="Properties/C13.v",
                opts=["-buf"], side="C13", corpus=["D8", "D15"]),
    "C14": dict(title="sequences abandoned and re-iterated", families=[("tree:seqs", 16, 160, 110, 22)],
                corr={"ALL", "BWD", "TOPK", "BOTK", "RNG", "PFX"}, oracle={"ALL", "BWD", "TOPK", "BOTK", "RNG", "PFX"},
                theorem="Properties/C14.v", corpus=["D7"]),
    "C15": dict(title="queries and no-op updates leave the tree untouched", families=[("tree:pure", 14, 140, 110, 18)],
                corr=ALL_TREE_TAGS, oracle=ALL_TREE_TAGS, theorem="Properties/C15.v", opts=["-digest"], side="C15"),
    "C16": dict(title="race freedom", families=[], corr=set(), oracle=set(), theorem="Properties/C16.v", special="race", need_race=True),
    "C17": dict(title="memory proportional to content", families=[], corr=set(), oracle=set(), theorem="Properties/C17.v", special="heap", corpus=["D9"]),
    "C18": dict(title="GC safety", families=[("tree:full", 8, 60, 100, 22)], corr=ALL_TREE_TAGS, oracle=ALL_TREE_TAGS,
                theorem="Properties/C18.v", special="gc", need_checkptr=True, opts=["-gc", "7", "-buf"], side=("C13", "C08", "C09", "C02")),
    "C19": dict(title="generated trees", families=[], corr=set(), oracle=set(), theorem="Properties/C19.v", special="genout"),
}

class Ctx:
    def __init__(self, prop, tier, seed, build, t0):
        self.prop, self.tier, self.seed, self.build, self.t0 = prop, tier, seed, build, t0
        self.cfg = PROPS[prop]
        self.work = os.path.join(build.dir, "w-%s-%s-%d" % (prop, tier, os.getpid()))
        shutil.rmtree(self.work, ignore_errors=True)
        os.makedirs(self.work)
        self.violations = []       # (kind, description, replay path)
        self.known_hits = []
        self.known, self.fixed = load_known()
        self.stats = {}
        self.samples = []
        self.level = manifest_level(prop)

    def replay_path(self, name):
        os.makedirs(os.path.join(ROOT, "replays"), exist_ok=True)
        return os.path.join(ROOT, "replays", "%s-%s-%s.json" % (self.prop, self.seed, name))

# ------------------------------------------------------------------ known findings

def enclosing_statement(vfile, line):
    """'theorem NAME in ' for the Theorem/Lemma/... whose statement or proof contains that line of the .v file"""
    try:
        lines = open(os.path.join(COQ, vfile)).read().split("\n")
        for i in range(min(int(line), len(lines)) - 1, -1, -1):
            m = re.match(r'\s*(Theorem|Lemma|Corollary|Example|Fact|Remark|Definition|Fixpoint)\s+([A-Za-z0-9_\']+)', lines[i])
            if m:
                return "%s %s in " % (m.group(1).lower(), m.group(2))
    except Exception:
        pass
    return ""

def side_mine(ctx, s):
    """is this side observation of the harness one of this property's? (cfg side: one label or several)"""
    lab = ctx.cfg.get("side", "~")
    labs = lab if isinstance(lab, (list, tuple)) else [lab]
    return any(s.startswith("SIDE " + l) for l in labs)

def nul_shape(cmds):
    """D2: two byte-string keys k1, k2 with k2 = k1 ++ 00 ++ _ occur in the history"""
    keys = set()
    for c in cmds:
        t = c.split()
        if t[0] in ("I", "S", "D") and len(t) > 2 and t[2].startswith("x"):
            keys.add(t[2][1:])
    for k in keys:
        for k2 in keys:
            if k2 != k and k2.startswith(k + "00"):
                return True
    return False

def coll_equal_sortkeys_shape(cmds):
    """D14: a collation history that inserts two keys with different original bytes and byte-identical sort keys"""
    seen = {}
    for c in cmds:
        t = c.split()
        if t[0] == "I" and len(t) > 2 and ":" in t[2]:
            o, k = t[2].split(":", 1)
            if k in seen and seen[k] != o:
                return True
            seen.setdefault(k, o)
    return False

def classify_known(ctx, cmds, impl, other):
    """returns the known-finding entry a failing history is attributed to, or None"""
    for k in ctx.known:
        if k.get("property") != ctx.prop:
            continue
        m = k.get("key", "")
        if m == "alpha-nul-prefix" and cmds and cmds[0].split()[2:3] == ["alpha"] and nul_shape(cmds):
            return k
        if m == "coll-equal-sortkeys" and cmds and cmds[0].split()[2:3] == ["coll"] and coll_equal_sortkeys_shape(cmds):
            return k
    return None

# ------------------------------------------------------------------ generic procedure

def gen_family(ctx, fam, nfiles, nops, hpf, outdir):
    args = [ctx.build.harness, "gen", fam, str(ctx.seed), str(nfiles), outdir]
    if nops:
        args += [str(nops), str(hpf)]
    rc, out = sh(args, 600)
    try:
        return json.loads(out.strip().split("\n")[-1])
    except Exception:
        return {"error": out[-500:]}

def nontrivial_histories(cmds, out):
    """distinct (by hash of the command list) histories whose implementation dump shows a node
    outside class 4, a compressed path longer than the inline limit, or wide churn"""
    per = {}
    dumps = {}
    for i, c in enumerate(cmds):
        t = c.split()
        if len(t) < 2:
            continue
        per.setdefault(t[1], []).append(c)
        if t[0] in ("DUMP", "NDUMP") and i < len(out):
            dumps.setdefault(t[1], []).append(out[i])
    distinct, nontriv = set(), set()
    for tid, cs in per.items():
        h = hashlib.sha1("\n".join(cs).encode()).hexdigest()
        distinct.add(h)
        for d in dumps.get(tid, []):
            if re.search(r'(?<![0-9a-f])(16|48|256)\(', d) or re.search(r'\((1[1-9]|[2-9]\d|\d{3,}),[0-9a-f]{20},', d):
                nontriv.add(h)
                break
    return distinct, nontriv

def report_violation(ctx, kind, desc, payload, name):
    path = ctx.replay_path(name)
    payload = dict(payload)
    payload.update({"property": ctx.prop, "kind": kind, "description": desc, "seed": ctx.seed, "tier": ctx.tier})
    json.dump(payload, open(path, "w"), indent=1)
    ctx.violations.append((kind, desc, path))
    return path

def handle_mismatches(ctx, cmds_path, corr, orc, side, opts, harness=None):
    cmds = read_cmds(cmds_path)
    # oracle mismatches are property violations with a concrete failing input
    done_tids = set()
    for (i, c, impl, exp) in orc[:50]:
        tid = c.split()[1] if len(c.split()) > 1 else "-"
        if tid in done_tids:
            continue
        done_tids.add(tid)
        hist = history_of(cmds, i)
        small, a, b, ok = shrink(ctx.build, hist, "oracle", ctx.work, opts, harness)
        k = classify_known(ctx, small if ok else hist, impl, exp)
        if k:
            ctx.known_hits.append(k)
            continue
        report_violation(ctx, "oracle", "implementation output differs from what the property requires",
                         {"file": os.path.basename(cmds_path), "line": i, "commands": small if ok else hist,
                          "implementation": a if ok else impl, "required": b if ok else exp, "opts": list(opts)},
                         "oracle-%s-%d" % (os.path.basename(cmds_path)[:-5], i))
        if len(ctx.violations) >= 5:
            return
    for s in side[:20]:
        if side_mine(ctx, s):
            m = re.search(r'line=(\d+)', s)
            # line numbers in the side file count raw lines (1-based, comments included)
            raw = [l for l in open(cmds_path).read().split("\n")]
            ln = int(m.group(1)) - 1 if m else 0
            cmd = raw[ln] if ln < len(raw) else ""
            tid = cmd.split()[1] if len(cmd.split()) > 1 else "-"
            hist = [c for c in raw[:ln + 1] if c.strip() and not c.startswith("#") and len(c.split()) > 1 and c.split()[1] == tid]
            report_violation(ctx, "side", s, {"file": os.path.basename(cmds_path), "commands": hist, "opts": list(opts)},
                             "side-%s-%d" % (os.path.basename(cmds_path)[:-5], ln))
            if len(ctx.violations) >= 5:
                return
    # correspondence mismatches without an oracle mismatch in the same history
    for (i, c, impl, model) in corr[:50]:
        tid = c.split()[1] if len(c.split()) > 1 else "-"
        if tid in done_tids:
            continue
        done_tids.add(tid)
        hist = history_of(cmds, i)
        small, a, b, ok = shrink(ctx.build, hist, "model", ctx.work, opts, harness)
        k = classify_known(ctx, small if ok else hist, impl, model)
        if k:
            ctx.known_hits.append(k)
            continue
        report_violation(ctx, "correspondence",
                         "the Coq model and the implementation disagree (the theorems no longer transfer to the code); "
                         "no input on which the property itself fails was found in this history",
                         {"file": os.path.basename(cmds_path), "line": i, "commands": small if ok else hist,
                          "implementation": a if ok else impl, "model": b if ok else model, "opts": list(opts),
                          "broken": "correspondence Model/*.v <-> implementation on " + tag_of(c)},
                         "corr-%s-%d" % (os.path.basename(cmds_path)[:-5], i))
        if len(ctx.violations) >= 5:
            return

def run_files(ctx, files, opts, corr_tags, oracle_tags, harness=None, project=None, want_model=True):
    tot = {"commands": 0, "compared_model": 0, "compared_oracle": 0, "files": 0}
    distinct, nontriv = set(), set()
    # the tree families also run the REGENERATED program beside the model (driver built from Extract/ExtractGen.v,
    # when the development compiles), for each tree's first 150 operations: identical output unless the two disagree
    gen_files = set()
    if want_model and os.path.exists(ctx.build.gendriver):
        gen_files = set(f for f in files if os.path.getsize(f) < 3000000 and any(c.startswith("NEW ") for c in read_cmds(f)[:3]))
    def one(f):
        return f, run_pair(ctx.build, f, opts, harness, want_model=want_model, driver=(ctx.build.gendriver if f in gen_files else None))
    tot["files_with_regenerated_program"] = len(gen_files)
    tot["commands_with_regenerated_program"] = 0
    with ThreadPoolExecutor(max_workers=16) as ex:
        results = list(ex.map(one, files))
    for f, r in results:
        if r["impl_rc"] != 0 or (want_model and r.get("model_rc", 0) != 0):
            report_violation(ctx, "crash", "harness or model driver did not complete: " + (r["impl_log"] + r.get("model_log", ""))[-600:],
                             {"file": os.path.basename(f)}, "crash-" + os.path.basename(f)[:-5])
            continue
        st, corr, orc, side = compare(f, corr_tags if want_model else None, oracle_tags, project)
        for k in st:
            tot[k] += st[k]
        tot["files"] += 1
        if f in gen_files:
            tot["commands_with_regenerated_program"] += st.get("commands", 0)
        cmds = read_cmds(f)
        outl = load_lines(f[:-5] + ".out")
        if any(c.startswith(("NEW ", "NNEW ")) for c in cmds[:3]):
            d, n = nontrivial_histories(cmds, outl)
        else:
            # families of independent calls (codecs, node primitives): distinct commands, all non-trivial
            d = n = set(hashlib.sha1(c.encode()).hexdigest() for c in cmds)
        distinct |= d
        nontriv |= n
        if len(ctx.samples) < 3:
            k = min(len(cmds) - 1, 40)
            tid = cmds[k].split()[1] if len(cmds[k].split()) > 1 else None
            idxs = [i for i, c in enumerate(cmds[:k + 1]) if len(c.split()) > 1 and c.split()[1] == tid][:10]
            ctx.samples.append({"file": os.path.basename(f),
                                "commands_and_implementation_output": [[cmds[i][:160], outl[i][:160] if i < len(outl) else ""] for i in idxs]})
        if corr or orc or [s for s in side if side_mine(ctx, s)]:
            handle_mismatches(ctx, f, corr, orc, side, opts, harness)
        panics = [s for s in side if s.startswith("PANIC")]
        tot["panics_seen"] = tot.get("panics_seen", 0) + len(panics)
    tot["distinct_histories"] = len(distinct)
    tot["distinct_nontrivial"] = len(nontriv)
    return tot

def corpus_replays(ctx):
    """the committed corpus runs first, always: fixed defects must pass, known findings must still fail as recorded"""
    n = 0
    for name in ctx.cfg.get("corpus", []):
        for path in sorted(glob.glob(os.path.join(ROOT, "corpus", name + "-*.cmds"))):
            n += 1
            meta = {}
            mp = path[:-5] + ".json"
            if os.path.exists(mp):
                meta = json.load(open(mp))
            w = os.path.join(ctx.work, os.path.basename(path))
            shutil.copy(path, w)
            opts = meta.get("opts", [])
            run_pair(ctx.build, w, opts)
            st, corr, orc, side = compare(w, ALL_TREE_TAGS | NODE_TAGS | {"DUMP", "ENC"}, ALL_TREE_TAGS)
            side = [s for s in side if s.startswith("SIDE")]
            failing = bool(orc or side)
            if ctx.prop == "C11":
                for l in load_lines(w[:-5] + ".out"):
                    if l.startswith("DUMP "):
                        errs, kn = vshape.well_formed(l)
                        if kn:
                            failing = True
                        if errs and meta.get("status") != "known":
                            orc = orc or [(0, "DUMP", l[:200], "; ".join(errs[:2]))]
                            failing = True
            if meta.get("status") == "known":
                if failing:
                    # one line per listed finding: use the entry of KNOWN_FINDINGS.txt with this replay's id
                    did = name.split("-")[0]
                    ent = [k for k in load_known()[0] if k.get("id") == did and k.get("property") == ctx.prop]
                    if ent:
                        ctx.known_hits.append(ent[0])
                    else:
                        # a corpus replay marked known without a listed finding for this property suppresses nothing
                        report_violation(ctx, "corpus", "corpus replay %s fails and KNOWN_FINDINGS.txt lists no finding %s for %s" % (name, did, ctx.prop),
                                         {"file": os.path.basename(path), "commands": read_cmds(path), "opts": opts}, "corpus-" + os.path.basename(path)[:-5])
                else:
                    ctx.stats.setdefault("known_findings_no_longer_failing", []).append(name)
            else:
                if failing or corr:
                    what = (orc or corr or [(0, side[0] if side else "", "", "")])[0]
                    report_violation(ctx, "corpus", "corpus replay %s (a repaired defect) fails again" % name,
                                     {"file": os.path.basename(path), "commands": read_cmds(path), "first": list(what), "side": side[:3], "opts": opts},
                                     "corpus-" + os.path.basename(path)[:-5])
    ctx.stats["corpus_replays"] = n

def proof_leg(ctx):
    """status of the theorems of this property: the cone of Properties/Cnn.v compiled, no Admitted,
    no forbidden construct, and the Print Assumptions output"""
    th = ctx.cfg.get("theorem")
    info = {"theorem_file": th, "exists": bool(th and os.path.exists(os.path.join(COQ, th)))}
    if not info["exists"]:
        return info
    ps = proof_status(th, ctx.build)
    info.update(ps)
    rc, out = print_assumptions(th, ctx.build)
    info["properties_compile_rc"] = rc
    assum = re.findall(r'(Closed under the global context|Axioms:\n(?:.+\n)+?)(?=\n|\Z)', out)
    info["print_assumptions"] = [a.strip()[:400] for a in assum][:60]
    info["theorems"] = STMT_RE.findall(open(os.path.join(COQ, th)).read())
    if rc != 0:
        info["compile_error"] = out[-1500:]
    return info

def finish(ctx, coverage, assumptions, proof=None):
    wall = time.time() - ctx.t0
    # broken proof obligations
    if proof and proof.get("exists"):
        broken = None
        failed = [ff for ff in (ctx.build.status.get("coq_failed_all") or []) if ff[0] in proof.get("cone", [])]
        if failed:
            broken = "proof obligation no longer checks: %s%s line %s (in the dependency cone of %s)" % (
                enclosing_statement(failed[0][0], failed[0][1]), failed[0][0], failed[0][1], proof["theorem_file"])
        elif proof.get("stale"):
            broken = "compiled proof missing or older than its source for %s (in the dependency cone of %s)" % (proof["stale"][:3], proof["theorem_file"])
        elif not ctx.build.status.get("coq_ok") and not ctx.build.status.get("coq_failed_all"):
            broken = "Coq development no longer compiles (see build log)"
        elif proof.get("properties_compile_rc", 0) != 0:
            broken = "%s no longer compiles: %s" % (proof["theorem_file"], proof.get("compile_error", "")[-300:])
        elif proof.get("forbidden"):
            broken = "forbidden construct in the development: %s" % proof["forbidden"]
        elif ctx.level == "proof" and proof.get("admitted", 0) > 0:
            broken = "%d Admitted in the cone of %s" % (proof["admitted"], proof["theorem_file"])
        if broken and not ctx.violations:
            report_violation(ctx, "proof", broken + " — no input on which the property itself fails was found",
                             {"broken": broken, "make_log": ctx.build.status["log"].get("make", "")[-2500:]}, "proof")
    for k in ctx.known_hits[:]:
        pass
    seen = set()
    for k in ctx.known_hits:
        t = k.get("text", "")
        if t in seen:
            continue
        seen.add(t)
        desc = re.sub(r'^known:\s*', '', t)
        desc = re.sub(r'property=\S+\s*', '', desc)
        print("KNOWN-FINDING: property=%s %s" % (ctx.prop, desc))
    coverage.setdefault("samples", ctx.samples[:3] or [{"note": "see explanation"}])
    coverage["known_findings_reported"] = len(seen)
    if proof is not None:
        coverage["proof"] = {k: v for k, v in proof.items() if k not in ("cone",)}
        coverage["proof"]["cone_files"] = len(proof.get("cone", []))
        if proof.get("exists"):
            coverage.setdefault("obligations", proof["obligations"])
            coverage.setdefault("discharged", proof["discharged"])
            coverage.setdefault("checker_cmd", "make -C /verif/coq (coqc 8.16.1, full .vo build) ; coqc Properties/%s.v" % ctx.prop)
    coverage.setdefault("trusted_base", TRUSTED_BASE)
    write_evidence(ctx.prop, ctx.tier, ctx.seed, ctx.level, coverage, assumptions, wall, len(ctx.violations))
    shutil.rmtree(ctx.work, ignore_errors=True)
    # a concrete failing input of the implementation (oracle / side check / corpus replay) is what gets reported;
    # a broken correspondence or proof obligation is reported on its own only when no such input was found
    concrete = [v for v in ctx.violations if v[0] not in ("correspondence", "proof")]
    for kind, desc, path in (concrete or ctx.violations):
        suffix = " no-failing-input-found" if kind in ("correspondence", "proof") else ""
        print("VIOLATION property=%s replay=%s%s" % (ctx.prop, path, suffix))
    if ctx.violations:
        return 1
    print("OK %s tier=%s seed=%s %.1fs %s" % (ctx.prop, ctx.tier, ctx.seed, wall,
          json.dumps({k: coverage.get(k) for k in ("evaluations", "distinct_nontrivial", "obligations", "discharged") if k in coverage})))
    return 0

TRUSTED_BASE = [
    "Coq 8.16.1 kernel and vm_compute (no native_compute); full .vo builds",
    "extraction to OCaml with ExtrOcamlBasic only (no Extract Constant; nat/positive/N/Z stay Coq datatypes) and ocaml/driver.ml (parsing/printing only)",
    "go/cmd/harness (command interpreter, generators, property oracle) and the verif-tagged hooks of /repo/verif_hooks.go",
    "go/cmd/srcfacts (constant/threshold/fact extraction from the Go source)",
    "the hand-written Gallina model is tied to the code only by the correspondence runs reported here",
]

def coq_eval(ctx, files):
    """Cross-check of the extraction by the kernel's evaluator: the operations the extracted model executed on a
    sample of the generated histories, with the outputs it printed, are evaluated again inside Coq (vm_compute,
    Extract/EvalCheck.v) and compared."""
    tree_files = [f for f in files if any(c.startswith("NEW ") for c in read_cmds(f)[:3])]
    if not tree_files:
        return {}
    nsamp, maxops = (1, 500) if ctx.tier == "quick" else (8, 2500)
    samples = []
    for f in tree_files:
        if len(samples) >= nsamp:
            break
        cmds = read_cmds(f)
        # whole histories, in file order, up to maxops operations; a history that is long or carries very long keys
        # (thousands of keys below nested wide nodes, 4 KiB sort keys) is left to the thorough tier, whose own
        # limits are wider: vm_compute on it takes most of a minute
        hist, order = {}, []
        for c in cmds:
            t = c.split()
            if len(t) > 1 and t[0] == "NEW":
                order.append(t[1])
                hist[t[1]] = []
            if len(t) > 1 and t[1] in hist:
                hist[t[1]].append(c)
        keep, nk = [], 0
        for tid in order:
            h = hist[tid]
            if nk > maxops:
                break
            lim_n, lim_b = (350, 60000) if ctx.tier == "quick" else (2500, 600000)
            if len(h) > lim_n or sum(len(c) for c in h) > lim_b:
                continue   # (the `huge` histories, megabytes of key text, are beyond what vm_compute takes in any tier)
            keep += h
            nk += len(h)
        if not keep:
            continue   # nothing of this file fits the quick sample (only very long histories): take the next file
        p = os.path.join(ctx.work, "keval_%s.cmds" % os.path.basename(f)[:-5].replace("-", "_"))
        open(p, "w").write("\n".join(keep) + "\n")
        samples.append(p)
    def one(p):
        base = p[:-5]
        rc, out = sh("ulimit -v 8000000; %s %s %s %s" % (ctx.build.driver, p, base + ".mod", base + "_cases.v"), 600)
        if rc != 0:
            return p, None, "driver failed: " + out[-300:]
        rc, out = sh("coqc -Q %s GoArt %s 2>&1" % (COQ, os.path.basename(base) + "_cases.v"), 1500, os.path.dirname(p))
        mt = re.search(r'T = (\d+)%nat', out)
        mm = re.search(r'M = (\[.*?\])\s*:\s*list', out, re.S)
        if rc != 0 or not mt or not mm:
            return p, None, "coqc failed: " + out[-400:]
        return p, (int(mt.group(1)), mm.group(1).strip()), ""
    with ThreadPoolExecutor(max_workers=8) as ex:
        res = list(ex.map(one, samples))
    total = 0
    for p, r, err in res:
        if r is None:
            report_violation(ctx, "correspondence", "kernel evaluation of the recorded model run could not be completed: " + err,
                             {"file": os.path.basename(p), "broken": "Extract/EvalCheck.v on " + os.path.basename(p)}, "keval-" + os.path.basename(p)[:-5])
            continue
        total += r[0]
        if r[1] != "[]":
            report_violation(ctx, "correspondence", "the extracted model and the kernel's evaluation of the same Gallina model disagree (case, operation) = " + r[1][:200],
                             {"file": os.path.basename(p), "commands": read_cmds(p)[:400], "broken": "extraction (ExtrOcamlBasic) vs vm_compute"},
                             "keval-" + os.path.basename(p)[:-5])
    return {"kernel_evaluated_ops": total, "kernel_evaluated_files": len(samples)}

def coqchk_leg(ctx):
    """thorough tier: the compiled property file and everything it depends on are re-checked by the
    independent checker coqchk, which also lists the axioms they rely on (cached per build)."""
    th = ctx.cfg.get("theorem")
    if not th or not os.path.exists(os.path.join(COQ, th[:-2] + ".vo")):
        return {}
    out_path = os.path.join(ctx.build.dir, "coqchk-%s.txt" % ctx.prop)
    if not os.path.exists(out_path):
        mod = "GoArt." + th[:-2].replace("/", ".")
        rc, out = sh("coqchk -silent -o -Q . GoArt %s 2>&1" % mod, 3400, COQ)
        open(out_path, "w").write("rc=%d\n%s" % (rc, out))
    txt = open(out_path).read()
    rc = int(re.match(r'rc=(\d+)', txt).group(1))
    axioms = re.findall(r'\* Axioms:\s*\n((?:.*\n)*?)\n', txt + "\n\n")
    res = {"coqchk_rc": rc, "coqchk_summary": txt[-1200:]}
    if rc != 0:
        report_violation(ctx, "proof", "coqchk rejects the compiled development of %s — no input on which the property itself fails was found" % th,
                         {"broken": "coqchk " + th, "output": txt[-2000:]}, "coqchk")
    return res

def run_property(ctx):
    cfg = ctx.cfg
    special = cfg.get("special")
    import vspecial
    if special in ("race", "heap", "genout"):
        return getattr(vspecial, "run_" + special)(ctx)
    corpus_replays(ctx)
    opts = cfg.get("opts", [])
    tot_all = {}
    gen_stats = {}
    for famspec in cfg["families"]:
        fam, nq, nt, nops, hpf = famspec[:5]
        n = nq if ctx.tier == "quick" else nt
        if ctx.tier != "quick" and len(famspec) > 5:
            nops, hpf = famspec[5], (famspec[6] if len(famspec) > 6 else hpf)
        outdir = os.path.join(ctx.work, fam.replace(":", "_"))
        gen_stats[fam] = gen_family(ctx, fam, n, nops, hpf, outdir)
        files = sorted(glob.glob(os.path.join(outdir, "*.cmds")))
        harness = ctx.build.harness_checkptr if special == "gc" and os.path.exists(ctx.build.harness_checkptr) else None
        tot = run_files(ctx, files, opts, cfg["corr"] | ({"DUMP"} if special in ("shape", "pool") else set()), cfg["oracle"], harness)
        for k, v in tot.items():
            tot_all[k] = tot_all.get(k, 0) + v
        if special in ("codec", "node") and os.path.exists(ctx.build.harness386):
            # the 32-bit build runs node16_other.go and the UintSize==32 codec branches
            d386 = outdir + "_386"
            os.makedirs(d386, exist_ok=True)
            rc, out = sh([ctx.build.harness386, "gen", fam, str(ctx.seed), str(max(1, n // 2)), d386], 600)
            files386 = sorted(glob.glob(os.path.join(d386, "*.cmds")))
            tot = run_files(ctx, files386, opts, cfg["corr"], cfg["oracle"], ctx.build.harness386)
            tot_all["commands_386"] = tot_all.get("commands_386", 0) + tot["commands"]
            tot_all["compared_model_386"] = tot_all.get("compared_model_386", 0) + tot["compared_model"]
    extra = {}
    if special:
        fn = getattr(vspecial, "extra_" + special, None)
        if fn:
            extra = fn(ctx) or {}
    if ctx.tier == "thorough":
        extra.update(coqchk_leg(ctx))
    # (the kernel-evaluated sample stays on the random histories: the closure files sort last)
    all_files = sorted(glob.glob(os.path.join(ctx.work, "*", "*.cmds")), key=lambda f: ("/closure" in f, f))
    extra.update(coq_eval(ctx, [f for f in all_files if "_386" not in f and "keval_" not in f]))
    proof = proof_leg(ctx)
    coverage = {
        "evaluations": tot_all.get("commands", 0) + tot_all.get("commands_386", 0),
        "distinct_nontrivial": tot_all.get("distinct_nontrivial", 0),
        "rule": "commands generated from VERIF_SEED by go/cmd/harness gen (families %s), executed on the implementation built from /repo "
                "(-tags verif) and on the extracted Coq model, compared line by line on tags %s, and checked against the property oracle on tags %s. "
                "distinct_nontrivial counts histories that are distinct by the hash of their command list AND whose implementation dump shows a node of "
                "class 16/48/256 or a compressed path longer than the inline limit." % ([f[0] for f in cfg["families"]], sorted(cfg["corr"]), sorted(cfg["oracle"])),
        "traces_validated_against_impl": tot_all.get("compared_model", 0) + tot_all.get("compared_model_386", 0),
        "oracle_checked": tot_all.get("compared_oracle", 0),
        "distinct_histories": tot_all.get("distinct_histories", 0),
        "generator_distribution": gen_stats,
        "panics_seen_in_implementation": tot_all.get("panics_seen", 0),
        "regenerated_program_beside_the_model": {
            "files": tot_all.get("files_with_regenerated_program", 0),
            "commands_in_those_files": tot_all.get("commands_with_regenerated_program", 0),
            "note": "in these files the driver built from Extract/ExtractGen.v also executes the REGENERATED methods (Gen/*.v, heap state) "
                    "for byte-string, collation, 64-bit numeric and compound trees (each tree's first 150 operations) and marks every line on "
                    "which they and the hand-written model differ; absent (0) when the development does not compile"},
        "explanation": "Theorems about the Gallina model (see proof.*) + correspondence of the extracted model with the implementation on the commands counted here "
                       "+ independent property oracle used to search for failing inputs.",
        "exhaustive": False,
    }
    cl = {}
    for fam, gs in gen_stats.items():
        if fam.split(":")[0] == "closure":
            cl.update(gs.get("closure") or {})
    if cl:
        # exhaustive for their bound: every raw state of the implementation reachable in the universe within `depth`
        # (all of them when complete), and from every such state every Insert/Delete of the universe + the overwrite probes
        coverage["closed_universes"] = {
            name: {"states": u.get("closure_states"), "transitions": u.get("closure_transitions"), "depth": u.get("closure_depth"),
                   "complete": u.get("closure_complete"), "profile": u.get("profile"), "overwrite_probes": u.get("overwrite_probes"),
                   "depth_bound": u.get("depth_bound"), "state_bound": u.get("state_bound"),
                   "max_raw_states_for_one_key_set": u.get("max_raw_states_for_one_key_set")}
            for name, u in sorted(cl.items())}
    coverage.update(extra)
    coverage.update(ctx.stats)
    assumptions = [
        "key lengths < 2^32; bytes are < 256",
        "byte-string keys stored in one tree contain no 0x00 (terminator prefix-freeness; the known finding D2 is the exception list)",
        "collation: sort keys are taken from the real collator as data; pairs used are functional, injective, prefix-free (checked per generated pool)",
        "see DESIGN.md section 8 for the trusted base",
    ]
    return finish(ctx, coverage, assumptions, proof)

def replay(ctx, path):
    r = json.load(open(path))
    cmds = r.get("commands")
    if not cmds:
        print("replay file has no command list (kind=%s): %s" % (r.get("kind"), r.get("description", r.get("broken"))))
        return run_property(ctx)
    p = os.path.join(ctx.work, "replay.cmds")
    open(p, "w").write("\n".join(cmds) + "\n")
    opts = r.get("opts", [])
    run_pair(ctx.build, p, opts)
    st, corr, orc, side = compare(p, ALL_TREE_TAGS | NODE_TAGS | {"DUMP", "ENC"}, ALL_TREE_TAGS)
    side = [s for s in side if s.startswith("SIDE")]
    for l in (orc[:3] + corr[:3]):
        print("  cmd %d: %s\n    implementation: %s\n    %s: %s" % (l[0], l[1], l[2][:300], "required/model", l[3][:300]))
    for s in side[:3]:
        print("  ", s)
    shutil.rmtree(ctx.work, ignore_errors=True)
    if orc or corr or side:
        print("VIOLATION property=%s replay=%s" % (ctx.prop, path))
        return 1
    print("replay passes: implementation, model and oracle agree on", path)
    return 0
