#!/bin/bash
# mutant-eval.sh <dir with patch.diff [+ demo_test.go]> <Cnn> [<Cnn> ...]
# Evaluates the checks against a seeded change WITHOUT touching /repo or /verif:
# a scratch git worktree of /repo gets the patch, a scratch copy of /verif (with its
# compiled Coq files) is pointed at it through VERIF_ROOT/VERIF_REPO.  Development aid
# only; the registered checks always run in /verif against /repo.
set -u
D=$(readlink -f "$1"); shift
DEMO="$D/demo_test.go"; [ -f "$DEMO" ] || DEMO="$D/demo_test.go.txt"
T=$(mktemp -d /tmp/meval-XXXXXX)
export GOFLAGS=-mod=mod GOPROXY=off
cleanup() { git -C /repo worktree remove --force "$T/repo" >/dev/null 2>&1; rm -rf "$T"; }
trap cleanup EXIT
git -C /repo worktree add -q --detach "$T/repo" HEAD || exit 2
if ! git -C "$T/repo" apply "$D/patch.diff"; then echo "PATCH-DOES-NOT-APPLY"; exit 2; fi
# 1. the change must pass the existing suite
if (cd "$T/repo" && go test -vet=off -count=1 ./... >"$T/suite.log" 2>&1); then echo "suite: pass"; else echo "suite: FAIL (mutant rejected)"; tail -5 "$T/suite.log"; exit 2; fi
# 2. its demonstration must fail with it and pass without it
if [ -f "$DEMO" ]; then
  cp "$DEMO" "$T/repo/zz_demo_test.go"
  if (cd "$T/repo" && go test -vet=off -count=1 -run TestDemo ./ >"$T/demo1.log" 2>&1); then echo "demo with change: PASSES (mutant rejected)"; exit 2; else echo "demo with change: fails (as required)"; fi
  rm "$T/repo/zz_demo_test.go"
  git -C "$T/repo" apply -R "$D/patch.diff"; cp "$DEMO" "$T/repo/zz_demo_test.go"
  if (cd "$T/repo" && go test -vet=off -count=1 -run TestDemo ./ >"$T/demo0.log" 2>&1); then echo "demo without change: passes (as required)"; else echo "demo without change: FAILS (mutant rejected)"; tail -5 "$T/demo0.log"; exit 2; fi
  rm "$T/repo/zz_demo_test.go"; git -C "$T/repo" apply "$D/patch.diff"
fi
# 3. the checks
if [ "${FROM_HEAD:-0}" = 1 ]; then
  # the committed state of /verif (other work in progress in the working tree is left out) + the compiled Coq files
  git -C /verif archive HEAD | (mkdir -p "$T/verif" && tar -x -C "$T/verif")
  rsync -a --include='*/' --include='*.vo' --include='*.glob' --include='.*.aux' --include='Makefile*' --include='.Makefile.d' --exclude='*' /verif/coq/ "$T/verif/coq/"
else
  # VERIF_SRC: a pristine built copy of /verif to start from (used while other work is in progress in /verif itself)
  rsync -a --exclude .git --exclude 'build/t-*' --exclude replays --exclude seeded "${VERIF_SRC:-/verif}/" "$T/verif/"
fi
mkdir -p "$T/verif/replays" "$T/verif/build"
sed -i "s#=> /repo#=> $T/repo#" "$T/verif/go/go.mod"
export VERIF_ROOT="$T/verif" VERIF_REPO="$T/repo"
for p in "$@"; do
  out=$("$T/verif/bin/vcheck" "$p" --tier "${TIER:-quick}" 2>&1 | grep -v '^WARNING' | tail -4)
  rc=$?
  if echo "$out" | grep -q '^VIOLATION'; then
    r=$(echo "$out" | grep '^VIOLATION' | head -1)
    f=$(echo "$r" | sed 's/.*replay=\([^ ]*\).*/\1/')
    echo "$p: DETECTED  $r"
    python3 - "$f" <<'EOF'
import json,sys
try:
    r=json.load(open(sys.argv[1]))
    print("     kind=%s file=%s desc=%s" % (r.get("kind"), r.get("file"), (r.get("description") or "")[:160]))
    c=r.get("commands") or []
    print("     commands(%d): %s" % (len(c), " | ".join(c[:12])[:600]))
    print("     impl=%s  required/model=%s" % (str(r.get("implementation"))[:200], str(r.get("required", r.get("model")))[:200]))
except Exception as e:
    print("     (replay unreadable: %r)" % e)
# every replay of this run: which generated file each failing history came from
import glob,os
for q in sorted(glob.glob(os.path.join(os.path.dirname(sys.argv[1]), "*.json"))):
    try:
        x=json.load(open(q))
        print("     replay %s kind=%s file=%s" % (os.path.basename(q), x.get("kind"), x.get("file")))
    except Exception:
        pass
EOF
  else
    echo "$p: missed    $(echo "$out" | tail -1 | cut -c1-200)"
  fi
done
