#!/usr/bin/env python3
"""mkmutprompt.py <Cnn> <worktree> : writes the brief of an independent mutation sub-agent (property text only)."""
import json, sys
pid, wt = sys.argv[1], sys.argv[2]
extra = sys.argv[3] if len(sys.argv) > 3 else ""
props = {}
for l in open('/verif/properties.jsonl'):
    d = json.loads(l); props[d['id']] = d
d = props[pid]
a = d.get('anchors', {})
anch = "files: %s\nmechanisms: %s" % (", ".join(a.get('files', [])), "; ".join("%s (%s)" % (m['name'], m['where']) for m in a.get('mechanism', [])))
print("""You are helping test a verification effort by producing a realistic *regression* in a Go library. Work ONLY inside the git worktree {wt} (a checkout of the Go library Clement-Jean/go-art, an Adaptive Radix Tree). Do not read or write anything under /verif or /repo; do not look at other directories under /tmp/mut.

Go setup for every shell call:  export GOFLAGS=-mod=mod GOPROXY=off   (the sandbox has no network; `go test ./...` in the worktree takes about 10 s and must be run as `go test -vet=off -count=1 ./...`). If trees.go needs to change, note that trees.go is generated from cmd/go-art/tree.tmpl (`rm trees.go && go run cmd/go-art/main.go && gofmt -w trees.go`); you may edit either both consistently or only one of them.

The library is supposed to satisfy this semantic property:

--- PROPERTY {pid}: {title} ---
{stmt}
--- (code anchors, for orientation) ---
{anch}
---

TASK: produce TWO different, independent source changes (mutations) to the library, each of which
  (a) still compiles and still passes the complete existing test suite (`go test -vet=off -count=1 ./...` in the worktree) with no test edited,
  (b) breaks the property above (and preferably only subtly), and
  (c) needs something SPECIFIC to manifest: a multi-step sequence of operations, an unusual input (e.g. particular byte values such as 0x00/0x7f/0x80/0xff, keys sharing a long common prefix of more than 10 bytes, a node going through a particular size class 4/16/48/256 growth or shrink threshold, particular float bit patterns, particular Unicode strings), a second iteration over the same sequence value, a particular goroutine interleaving, two cooperating edit sites that each look fine alone, etc. Do NOT make changes that ordinary use would expose at once (e.g. Search always returning false). Think like a plausible developer mistake: an off-by-one in a threshold, a dropped guard, a wrong index variable, a stale counter, a missed case in one node size class, a refactor that shares state that should be per-call, an optimisation that skips a needed copy or re-validation.
  Do not touch files named *_test.go, and do not touch verif_hooks.go. Changes in files that are not compiled on linux/amd64 (e.g. node16_arm64.s, node16_other.go) are not useful.{extra}

For EACH mutation deliver, in the directory {wt}/../out-{pid}/m1 and {wt}/../out-{pid}/m2 (create them):
  - patch.diff : `git diff` of the worktree for that mutation alone (relative to the unmodified checkout; must apply with `git apply` at the repo root),
  - demo_test.go : a small self-contained Go test file (package art, using only the public API, or internal identifiers if unavoidable) named so that copying it into the repo root and running `go test -vet=off -count=1 -run TestDemo ./` FAILS with the mutation applied and PASSES on the unmodified checkout. Verify both yourself,
  - notes.md : which clause of the property breaks, what exactly is needed for it to manifest (the specific input/sequence), and the commands you ran with their results (suite passes with mutation; demo passes without; demo fails with).
Between mutations restore the worktree with `git checkout -- . && git clean -fdq` (do not leave demo files in the worktree when you compute patch.diff). Never use `git stash` (the stash is shared between worktrees). At the end leave the worktree clean (unmodified).

Report back a short summary: for each mutation, one paragraph on what was changed and how it manifests, and confirm the three verification runs.""".format(wt=wt, pid=pid, title=d.get('title', ''), stmt=d.get('statement', ''), anch=anch, extra=("\n  " + extra if extra else "")))
