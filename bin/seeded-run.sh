#!/bin/bash
# seeded-run.sh [<id> ...] : evaluates every seeded change under /verif/seeded (or the named ones) with
# bin/mutant-eval.sh against the checks listed in its meta.json ("detected_by_quick_checks"), four at a time,
# and prints one line per (change, check). Development aid; nothing is applied to /repo.
cd /verif/seeded || exit 2
ids="$@"; [ -z "$ids" ] && ids=$(ls -d */ | tr -d /)
mkdir -p /tmp/seeded-logs
for id in $ids; do
  checks=$(python3 -c "import json;print(' '.join(json.load(open('/verif/seeded/$id/meta.json'))['detected_by_quick_checks']))")
  echo "$id $checks"
done | xargs -P 5 -L1 sh -c 'id=$0; /verif/bin/mutant-eval.sh /verif/seeded/$id "$@" > /tmp/seeded-logs/$id.log 2>&1'
for id in $ids; do
  grep -h "DETECTED\|missed\|rejected\|PATCH-DOES-NOT-APPLY" /tmp/seeded-logs/$id.log | sed "s/^/$id  /" | cut -c1-160
done
