#!/bin/bash
# seeded-obligations.sh [<id> ...] : for every seeded change under /verif/seeded (or the named ones), regenerate
# coq/Gen from a scratch worktree of /repo with the change applied and re-run `make -k` on a scratch copy of the
# compiled Coq development: which proof obligations (files) stop checking?  Prints one line per change:
#   <id>  gen_changed=<Gen files that differ>  broken=<.v files that no longer compile>
# Development aid (the registered checks do the same inside ensure_build); nothing is applied to /repo or /verif.
set -u
export GOFLAGS=-mod=mod GOPROXY=off
ids="$@"; [ -z "$ids" ] && ids=$(cd /verif/seeded && ls -d */ | tr -d /)
W=$(mktemp -d /tmp/sobl-XXXXXX)
trap 'for d in $W/wt-*; do [ -d "$d" ] && git -C /repo worktree remove --force "$d" >/dev/null 2>&1; done; rm -rf $W' EXIT
(cd /verif/go && go build -o $W/srcfacts ./cmd/srcfacts) || exit 2
one() {
  id=$1
  wt=$W/wt-$id; cq=$W/coq-$id
  git -C /repo worktree add -q --detach $wt HEAD || { echo "$id  WORKTREE-FAILED"; return; }
  if ! git -C $wt apply /verif/seeded/$id/patch.diff 2>/dev/null; then echo "$id  PATCH-DOES-NOT-APPLY"; git -C /repo worktree remove --force $wt; return; fi
  rsync -a --exclude 'Extract/*.ml*' /verif/coq/ $cq/
  mkdir -p $W/gen-$id
  (cd $wt && $W/srcfacts $wt $W/gen-$id >/dev/null 2>$W/sf-$id.err)
  changed=""
  for f in $W/gen-$id/*.v; do
    b=$(basename $f)
    # Layouts.v and GenOut.v are produced by other tools (reflection hook, generator run): left as they are
    if [ "$b" = "Layouts.v" ] || [ "$b" = "GenOut.v" ]; then continue; fi
    if ! cmp -s $f $cq/Gen/$b; then cp $f $cq/Gen/$b; changed="$changed $b"; fi
  done
  broken=""
  if [ -n "$changed" ]; then
    (cd $cq && timeout 3000 make -k -j4 >$W/make-$id.log 2>&1)
    broken=$(grep -o 'File "\./[A-Za-z0-9_/]*\.v"' $W/make-$id.log | sort -u | sed 's/File "\.\///; s/"//' | tr '\n' ' ')
  fi
  echo "$id  gen_changed=[$(echo $changed | tr ' ' ',')]  broken=[$(echo $broken | tr ' ' ',')]"
  git -C /repo worktree remove --force $wt >/dev/null 2>&1
  rm -rf $cq $W/gen-$id
}
export -f one
export W
echo $ids | tr ' ' '\n' | xargs -P 4 -I{} bash -c 'one {}'
