(* Correspondence driver: reads one command per line (the same command files the
   Go harness executes against the implementation), runs the EXTRACTED Coq model
   (model.ml, untouched extraction output) and prints one result line per
   command in the harness' output format.  Only parsing and printing live here. *)
open Model
(* Model/Pool.v brings Coq's own string type into model.ml; in this file `string` is OCaml's *)
type string = Stdlib.String.t

(* ---------- conversions between text and the Coq number types ---------- *)
let rec pos_bits (p : positive) : int list =        (* LSB first *)
  match p with XH -> [1] | XO q -> 0 :: pos_bits q | XI q -> 1 :: pos_bits q

let n_bits (x : n) : int list = match x with N0 -> [] | Npos p -> pos_bits p

let rec bits_pos (l : int list) : positive option = (* LSB first; None = zero *)
  match l with
  | [] -> None
  | b :: r ->
    (match bits_pos r with
     | None -> if b = 1 then Some XH else None
     | Some q -> Some (if b = 1 then XI q else XO q))

let bits_n (l : int list) : n = match bits_pos l with None -> N0 | Some p -> Npos p

let hexdig c =
  match c with
  | '0'..'9' -> Char.code c - 48
  | 'a'..'f' -> Char.code c - 87
  | 'A'..'F' -> Char.code c - 55
  | _ -> failwith ("bad hex digit " ^ String.make 1 c)

let n_of_hex (s : string) : n =
  let bits = ref [] in
  String.iter (fun c ->
      let d = hexdig c in
      (* prepend so that the final list is LSB first *)
      bits := (d land 1) :: ((d lsr 1) land 1) :: ((d lsr 2) land 1) :: ((d lsr 3) land 1) :: !bits) s;
  bits_n !bits

let hex_of_n (x : n) : string =
  let rec go l acc =
    match l with
    | [] -> acc
    | _ ->
      let take k l = let rec t k l a = if k = 0 then (List.rev a, l) else
                       (match l with [] -> t (k-1) [] (0 :: a) | b :: r -> t (k-1) r (b :: a)) in t k l [] in
      let (nib, rest) = take 4 l in
      let v = List.fold_right (fun b a -> a * 2 + b) nib 0 in
      go rest (String.make 1 "0123456789abcdef".[v] ^ acc) in
  match n_bits x with [] -> "0" | l -> go l ""

let n_of_int (i : int) : n =
  let rec bits i = if i = 0 then [] else (i land 1) :: bits (i lsr 1) in bits_n (bits i)
let int_of_n (x : n) : int = List.fold_right (fun b a -> a * 2 + b) (n_bits x) 0
let rec nat_of_int (i : int) : nat = if i <= 0 then O else S (nat_of_int (i - 1))
let rec int_of_nat (x : nat) : int = match x with O -> 0 | S y -> 1 + int_of_nat y
let z_of_int (i : int) : z =
  if i = 0 then Z0 else if i > 0 then (match n_of_int i with Npos p -> Zpos p | N0 -> Z0)
  else (match n_of_int (- i) with Npos p -> Zneg p | N0 -> Z0)
let int_of_z (x : z) : int =
  match x with Z0 -> 0 | Zpos p -> int_of_n (Npos p) | Zneg p -> - (int_of_n (Npos p))
(* signed keys: optional '-' then hex magnitude *)
let z_of_shex (s : string) : z =
  if String.length s > 0 && s.[0] = '-' then
    (match n_of_hex (String.sub s 1 (String.length s - 1)) with N0 -> Z0 | Npos p -> Zneg p)
  else (match n_of_hex s with N0 -> Z0 | Npos p -> Zpos p)
let shex_of_z (x : z) : string =
  match x with Z0 -> "0" | Zpos p -> hex_of_n (Npos p) | Zneg p -> "-" ^ hex_of_n (Npos p)

(* byte strings: x<hex> *)
let bytes_of_hex (s : string) : n list =
  let len = String.length s in
  if len mod 2 <> 0 then failwith ("odd hex " ^ s);
  List.init (len / 2) (fun i -> n_of_int (hexdig s.[2*i] * 16 + hexdig s.[2*i+1]))
let hex_of_bytes (l : n list) : string =
  String.concat "" (List.map (fun b -> Printf.sprintf "%02x" (int_of_n b)) l)
let xbytes (s : string) : n list =
  if String.length s = 0 || s.[0] <> 'x' then failwith ("bad byte string " ^ s);
  bytes_of_hex (String.sub s 1 (String.length s - 1))
let xhex (l : n list) : string = "x" ^ hex_of_bytes l

(* ---------- kinds and keys ---------- *)
let parse_ftype (s : string) : ftype =
  if s = "str" then TStr else
    let w = nat_of_int (int_of_string (String.sub s 1 (String.length s - 1))) in
    (match s.[0] with 'u' -> TU w | 's' -> TS w | 'f' -> TF w | _ -> failwith ("bad ftype " ^ s))

let parse_kind (s : string) : kind =
  if s = "alpha" then KAlpha
  else if s = "raw" then KCodec ((fun x -> x), (fun x -> x))
  else if s = "coll" then KCollation
  else if String.length s > 5 && String.sub s 0 5 = "comp:" then
    KCompound (List.map parse_ftype (String.split_on_char ',' (String.sub s 5 (String.length s - 5))))
  else
    let w = nat_of_int (int_of_string (String.sub s 1 (String.length s - 1))) in
    (match s.[0] with 'u' -> KUnsigned w | 's' -> KSigned w | 'f' -> KFloat w | _ -> failwith ("bad kind " ^ s))

let parse_fval (t : ftype) (s : string) : fval =
  match t with
  | TU _ -> VU (n_of_hex s) | TS _ -> VS (z_of_shex s) | TF _ -> VF (n_of_hex s) | TStr -> VStr (xbytes s)

let parse_key (k : kind) (s : string) : akey =
  match k with
  | KAlpha -> AB (xbytes s)
  | KUnsigned _ -> AU (n_of_hex s)
  | KSigned _ -> AS (z_of_shex s)
  | KFloat _ -> AF (n_of_hex s)
  | KCollation ->
    (match String.split_on_char ':' s with
     | [o; c] -> AC (xbytes o, xbytes c)
     | _ -> failwith ("bad collation key " ^ s))
  | KCompound sch ->
    let parts = String.split_on_char ',' s in
    AT (List.map2 parse_fval sch parts)
  | KCodec (_, _) -> AB (xbytes s)   (* user codec ("raw"): the key is an opaque byte string *)

let show_float (w : nat) (b : n) : string = if is_nan w b then "nan" else hex_of_n b

let show_fval (t : ftype) (v : fval) : string =
  match t, v with
  | _, VU x -> hex_of_n x
  | _, VS x -> shex_of_z x
  | TF w, VF b -> show_float w b
  | _, VF b -> hex_of_n b
  | _, VStr s -> xhex s

let show_key (k : kind) (a : akey) : string =
  match k, a with
  | _, AB l -> xhex l
  | _, AU x -> hex_of_n x
  | _, AS x -> shex_of_z x
  | KFloat w, AF b -> show_float w b
  | _, AF b -> hex_of_n b
  | _, AC (o, _) -> xhex o
  | KCompound sch, AT vs ->
    (try String.concat "," (List.map2 show_fval sch vs) with Invalid_argument _ -> "badtuple")
  | _, AT _ -> "badtuple"

let parse_stop (s : string) : nat option = if s = "-" then None else Some (nat_of_int (int_of_string s))

(* ---------- structural dump ---------- *)
let rec dump_tree (b : Buffer.t) (t : tree) : unit =
  match t with
  | Leaf (gk, tk, v) ->
    Buffer.add_string b (Printf.sprintf "L(%s,%s,%d)" (hex_of_bytes gk) (hex_of_bytes tk) (int_of_z v))
  | Inner n -> dump_node dump_tree b n
and dump_node : 'c. (Buffer.t -> 'c -> unit) -> Buffer.t -> 'c rnode -> unit = fun pc b n ->
  let hd (h : hdr) len = Printf.sprintf "%d,%s,%d" (int_of_nat h.prefixLen) (hex_of_bytes h.prefix) (int_of_n len) in
  let list pc l =
    Buffer.add_char b '[';
    List.iteri (fun i c -> if i > 0 then Buffer.add_char b ';'; pc b c) l;
    Buffer.add_char b ']' in
  let slot b o = match o with None -> Buffer.add_char b '-' | Some c -> pc b c in
  match n with
  | N4 (h, len, keys, ch) ->
    Buffer.add_string b (Printf.sprintf "4(%s,%08x," (hd h len) (int_of_n keys)); list pc ch; Buffer.add_char b ')'
  | N16 (h, len, keys, ch) ->
    Buffer.add_string b (Printf.sprintf "16(%s,%s," (hd h len) (hex_of_bytes keys)); list pc ch; Buffer.add_char b ')'
  | N48 (h, len, idx, slots) ->
    Buffer.add_string b (Printf.sprintf "48(%s,%s," (hd h len) (hex_of_bytes idx)); list slot slots; Buffer.add_char b ')'
  | N256 (h, len, slots) ->
    Buffer.add_string b (Printf.sprintf "256(%s," (hd h len)); list slot slots; Buffer.add_char b ')'

(* the raw node of Model/Pool.v with every slot, in the format of VerifNode.RawDump:
   <kind>(<childrenLen>,<prefixLen>,<prefix>,<raw keys>,[s0;s1;...]) *)
let raw_node (x : int xnode) : string =
  let hd k (h : xhdr) =
    Printf.sprintf "%d(%d,%d,%s," k (int_of_n h.xlen) (int_of_nat h.xplen) (hex_of_bytes h.xprefix) in
  let slots ch =
    "[" ^ String.concat ";" (List.map (fun o -> match o with None -> "-" | Some c -> string_of_int c) ch) ^ "])" in
  match x with
  | X4 (h, keys, ch) -> hd 4 h ^ Printf.sprintf "%08x," (int_of_n keys) ^ slots ch
  | X16 (h, keys, ch) -> hd 16 h ^ hex_of_bytes keys ^ "," ^ slots ch
  | X48 (h, idx, ch) -> hd 48 h ^ hex_of_bytes idx ^ "," ^ slots ch
  | X256 (h, ch) -> hd 256 h ^ "," ^ slots ch

let dump_state (st : state) : string =
  let b = Buffer.create 256 in
  Buffer.add_string b (Printf.sprintf "DUMP %d " (int_of_z st.size));
  (match st.root with None -> Buffer.add_string b "nil" | Some t -> dump_tree b t);
  Buffer.contents b

(* ---------- Coq terms of what was executed (kernel cross-check of the extraction) ---------- *)
let recorded : (string, (kind * (op * out) list ref)) Hashtbl.t = Hashtbl.create 16
let rec_order : string list ref = ref []
let record (tid : string) (k : kind) (o : op) (x : out) : unit =
  match Hashtbl.find_opt recorded tid with
  | Some (_, l) -> l := (o, x) :: !l
  | None -> Hashtbl.replace recorded tid (k, ref [(o, x)]); rec_order := tid :: !rec_order

let cq_n (x : n) : string = "0x" ^ hex_of_n x
let cq_z (x : z) : string =
  match x with Z0 -> "0%Z" | Zpos p -> "(0x" ^ hex_of_n (Npos p) ^ ")%Z" | Zneg p -> "(- 0x" ^ hex_of_n (Npos p) ^ ")%Z"
let cq_nat (x : nat) : string = string_of_int (int_of_nat x) ^ "%nat"
let cq_list (f : 'a -> string) (l : 'a list) : string = "[" ^ String.concat "; " (List.map f l) ^ "]"
let cq_bytes (l : n list) : string = cq_list (fun b -> string_of_int (int_of_n b)) l
let cq_ftype (t : ftype) : string =
  match t with TU w -> "TU " ^ cq_nat w | TS w -> "TS " ^ cq_nat w | TF w -> "TF " ^ cq_nat w | TStr -> "TStr"
let cq_kind (k : kind) : string =
  match k with
  | KAlpha -> "KAlpha" | KCollation -> "KCollation"
  | KUnsigned w -> "(KUnsigned " ^ cq_nat w ^ ")" | KSigned w -> "(KSigned " ^ cq_nat w ^ ")"
  | KFloat w -> "(KFloat " ^ cq_nat w ^ ")"
  | KCompound s -> "(KCompound " ^ cq_list cq_ftype s ^ ")"
  | KCodec (_, _) -> "(KCodec (fun x => x) (fun x => x))"   (* the only user codec the harness instantiates: the identity ("raw") *)
let cq_fval (v : fval) : string =
  match v with
  | VU x -> "VU " ^ cq_n x | VS x -> "VS " ^ cq_z x | VF x -> "VF " ^ cq_n x | VStr s -> "VStr " ^ cq_bytes s
let cq_key (a : akey) : string =
  match a with
  | AB l -> "(AB " ^ cq_bytes l ^ ")" | AU x -> "(AU " ^ cq_n x ^ ")" | AS x -> "(AS " ^ cq_z x ^ ")"
  | AF x -> "(AF " ^ cq_n x ^ ")" | AC (o, c) -> "(AC " ^ cq_bytes o ^ " " ^ cq_bytes c ^ ")"
  | AT vs -> "(AT " ^ cq_list cq_fval vs ^ ")"
let cq_stop (s : nat option) : string = match s with None -> "None" | Some m -> "(Some " ^ cq_nat m ^ ")"
let cq_op (o : op) : string =
  match o with
  | Insert (a, v) -> "Insert " ^ cq_key a ^ " " ^ cq_z v
  | Search a -> "Search " ^ cq_key a | Delete a -> "Delete " ^ cq_key a
  | Minimum -> "Minimum" | Maximum -> "Maximum" | Size -> "Size"
  | All s -> "All " ^ cq_stop s | Backward s -> "Backward " ^ cq_stop s
  | TopK (n, s) -> "TopK " ^ cq_n n ^ " " ^ cq_stop s | BottomK (n, s) -> "BottomK " ^ cq_n n ^ " " ^ cq_stop s
  | Range (a, b, s) -> "Range " ^ cq_key a ^ " " ^ cq_key b ^ " " ^ cq_stop s
  | Prefix (p, s) -> "Prefix " ^ cq_key p ^ " " ^ cq_stop s
let cq_out (x : out) : string =
  match x with
  | OUnit -> "OUnit" | OAbsent -> "OAbsent" | ONone -> "ONone" | OPanic -> "OPanic" | OFuel -> "OFuel"
  | OFound v -> "OFound " ^ cq_z v | OBool b -> "OBool " ^ string_of_bool b
  | OKV (a, v) -> "OKV " ^ cq_key a ^ " " ^ cq_z v | OSize z -> "OSize " ^ cq_z z
  | OSeq (l, c) -> "OSeq " ^ cq_list (fun (a, v) -> "(" ^ cq_key a ^ ", " ^ cq_z v ^ ")") l ^ " " ^ cq_nat c

let write_coq (path : string) : unit =
  let oc = open_out path in
  output_string oc "(* written by ocaml/driver: the operations the extracted model executed and the outputs it printed *)\n";
  output_string oc "From GoArt Require Import Base.Bytes Model.Keys Model.Api Extract.EvalCheck.\nOpen Scope N_scope.\n";
  let ids = List.rev !rec_order in
  List.iteri (fun i tid ->
      let (k, l) = Hashtbl.find recorded tid in
      Printf.fprintf oc "Definition c%d : kind * list (op * out) := (%s,\n  [%s]).\n" i (cq_kind k)
        (String.concat ";\n   " (List.rev_map (fun (o, x) -> "(" ^ cq_op o ^ ", " ^ cq_out x ^ ")") !l))) ids;
  Printf.fprintf oc "Definition cases := [%s].\n" (String.concat "; " (List.mapi (fun i _ -> Printf.sprintf "c%d" i) ids));
  output_string oc "Definition T := Eval vm_compute in total_ops cases.\nPrint T.\n";
  output_string oc "Definition M := Eval vm_compute in mismatches cases 0.\nPrint M.\n";
  close_out oc

(* ---------- command loop ---------- *)
let trees : (string, kind * state) Hashtbl.t = Hashtbl.create 16
let nodes : (string, int rnode) Hashtbl.t = Hashtbl.create 16
(* the same handles as raw nodes (Model/Pool.v): every Get is answered by a new node (empty oracle,
   empty pool; Proofs/PoolFacts.v: the pool only ever holds cleared nodes, so this is no restriction) *)
let xnodes : (string, int xnode) Hashtbl.t = Hashtbl.create 16

let show_out (k : kind) (tag : string) (o : out) : string =
  match o with
  | OUnit -> tag
  | OFound v -> Printf.sprintf "%s %d" tag (int_of_z v)
  | OAbsent -> tag ^ " absent"
  | OBool b -> Printf.sprintf "%s %b" tag b
  | OKV (a, v) -> Printf.sprintf "%s %s %d" tag (show_key k a) (int_of_z v)
  | ONone -> tag ^ " none"
  | OSize z -> Printf.sprintf "%s %d" tag (int_of_z z)
  | OSeq (l, calls) ->
    Printf.sprintf "%s %d%s" tag (int_of_nat calls)
      (String.concat "" (List.map (fun (a, v) -> Printf.sprintf " %s=%d" (show_key k a) (int_of_z v)) l))
  | OPanic -> tag ^ " PANIC"
  | OFuel -> tag ^ " FUEL"

let show_int_z (z : z) = string_of_int (int_of_z z)

(* Optional second model: the REGENERATED program (ocaml/genhook.ml, linked only into the driver built from
   Extract/ExtractGen.v).  For the kinds it covers it executes the same operation on its own heap state and returns
   its output; where that differs from the hand-written model's output the line gets a suffix, so that it no longer
   equals the implementation's line either and the disagreement is reported with the command list. *)
let gen_new : (string -> unit) ref = ref (fun _ -> ())
let gen_hook : (string -> kind -> op -> out option) ref = ref (fun _ _ _ -> None)
let with_gen (tid : string) (k : kind) (tag : string) (o : op) (model_line : string) : string =
  match !gen_hook tid k o with
  | None -> model_line
  | Some og ->
    let gl = show_out k tag og in
    if gl = model_line then model_line else model_line ^ " !REGENERATED-PROGRAM-SAYS: " ^ gl

let run_tree_op (tid : string) (tag : string) (mk : kind -> op) : string =
  let (k, st) = Hashtbl.find trees tid in
  let (st', o) = step k st (mk k) in
  Hashtbl.replace trees tid (k, st');
  record tid k (mk k) o;
  with_gen tid k tag (mk k) (show_out k tag o)

(* a sequence value ranged over once per stop in "s1/s2/..." *)
let run_seq_op (tid : string) (tag : string) (stops : string) (mk : kind -> nat option -> op) : string =
  let (k, st) = Hashtbl.find trees tid in
  let pass stop =
    let (_, o) = step k st (mk k (parse_stop stop)) in
    record tid k (mk k (parse_stop stop)) o;
    let s = with_gen tid k tag (mk k (parse_stop stop)) (show_out k tag o) in
    (* strip "<tag> " *)
    String.sub s (String.length tag + 1) (String.length s - String.length tag - 1) in
  (* "nJ": a full pass during which, at element J, the same sequence value is ranged over completely: the
     model's sequences are values, so this is the full pass twice when it has more than J elements, once otherwise *)
  let passes stop =
    if String.length stop > 0 && stop.[0] = 'n' then begin
      let j = int_of_string (String.sub stop 1 (String.length stop - 1)) in
      let p = pass "-" in
      let cnt = (try int_of_string (List.hd (String.split_on_char ' ' p)) with _ -> 0) in
      if cnt > j then [p; pass "-"] else [p]
    end else [pass stop] in
  tag ^ " " ^ String.concat " | " (List.concat_map passes (String.split_on_char '/' stops))

let handle (line : string) : string option =
  let toks = List.filter (fun s -> s <> "") (String.split_on_char ' ' line) in
  match toks with
  | [] -> None
  | t :: _ when String.length t > 0 && t.[0] = '#' -> None
  | ["NEW"; tid; ks; _variant] -> Hashtbl.replace trees tid (parse_kind ks, init); !gen_new tid; Some "NEW"
  | ["I"; tid; key; v] -> Some (run_tree_op tid "I" (fun k -> Insert (parse_key k key, z_of_int (int_of_string v))))
  | ["S"; tid; key] -> Some (run_tree_op tid "S" (fun k -> Search (parse_key k key)))
  | ["D"; tid; key] -> Some (run_tree_op tid "D" (fun k -> Delete (parse_key k key)))
  | ["MIN"; tid] -> Some (run_tree_op tid "MIN" (fun _ -> Minimum))
  | ["MAX"; tid] -> Some (run_tree_op tid "MAX" (fun _ -> Maximum))
  | ["SIZE"; tid] -> Some (run_tree_op tid "SIZE" (fun _ -> Size))
  | ["ALL"; tid; stop] -> Some (run_seq_op tid "ALL" stop (fun _ st -> All st))
  | ["BWD"; tid; stop] -> Some (run_seq_op tid "BWD" stop (fun _ st -> Backward st))
  | ["TOPK"; tid; n; stop] -> Some (run_seq_op tid "TOPK" stop (fun _ st -> TopK (n_of_hex n, st)))
  | ["BOTK"; tid; n; stop] -> Some (run_seq_op tid "BOTK" stop (fun _ st -> BottomK (n_of_hex n, st)))
  | ["RNG"; tid; a; b; stop] ->
    Some (run_seq_op tid "RNG" stop (fun k st -> Range (parse_key k a, parse_key k b, st)))
  | ["PFX"; tid; p; stop] -> Some (run_seq_op tid "PFX" stop (fun k st -> Prefix (parse_key k p, st)))
  | ["DUMP"; tid] -> let (_, st) = Hashtbl.find trees tid in Some (dump_state st)
  (* codecs *)
  | ["ENC"; ks; _variant; key] ->
    let k = parse_kind ks in
    let a = parse_key k key in
    (* Transform, then Restore of what Transform produced, through a one-leaf tree *)
    let (st, _) = step k init (Insert (a, Z0)) in
    (match st.root with
     | Some (Leaf (gk, _, _)) ->
       let gk' = (match k with KAlpha -> List.rev (List.tl (List.rev gk)) | _ -> gk) in
       (match step k st Minimum with
        | (_, OKV (a', _)) -> Some (Printf.sprintf "ENC %s %s" (hex_of_bytes gk') (show_key k a'))
        | _ -> Some "ENC ?")
     | _ -> Some "ENC ?")
  (* node4 / node16 primitives *)
  | ["N4S"; keys; b] -> Some ("N4S " ^ show_int_z (searchNode4 (n_of_hex keys) (n_of_hex b)))
  | ["N4I"; keys; b] -> Some ("N4I " ^ show_int_z (insertPosNode4 (n_of_hex keys) (n_of_hex b)))
  | ["N4G"; keys; pos] -> Some ("N4G " ^ hex_of_n (getAtPos (n_of_hex keys) (n_of_hex pos)))
  | ["N4P"; keys; pos; b] -> Some ("N4P " ^ hex_of_n (setAtPos (n_of_hex keys) (n_of_hex pos) (n_of_hex b)))
  | ["N4L"; keys; pos] -> Some ("N4L " ^ hex_of_n (shiftLeftClear (n_of_hex keys) (n_of_hex pos)))
  | ["N4R"; keys; pos] -> Some ("N4R " ^ hex_of_n (shiftRightClear (n_of_hex keys) (n_of_hex pos)))
  | ["N4C"; a; b; c; d] -> Some ("N4C " ^ hex_of_n (construct (n_of_hex a) (n_of_hex b) (n_of_hex c) (n_of_hex d)))
  | ["N4D"; keys] -> Some ("N4D " ^ hex_of_bytes (deconstruct (n_of_hex keys)))
  | ["N16S"; keys; len; b] ->
    Some ("N16S " ^ show_int_z (searchNode16 (bytes_of_hex keys) (n_of_hex len) (n_of_hex b)))
  | ["N16I"; keys; len; b] ->
    Some ("N16I " ^ show_int_z (insertPosNode16 (bytes_of_hex keys) (n_of_hex len) (n_of_hex b)))
  (* bare node handle; children are integers *)
  | ["NNEW"; nid] ->
    Hashtbl.replace nodes nid (empty4 hdr0);
    Hashtbl.replace xnodes nid (xzero K4);
    Some "NNEW"
  | ["NADD"; nid; b; c] ->
    Hashtbl.replace nodes nid (nadd (Hashtbl.find nodes nid) (n_of_hex b) (int_of_string c));
    Hashtbl.replace xnodes nid (fst (xadd (Hashtbl.find xnodes nid) (n_of_hex b) (int_of_string c) [] []));
    Some "NADD"
  | ["NDEL"; nid; b] ->
    Hashtbl.replace nodes nid (ndel (Hashtbl.find nodes nid) (n_of_hex b));
    Hashtbl.replace xnodes nid (fst (xdel (Hashtbl.find xnodes nid) (n_of_hex b) [] []));
    Some "NDEL"
  | ["NRAW"; nid] -> Some ("NRAW " ^ raw_node (Hashtbl.find xnodes nid))
  | ["NFIND"; nid; b] ->
    Some (match nfind (Hashtbl.find nodes nid) (n_of_hex b) with None -> "NFIND none" | Some c -> Printf.sprintf "NFIND %d" c)
  | ["NENUM"; nid] ->
    Some ("NENUM" ^ String.concat "" (List.map (fun (_, c) -> Printf.sprintf " %d" c) (nenum (Hashtbl.find nodes nid))))
  | ["NPROBE"; nid] ->
    let n = Hashtbl.find nodes nid in
    let b = Buffer.create 256 in
    Buffer.add_string b "NPROBE";
    for i = 0 to 255 do
      (match nfind n (n_of_int i) with None -> () | Some c -> Buffer.add_string b (Printf.sprintf " %x:%d" i c))
    done;
    Some (Buffer.contents b)
  | ["NDUMP"; nid] ->
    let b = Buffer.create 256 in
    dump_node (fun b c -> Buffer.add_string b (Printf.sprintf "L(,,%d)" c)) b (Hashtbl.find nodes nid);
    Some ("NDUMP " ^ Buffer.contents b)
  | _ -> failwith ("bad command: " ^ line)

let main () =
  let ic = if Array.length Sys.argv > 1 then open_in Sys.argv.(1) else stdin in
  let oc = if Array.length Sys.argv > 2 then open_out Sys.argv.(2) else stdout in
  (try
     while true do
       let line = input_line ic in
       match (try handle line with Not_found -> failwith ("unknown id in: " ^ line)) with
       | None -> ()
       | Some s -> output_string oc s; output_char oc '\n'
     done
   with End_of_file -> ());
  close_out oc;
  if Array.length Sys.argv > 3 then write_coq Sys.argv.(3)
