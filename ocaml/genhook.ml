(* The regenerated program beside the model (see driver.ml: gen_hook).  Linked only into the driver built from
   Extract/ExtractGen.v, where module Driver is driver.ml compiled against Genmodel. *)
open Genmodel

let gstates : (Stdlib.String.t, gstate) Hashtbl.t = Hashtbl.create 16
let counts : (Stdlib.String.t, int) Hashtbl.t = Hashtbl.create 16
(* the collator as a function: the (original bytes, sort key) pairs the commands carry, computed by the real collator *)
let coltab : (n list, n list) Hashtbl.t = Hashtbl.create 64
let col (o : n list) : n list = try Hashtbl.find coltab o with Not_found -> []
let note_key (a : akey) : unit = match a with AC (o, c) -> Hashtbl.replace coltab o c | _ -> ()
let note_op (o : op) : unit =
  match o with
  | Insert (a, _) -> note_key a
  | Search a | Delete a -> note_key a
  | Prefix (a, _) -> note_key a
  | Range (a, b, _) -> note_key a; note_key b
  | _ -> ()

let rec int_of_nat (x : nat) : int = match x with O -> 0 | S y -> 1 + int_of_nat y

let step_for (k : kind) : (gstate -> op -> choice list -> gstate * out) option =
  match k with
  | KAlpha -> Some g_alpha_step_all
  | KCollation -> Some (g_collation_step col)
  | KUnsigned w when int_of_nat w = 8 -> Some g_unsigned64_step
  | KSigned w when int_of_nat w = 8 -> Some g_signed64_step
  | KFloat w when int_of_nat w = 8 -> Some g_float64_step
  | KCompound _ | KCodec (_, _) -> Some (g_compound_step k)
  | _ -> None

let () =
  Driver.gen_new := (fun tid -> Hashtbl.replace gstates tid g_init; Hashtbl.replace counts tid 0);
  Driver.gen_hook := (fun tid k o ->
    match step_for k with
    | None -> None
    | Some st ->
      note_op o;
      (* every step re-reads the whole tree from the heap (cost linear in its size): a tree is followed for its
         first 150 operations and while its keys stay below 4 KiB (addresses are unary numbers and the heap an association list: the cost grows with the cube of the history) *)
      let cnt = (try Hashtbl.find counts tid with Not_found -> 0) + 1 in
      Hashtbl.replace counts tid cnt;
      let long_key = (match o with
        | Insert (AB l, _) | Search (AB l) | Delete (AB l) -> List.compare_length_with l 4096 > 0
        | Insert (AC (l, c), _) -> List.compare_length_with c 4096 > 0 || List.compare_length_with l 4096 > 0
        | Insert (AT vs, _) -> List.exists (fun v -> match v with VStr l -> List.compare_length_with l 4096 > 0 | _ -> false) vs
        | _ -> false) in
      if long_key then Hashtbl.replace counts tid 1000000;
      if cnt > 150 || long_key then None else begin
        let g = (try Hashtbl.find gstates tid with Not_found -> g_init) in
        let (g', out) = st g o [] in
        Hashtbl.replace gstates tid g';
        Some out
      end)
