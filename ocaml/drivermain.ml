(* entry point (separate so that ocaml/genhook.ml, when linked, registers its hooks first) *)
let () = Driver.main ()
